//! F10 witness: a well-behaved user matcher that yields more than 1024 literals of ONE value in a
//! block that is not constant makes `compress_literals` panic (`assert!(amount >= 2)`).
use ruzstd::encoding::{CompressionLevel, FrameCompressor, Matcher, Sequence};
use std::panic::{catch_unwind, AssertUnwindSafe};

/// Scripted matcher: blocks of fixed sizes; per block a list of (literal_len, offset, match_len) + tail literals.
struct Scripted {
    block_sizes: Vec<usize>,
    scripts: Vec<Vec<(usize, usize, usize)>>,
    next: usize,
    last: Vec<u8>,
    block_idx: usize,
    window: u64,
}
impl Matcher for Scripted {
    fn get_next_space(&mut self) -> Vec<u8> {
        let n = self.block_sizes.get(self.next).copied().unwrap_or(16);
        self.next += 1;
        vec![0; n]
    }
    fn get_last_space(&mut self) -> &[u8] {
        &self.last
    }
    fn commit_space(&mut self, space: Vec<u8>) {
        self.last = space;
        self.block_idx += 1;
    }
    fn skip_matching(&mut self) {}
    fn start_matching(&mut self, mut handle: impl for<'a> FnMut(Sequence<'a>)) {
        let script = self.scripts.get(self.block_idx - 1).cloned().unwrap_or_default();
        let mut pos = 0;
        for (ll, off, ml) in script {
            handle(Sequence::Triple { literals: &self.last[pos..pos + ll], offset: off, match_len: ml });
            pos += ll + ml;
        }
        if pos < self.last.len() {
            handle(Sequence::Literals { literals: &self.last[pos..] });
        }
    }
    fn reset(&mut self, _level: CompressionLevel) {
        self.next = 0;
        self.block_idx = 0;
    }
    fn window_size(&self) -> u64 {
        self.window
    }
}

fn run(name: &str, data: &[u8], m: Scripted) -> bool {
    let r = catch_unwind(AssertUnwindSafe(|| {
        let mut out = Vec::new();
        let mut c = FrameCompressor::new_with_matcher(m, CompressionLevel::Fastest);
        c.set_source(data);
        c.set_drain(&mut out);
        c.compress();
        out
    }));
    match r {
        Err(e) => {
            let msg = e.downcast_ref::<&str>().map(|s| s.to_string()).or(e.downcast_ref::<String>().cloned()).unwrap_or_default();
            println!("{name}: PANIC: {msg}");
            false
        }
        Ok(frame) => {
            let mut dec = ruzstd::decoding::FrameDecoder::new();
            let mut ours = Vec::with_capacity(data.len() + 1024);
            let ok_ruzstd = dec.decode_all_to_vec(&frame, &mut ours).is_ok() && ours == data;
            let lib = zstd::stream::decode_all(&frame[..]);
            let ok_lib = matches!(&lib, Ok(d) if d == data);
            println!("{name}: frame {} bytes for {} input bytes; ruzstd round trip {}, libzstd round trip {}", frame.len(), data.len(), ok_ruzstd, ok_lib);
            ok_ruzstd && ok_lib
        }
    }
}

fn main() {
    // direct: the table builder itself
    let r = catch_unwind(|| ruzstd::huff0::huff0_encoder::HuffmanTable::build_from_data(&[7; 2000]));
    println!("HuffmanTable::build_from_data(&[7; 2000]): {}", if r.is_err() { "PANIC" } else { "ok" });

    // block 1: "abcdefgh" (8 literals, raw literals path); block 2: 2000 x 7 as literals, then a match of 8 bytes
    // at offset 2008 (the whole of block 1).  Block 2 is not constant, so it is not turned into an RLE block.
    let mut data = b"abcdefgh".to_vec();
    data.extend(std::iter::repeat(7u8).take(2000));
    data.extend_from_slice(b"abcdefgh");
    let m = Scripted { block_sizes: vec![8, 2008], scripts: vec![vec![], vec![(2000, 2008, 8)]], next: 0, last: vec![], block_idx: 0, window: 1 << 17 };
    let ok1 = run("F10 witness (2000 equal literals + match)", &data, m);

    // control: same shape with two distinct literal values
    let mut data2 = b"abcdefgh".to_vec();
    data2.extend((0..2000).map(|i| if i % 3 == 0 { 7u8 } else { 8 }));
    data2.extend_from_slice(b"abcdefgh");
    let m = Scripted { block_sizes: vec![8, 2008], scripts: vec![vec![], vec![(2000, 2008, 8)]], next: 0, last: vec![], block_idx: 0, window: 1 << 17 };
    let ok2 = run("control (two literal values)", &data2, m);
    // a third block after the single-valued one: the remembered table must not be disturbed
    let mut data3 = data2.clone();
    data3.extend(std::iter::repeat(9u8).take(1500));
    data3.extend_from_slice(b"abcdefgh");
    data3.extend((0..2000).map(|i| if i % 3 == 0 { 7u8 } else { 8 }));
    data3.extend_from_slice(b"abcdefgh");
    let m = Scripted {
        block_sizes: vec![8, 2008, 1508, 2008],
        scripts: vec![vec![], vec![(2000, 2008, 8)], vec![(1500, 1508, 8)], vec![(2000, 2008, 8)]],
        next: 0,
        last: vec![],
        block_idx: 0,
        window: 1 << 17,
    };
    let ok3 = run("three literal-heavy blocks, the middle one single-valued", &data3, m);
    std::process::exit(if ok1 && ok2 && ok3 { 0 } else { 1 });
}
