//! F4 witness: a user-supplied matcher whose sequences all have literal length 0 (variant A)
//! or all have match length 3 (variant B) makes the FSE normaliser see a histogram in which only
//! symbol 0 occurs.
use ruzstd::encoding::{CompressionLevel, FrameCompressor, Matcher, Sequence};
use std::io::Read;

struct Scripted {
    block: usize,
    spaces: Vec<Vec<u8>>,
    variant: u8,
}
impl Matcher for Scripted {
    fn get_next_space(&mut self) -> Vec<u8> {
        vec![0; self.block]
    }
    fn get_last_space(&mut self) -> &[u8] {
        self.spaces.last().unwrap()
    }
    fn commit_space(&mut self, space: Vec<u8>) {
        self.spaces.push(space);
    }
    fn skip_matching(&mut self) {}
    fn start_matching(&mut self, mut handle: impl for<'a> FnMut(Sequence<'a>)) {
        let n = self.spaces.len();
        let cur = self.spaces.last().unwrap().clone();
        if n == 1 {
            handle(Sequence::Literals { literals: &cur });
        } else if self.variant == b'A' {
            // the block repeats the previous one: copy it with matches, never a literal
            let half = cur.len() / 2;
            handle(Sequence::Triple { literals: &[], offset: self.block, match_len: half });
            handle(Sequence::Triple { literals: &[], offset: self.block, match_len: cur.len() - half });
        } else {
            // variant B: every match has length 3 (ML code 0), one literal in front of each
            let mut pos = 0;
            while pos + 4 <= cur.len() {
                handle(Sequence::Triple { literals: &cur[pos..pos + 1], offset: self.block, match_len: 3 });
                pos += 4;
            }
            if pos < cur.len() {
                handle(Sequence::Literals { literals: &cur[pos..] });
            }
        }
    }
    fn reset(&mut self, _level: CompressionLevel) {
        self.spaces.clear();
    }
    fn window_size(&self) -> u64 {
        (self.block * 4) as u64
    }
}

fn run(variant: u8) -> Result<(), String> {
    let block = 64usize;
    let one: Vec<u8> = (0..block as u32).map(|i| (i * 7 + 3) as u8).collect();
    let mut input = one.clone();
    input.extend_from_slice(&one);
    let mut out = Vec::new();
    let r = std::panic::catch_unwind(std::panic::AssertUnwindSafe(|| {
        let mut c = FrameCompressor::new_with_matcher(Scripted { block, spaces: vec![], variant }, CompressionLevel::Fastest);
        c.set_source(&input[..]);
        c.set_drain(&mut out);
        c.compress();
    }));
    if r.is_err() {
        return Err("compressor panicked".into());
    }
    // ruzstd's own decoder
    let mut dec = ruzstd::decoding::StreamingDecoder::new(&out[..]).map_err(|e| format!("ruzstd init: {e:?}"))?;
    let mut back = Vec::new();
    dec.read_to_end(&mut back).map_err(|e| format!("ruzstd decode: {e:?}"))?;
    if back != input {
        return Err("ruzstd round trip differs".into());
    }
    // libzstd
    let back2 = zstd::stream::decode_all(&out[..]).map_err(|e| format!("libzstd: {e:?}"))?;
    if back2 != input {
        return Err("libzstd round trip differs".into());
    }
    // is the second block really a compressed block? (block type in bits 1-2 of the block header)
    println!("variant {}: frame {} bytes for {} input bytes: {}", variant as char, out.len(), input.len(), out.iter().map(|b| format!("{b:02x}")).collect::<String>());
    Ok(())
}

fn main() {
    let mut bad = false;
    for v in [b'A', b'B'] {
        match run(v) {
            Ok(()) => println!("variant {}: OK (round trips through ruzstd and libzstd)", v as char),
            Err(e) => {
                bad = true;
                println!("variant {}: FAIL: {}", v as char, e)
            }
        }
    }
    std::process::exit(if bad { 1 } else { 0 });
}
