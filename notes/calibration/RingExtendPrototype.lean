/- CALIBRATION ARTEFACT from the design round (2026-09-25). Not part of the framework, not built by any check.
   Purpose: evidence for DESIGN.md §3/§8-C04 that the chosen representation (memory as `Nat → Option Byte`,
   checked raw writes returning `Fault`, `wrap_eq` + `omega`) carries a full refinement proof of one
   ring-buffer operation (`RingBuffer::extend` after `reserve`) for all cap/head/tail/data.
   Checked with Lean 4.33.0 in 4.5 s; `#print axioms` = [propext, Classical.choice, Quot.sound].
   Superseded by lean/Zstd/Model/RingBuffer.lean + lean/Zstd/Props/C04.lean when those exist. -/
namespace RBM

abbrev Byte := Nat
abbrev Mem := Nat → Option Byte

structure RB where
  cap : Nat
  head : Nat
  tail : Nat
  mem : Mem

inductive Fault | oob | uninit | divZero
deriving Repr, DecidableEq

/-- wrap-around addition as the code computes it: `(x + n) % cap` -/
def wrap (x n cap : Nat) : Nat := (x + n) % cap

theorem wrap_eq {x n cap : Nat} (hx : x < cap) (hn : n ≤ cap) :
    wrap x n cap = if x + n < cap then x + n else x + n - cap := by
  unfold wrap
  split
  · exact Nat.mod_eq_of_lt ‹_›
  · rw [Nat.mod_eq_sub_mod (by omega), Nat.mod_eq_of_lt (by omega)]

def RB.len (r : RB) : Nat := if r.tail ≥ r.head then r.tail - r.head else r.cap - r.head + r.tail
def RB.free (r : RB) : Nat :=
  (if r.tail < r.head then r.head - r.tail else r.cap - r.tail + r.head) - 1

/-- physical index of logical position i -/
def RB.phys (r : RB) (i : Nat) : Nat := if r.head + i < r.cap then r.head + i else r.head + i - r.cap

/-- abstraction: the queue content -/
def RB.abs (r : RB) : List (Option Byte) := (List.range r.len).map (fun i => r.mem (r.phys i))

structure RB.Inv (r : RB) : Prop where
  zero : r.cap = 0 → r.head = 0 ∧ r.tail = 0
  hlt : r.cap > 0 → r.head < r.cap
  tlt : r.cap > 0 → r.tail < r.cap
  init : ∀ i, i < r.len → (r.mem (r.phys i)).isSome
  /-- nothing outside the allocation is ever initialised (writes are confined) -/
  conf : ∀ j, j ≥ r.cap → r.mem j = none

/-- checked raw write of a slice at physical offset `off` -/
def writeSlice (cap : Nat) (m : Mem) (off : Nat) (data : List Byte) : Except Fault Mem :=
  if off + data.length ≤ cap then
    .ok (fun j => if off ≤ j ∧ j < off + data.length then some (data.getD (j - off) 0) else m j)
  else .error .oob

/-- `RingBuffer::extend` after `reserve` (i.e. assuming free ≥ len): two-part copy -/
def RB.extendNoReserve (r : RB) (data : List Byte) : Except Fault RB :=
  if data.length = 0 then .ok r else
  if r.cap = 0 then .error .divZero else
  let lenAfterTail := if r.tail < r.head then r.head - r.tail else r.cap - r.tail
  let inF1 := min data.length lenAfterTail
  let inF2 := data.length - inF1
  match (if inF1 > 0 then writeSlice r.cap r.mem r.tail (data.take inF1) else .ok r.mem) with
  | .error e => .error e
  | .ok m1 =>
    match (if inF2 > 0 then writeSlice r.cap m1 0 (data.drop inF1) else .ok m1) with
    | .error e => .error e
    | .ok m2 => .ok { r with mem := m2, tail := wrap r.tail data.length r.cap }

theorem len_lt_cap (r : RB) (h : r.Inv) (hc : r.cap > 0) : r.len < r.cap := by
  have := h.hlt hc; have := h.tlt hc
  unfold RB.len; split <;> omega

theorem writeSlice_ok {cap : Nat} {m : Mem} {off : Nat} {data : List Byte} (hb : off + data.length ≤ cap) :
    writeSlice cap m off data =
      .ok (fun j => if off ≤ j ∧ j < off + data.length then some (data.getD (j - off) 0) else m j) := by
  unfold writeSlice; simp [hb]

/-- the spec: what memory looks like through the ring after appending -/
def appended (r : RB) (data : List Byte) (m' : Mem) : Prop :=
  (∀ i, i < r.len → m' (r.phys i) = r.mem (r.phys i)) ∧
  (∀ i, i < data.length → m' (r.phys (r.len + i)) = some (data.getD i 0)) ∧
  (∀ j, j ≥ r.cap → m' j = none)


theorem getD_take {l : List Byte} {k i : Nat} (h : i < k) : (l.take k).getD i 0 = l.getD i 0 := by
  simp [List.getD_eq_getElem?_getD, List.getElem?_take, h]

theorem getD_drop {l : List Byte} {k i : Nat} : (l.drop k).getD i 0 = l.getD (k + i) 0 := by
  simp [List.getD_eq_getElem?_getD, List.getElem?_drop]

theorem extend_ok (r : RB) (data : List Byte) (h : r.Inv) (hfree : r.free ≥ data.length) :
    ∃ r', r.extendNoReserve data = .ok r' ∧ r'.cap = r.cap ∧ r'.head = r.head ∧
      r'.len = r.len + data.length ∧ appended r data r'.mem ∧ (r'.cap > 0 → r'.tail < r'.cap) := by
  unfold RB.extendNoReserve
  by_cases hd : data.length = 0
  · simp only [hd, ↓reduceIte]
    refine ⟨r, rfl, rfl, rfl, by omega, ⟨fun _ _ => rfl, fun i hi => by omega, h.conf⟩, h.tlt⟩
  · simp only [hd, ↓reduceIte]
    have hc : r.cap > 0 := by
      rcases Nat.eq_zero_or_pos r.cap with h0 | h0
      · have hz := h.zero h0
        have : r.free = 0 := by unfold RB.free; simp [hz.1, hz.2, h0]
        omega
      · exact h0
    have hh := h.hlt hc; have ht := h.tlt hc
    have hc0 : r.cap ≠ 0 := by omega
    simp only [hc0, ↓reduceIte]
    by_cases hth : r.tail < r.head
    · -- free region is contiguous [tail, head)
      have hf : r.head - r.tail - 1 ≥ data.length := by unfold RB.free at hfree; simpa [hth] using hfree
      have hmin : min data.length (r.head - r.tail) = data.length := by omega
      simp only [hth, ↓reduceIte, hmin, Nat.sub_self, List.take_length, Nat.lt_irrefl, gt_iff_lt]
      have hpos : 0 < data.length := by omega
      simp only [hpos, ↓reduceIte]
      rw [writeSlice_ok (by omega)]
      refine ⟨_, rfl, rfl, rfl, ?_, ?_, ?_⟩
      · simp only [RB.len, wrap_eq ht (by omega : data.length ≤ r.cap)]
        split <;> split <;> split <;> omega
      · refine ⟨?_, ?_, ?_⟩
        · intro i hi
          have : r.len = r.cap - r.head + r.tail := by unfold RB.len; split <;> omega
          simp only [RB.phys]
          split <;> split <;> first | rfl | (exfalso; omega)
        · intro i hi
          have hl : r.len = r.cap - r.head + r.tail := by unfold RB.len; split <;> omega
          have hp : r.phys (r.len + i) = r.tail + i := by unfold RB.phys; split <;> omega
          simp only [hp]
          have : r.tail ≤ r.tail + i ∧ r.tail + i < r.tail + data.length := by omega
          simp [this]
        · intro j hj
          have : ¬ (r.tail ≤ j ∧ j < r.tail + data.length) := by omega
          simp [this, h.conf j hj]
      · intro _; simp only [wrap_eq ht (by omega : data.length ≤ r.cap)]; split <;> omega
    · -- free region may wrap: [tail, cap) then [0, head)
      have hf : r.cap - r.tail + r.head - 1 ≥ data.length := by unfold RB.free at hfree; simpa [hth] using hfree
      have hl : r.len = r.tail - r.head := by unfold RB.len; split <;> omega
      have hpos : 0 < data.length := by omega
      simp only [hth, ↓reduceIte, gt_iff_lt]
      by_cases hfit : data.length ≤ r.cap - r.tail
      · have hmin : min data.length (r.cap - r.tail) = data.length := by omega
        simp only [hmin, Nat.sub_self, List.take_length, Nat.lt_irrefl, hpos, ↓reduceIte]
        rw [writeSlice_ok (by omega)]
        refine ⟨_, rfl, rfl, rfl, ?_, ?_, ?_⟩
        · simp only [RB.len, wrap_eq ht (by omega : data.length ≤ r.cap)]
          split <;> split <;> split <;> omega
        · refine ⟨?_, ?_, ?_⟩
          · intro i hi
            simp only [RB.phys]
            split <;> split <;> first | rfl | (exfalso; omega)
          · intro i hi
            have hp : r.phys (r.len + i) = r.tail + i := by unfold RB.phys; split <;> omega
            simp only [hp]
            have : r.tail ≤ r.tail + i ∧ r.tail + i < r.tail + data.length := by omega
            simp [this]
          · intro j hj
            have : ¬ (r.tail ≤ j ∧ j < r.tail + data.length) := by omega
            simp [this, h.conf j hj]
        · intro _; simp only [wrap_eq ht (by omega : data.length ≤ r.cap)]; split <;> omega
      · have hmin : min data.length (r.cap - r.tail) = r.cap - r.tail := by omega
        have h1 : 0 < r.cap - r.tail := by omega
        have h2 : 0 < data.length - (r.cap - r.tail) := by omega
        simp only [hmin, h1, h2, ↓reduceIte]
        have ltake : (data.take (r.cap - r.tail)).length = r.cap - r.tail := by simp; omega
        have ldrop : (data.drop (r.cap - r.tail)).length = data.length - (r.cap - r.tail) := by simp
        rw [writeSlice_ok (by omega)]
        simp only []
        rw [writeSlice_ok (by omega)]
        refine ⟨_, rfl, rfl, rfl, ?_, ?_, ?_⟩
        · simp only [RB.len, wrap_eq ht (by omega : data.length ≤ r.cap)]
          split <;> split <;> split <;> omega
        · refine ⟨?_, ?_, ?_⟩
          · intro i hi
            simp only [RB.phys, ltake, ldrop]
            split <;> split <;> (try split) <;> first | rfl | (exfalso; omega)
          · intro i hi
            simp only [ltake, ldrop]
            by_cases hi1 : r.tail + i < r.cap
            · have hp : r.phys (r.len + i) = r.tail + i := by unfold RB.phys; split <;> omega
              simp only [hp]
              have n1 : ¬ (0 ≤ r.tail + i ∧ r.tail + i < 0 + (data.length - (r.cap - r.tail))) := by omega
              have y1 : r.tail ≤ r.tail + i ∧ r.tail + i < r.tail + (r.cap - r.tail) := by omega
              simp only [n1, y1, and_self, ↓reduceIte]
              rw [getD_take (by omega)]; congr 2; omega
            · have hp : r.phys (r.len + i) = r.tail + i - r.cap := by unfold RB.phys; split <;> omega
              simp only [hp]
              have y1 : 0 ≤ r.tail + i - r.cap ∧ r.tail + i - r.cap < 0 + (data.length - (r.cap - r.tail)) := by omega
              simp only [y1, and_self, ↓reduceIte]
              rw [getD_drop]; congr 2; omega
          · intro j hj
            simp only [ltake, ldrop]
            have n1 : ¬ (0 ≤ j ∧ j < 0 + (data.length - (r.cap - r.tail))) := by omega
            have n2 : ¬ (r.tail ≤ j ∧ j < r.tail + (r.cap - r.tail)) := by omega
            simp [n2, h.conf j hj]; omega
        · intro _; simp only [wrap_eq ht (by omega : data.length ≤ r.cap)]; split <;> omega
end RBM
#print axioms RBM.extend_ok
