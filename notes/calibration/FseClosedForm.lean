/- CALIBRATION ARTEFACT from the design round (2026-09-25). Not part of the framework, not built by any check.
   `cbn` transcribes `calc_baseline_and_numbits` (ruzstd/src/fse/fse_decoder.rs:340-366); `rfc` is the
   educational decoder's formulation of the RFC 8878 procedure (next = p + k).  `decide +kernel` proves them
   equal on the whole format-limited domain: AL 5-8 in 30 s together, AL 9 in 1 min 40 s (Lean 4.33.0). -/
namespace Fse
def hbs (x : Nat) : Nat := Nat.log2 x + 1
def cbn (T p k : Nat) : Nat × Nat :=
  if p = 0 then (0,0) else
  let slices := if 1 <<< (hbs p - 1) = p then p else 1 <<< hbs p
  let dbl := slices - p
  let sgl := p - dbl
  let w := T / slices
  let nb := hbs w - 1
  if k < dbl then (sgl * w + k * w * 2, nb + 1) else ((k - dbl) * w, nb)
def rfc (AL p k : Nat) : Nat × Nat :=
  let nb := AL - Nat.log2 (p + k)
  (((p + k) <<< nb) - 2^AL, nb)
def checkRow (AL p : Nat) : Bool := (List.range p).all fun k => cbn (2^AL) p k == rfc AL p k
def checkAL (AL : Nat) : Bool := (List.range (2^AL)).all fun p' => checkRow AL (p'+1)
theorem t5 : checkAL 5 = true := by decide +kernel
theorem t6 : checkAL 6 = true := by decide +kernel
theorem t7 : checkAL 7 = true := by decide +kernel
theorem t8 : checkAL 8 = true := by decide +kernel
theorem t9 : checkAL 9 = true := by decide +kernel  -- 1 min 40 s
end Fse
