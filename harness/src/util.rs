//! Shared helpers: seeded RNG, hex, panic capture, evidence/meta writer.
use std::fmt::Write as _;
use std::io::Write as _;
use std::panic::{catch_unwind, AssertUnwindSafe};

#[derive(Clone)]
pub struct Rng(pub u64);
impl Rng {
    pub fn new(seed: u64) -> Self {
        Rng(seed ^ 0x9E37_79B9_7F4A_7C15)
    }
    pub fn next(&mut self) -> u64 {
        self.0 = self.0.wrapping_add(0x9E37_79B9_7F4A_7C15);
        let mut z = self.0;
        z = (z ^ (z >> 30)).wrapping_mul(0xBF58_476D_1CE4_E5B9);
        z = (z ^ (z >> 27)).wrapping_mul(0x94D0_49BB_1331_11EB);
        z ^ (z >> 31)
    }
    /// uniform in 0..n (n > 0)
    pub fn below(&mut self, n: u64) -> u64 {
        self.next() % n
    }
    pub fn range(&mut self, lo: u64, hi_incl: u64) -> u64 {
        lo + self.below(hi_incl - lo + 1)
    }
    pub fn pick<'a, T>(&mut self, xs: &'a [T]) -> &'a T {
        &xs[self.below(xs.len() as u64) as usize]
    }
    pub fn chance(&mut self, num: u64, den: u64) -> bool {
        self.below(den) < num
    }
    pub fn bytes(&mut self, n: usize) -> Vec<u8> {
        (0..n).map(|_| self.next() as u8).collect()
    }
}

pub fn hex(b: &[u8]) -> String {
    if b.is_empty() {
        return "-".to_string();
    }
    let mut s = String::with_capacity(b.len() * 2);
    for x in b {
        let _ = write!(s, "{:02x}", x);
    }
    s
}

pub fn unhex(s: &str) -> Option<Vec<u8>> {
    if s == "-" {
        return Some(vec![]);
    }
    if s.len() % 2 != 0 {
        return None;
    }
    (0..s.len() / 2).map(|i| u8::from_str_radix(&s[2 * i..2 * i + 2], 16).ok()).collect()
}

/// Independent XXH64 (seed 0) used for digests of long outputs and as checksum oracle.
pub fn xxh64(data: &[u8], seed: u64) -> u64 {
    const P1: u64 = 0x9E3779B185EBCA87;
    const P2: u64 = 0xC2B2AE3D27D4EB4F;
    const P3: u64 = 0x165667B19E3779F9;
    const P4: u64 = 0x85EBCA77C2B2AE63;
    const P5: u64 = 0x27D4EB2F165667C5;
    fn round(acc: u64, input: u64) -> u64 {
        acc.wrapping_add(input.wrapping_mul(P2)).rotate_left(31).wrapping_mul(P1)
    }
    fn merge(acc: u64, val: u64) -> u64 {
        (acc ^ round(0, val)).wrapping_mul(P1).wrapping_add(P4)
    }
    let rd64 = |p: &[u8]| u64::from_le_bytes([p[0], p[1], p[2], p[3], p[4], p[5], p[6], p[7]]);
    let rd32 = |p: &[u8]| u32::from_le_bytes([p[0], p[1], p[2], p[3]]) as u64;
    let len = data.len();
    let mut p = data;
    let mut h: u64;
    if len >= 32 {
        let mut v1 = seed.wrapping_add(P1).wrapping_add(P2);
        let mut v2 = seed.wrapping_add(P2);
        let mut v3 = seed;
        let mut v4 = seed.wrapping_sub(P1);
        while p.len() >= 32 {
            v1 = round(v1, rd64(&p[0..]));
            v2 = round(v2, rd64(&p[8..]));
            v3 = round(v3, rd64(&p[16..]));
            v4 = round(v4, rd64(&p[24..]));
            p = &p[32..];
        }
        h = v1.rotate_left(1).wrapping_add(v2.rotate_left(7)).wrapping_add(v3.rotate_left(12)).wrapping_add(v4.rotate_left(18));
        h = merge(h, v1);
        h = merge(h, v2);
        h = merge(h, v3);
        h = merge(h, v4);
    } else {
        h = seed.wrapping_add(P5);
    }
    h = h.wrapping_add(len as u64);
    while p.len() >= 8 {
        h ^= round(0, rd64(p));
        h = h.rotate_left(27).wrapping_mul(P1).wrapping_add(P4);
        p = &p[8..];
    }
    if p.len() >= 4 {
        h ^= rd32(p).wrapping_mul(P1);
        h = h.rotate_left(23).wrapping_mul(P2).wrapping_add(P3);
        p = &p[4..];
    }
    for &b in p {
        h ^= (b as u64).wrapping_mul(P5);
        h = h.rotate_left(11).wrapping_mul(P1);
    }
    h ^= h >> 33;
    h = h.wrapping_mul(P2);
    h ^= h >> 29;
    h = h.wrapping_mul(P3);
    h ^= h >> 32;
    h
}

/// digest for long byte strings: `len:xxh64`
pub fn digest(b: &[u8]) -> String {
    format!("{}:{:016x}", b.len(), xxh64(b, 0))
}

/// Run `f`, mapping a panic to `Err(location/message)`.
pub fn guarded<T>(f: impl FnOnce() -> T) -> Result<T, String> {
    match catch_unwind(AssertUnwindSafe(f)) {
        Ok(v) => Ok(v),
        Err(e) => {
            let msg = if let Some(s) = e.downcast_ref::<&str>() {
                s.to_string()
            } else if let Some(s) = e.downcast_ref::<String>() {
                s.clone()
            } else {
                "panic".to_string()
            };
            let loc = LAST_PANIC_LOC.with(|l| l.borrow().clone());
            Err(format!("{} @ {}", msg.replace('\n', " "), loc))
        }
    }
}

thread_local! {
    pub static LAST_PANIC_LOC: std::cell::RefCell<String> = const { std::cell::RefCell::new(String::new()) };
}

pub fn install_panic_hook() {
    std::panic::set_hook(Box::new(|info| {
        let loc = info.location().map(|l| format!("{}:{}", l.file(), l.line())).unwrap_or_default();
        LAST_PANIC_LOC.with(|l| *l.borrow_mut() = loc);
    }));
}

pub fn json_str(s: &str) -> String {
    let mut o = String::from("\"");
    for c in s.chars() {
        match c {
            '"' => o.push_str("\\\""),
            '\\' => o.push_str("\\\\"),
            '\n' => o.push_str("\\n"),
            '\r' => o.push_str("\\r"),
            '\t' => o.push_str("\\t"),
            c if (c as u32) < 0x20 => {
                let _ = write!(o, "\\u{:04x}", c as u32);
            }
            c => o.push(c),
        }
    }
    o.push('"');
    o
}

/// One oracle failure: the implementation (not the model) violates what the property says.
pub struct OracleFailure {
    pub property: String,
    pub what: String,
    /// self-contained replay text (engine-specific lines)
    pub replay: String,
    /// signature used to match known findings
    pub signature: String,
}

/// Output of an engine run: the cases for the model, the implementation's answers, statistics.
/// A failure that only counts if the model (the strict RFC Spec) disagrees with the expected answer
/// recorded for request line `line` (0-based): used where libzstd is too lenient to be the referee.
pub struct CondFailure {
    pub line: usize,
    pub failure: OracleFailure,
}

pub struct Run {
    pub cond_failures: Vec<CondFailure>,
    pub engine: &'static str,
    pub cases: Vec<String>,
    pub impl_out: Vec<String>,
    pub oracle_failures: Vec<OracleFailure>,
    pub oracle_checks: u64,
    pub stats: Vec<(String, u64)>,
    pub samples: Vec<String>,
    pub notes: Vec<String>,
}

impl Run {
    pub fn new(engine: &'static str) -> Self {
        Run { cond_failures: vec![], engine, cases: vec![], impl_out: vec![], oracle_failures: vec![], oracle_checks: 0, stats: vec![], samples: vec![], notes: vec![] }
    }
    pub fn case(&mut self, line: String, out: String) {
        debug_assert!(!line.contains('\n') && !out.contains('\n'));
        watchdog::beat(Some(&line));
        self.cases.push(line);
        self.impl_out.push(out);
    }
    pub fn stat(&mut self, key: &str, n: u64) {
        watchdog::beat(None);
        if let Some(e) = self.stats.iter_mut().find(|(k, _)| k == key) {
            e.1 += n;
        } else {
            self.stats.push((key.to_string(), n));
        }
    }
    pub fn fail(&mut self, property: &str, signature: &str, what: String, replay: String) {
        watchdog::beat(None);
        if self.oracle_failures.len() < 200 {
            self.oracle_failures.push(OracleFailure { property: property.to_string(), what, replay, signature: signature.to_string() });
        }
    }
    /// record a failure conditional on the model's answer to the LAST pushed case differing from the expected one
    pub fn cond_fail(&mut self, property: &str, signature: &str, what: String, replay: String) {
        if self.cond_failures.len() < 200 && !self.cases.is_empty() {
            let line = self.cases.len() - 1;
            self.cond_failures.push(CondFailure { line, failure: OracleFailure { property: property.to_string(), what, replay, signature: signature.to_string() } });
        }
    }
    pub fn write(&self, dir: &str) -> std::io::Result<()> {
        std::fs::create_dir_all(dir)?;
        let mut f = std::io::BufWriter::new(std::fs::File::create(format!("{}/{}.cases", dir, self.engine))?);
        for c in &self.cases {
            writeln!(f, "{}", c)?;
        }
        f.flush()?;
        let mut f = std::io::BufWriter::new(std::fs::File::create(format!("{}/{}.impl", dir, self.engine))?);
        for c in &self.impl_out {
            writeln!(f, "{}", c)?;
        }
        f.flush()?;
        let mut j = String::new();
        j.push_str("{\n");
        let _ = writeln!(j, "  \"engine\": {},", json_str(self.engine));
        let _ = writeln!(j, "  \"cases\": {},", self.cases.len());
        let _ = writeln!(j, "  \"oracle_checks\": {},", self.oracle_checks);
        j.push_str("  \"stats\": {");
        for (i, (k, v)) in self.stats.iter().enumerate() {
            let _ = write!(j, "{}{}: {}", if i > 0 { ", " } else { "" }, json_str(k), v);
        }
        j.push_str("},\n  \"samples\": [");
        for (i, s) in self.samples.iter().enumerate() {
            let _ = write!(j, "{}{}", if i > 0 { ", " } else { "" }, json_str(s));
        }
        j.push_str("],\n  \"notes\": [");
        for (i, s) in self.notes.iter().enumerate() {
            let _ = write!(j, "{}{}", if i > 0 { ", " } else { "" }, json_str(s));
        }
        j.push_str("],\n  \"oracle_failures\": [");
        for (i, o) in self.oracle_failures.iter().enumerate() {
            let _ = write!(
                j,
                "{}\n    {{\"property\": {}, \"signature\": {}, \"what\": {}, \"replay\": {}}}",
                if i > 0 { "," } else { "" },
                json_str(&o.property),
                json_str(&o.signature),
                json_str(&o.what),
                json_str(&o.replay)
            );
        }
        j.push_str("],\n  \"conditional_failures\": [");
        for (i, c) in self.cond_failures.iter().enumerate() {
            let o = &c.failure;
            let _ = write!(
                j,
                "{}\n    {{\"line\": {}, \"property\": {}, \"signature\": {}, \"what\": {}, \"replay\": {}}}",
                if i > 0 { "," } else { "" },
                c.line,
                json_str(&o.property),
                json_str(&o.signature),
                json_str(&o.what),
                json_str(&o.replay)
            );
        }
        j.push_str("]\n}\n");
        std::fs::write(format!("{}/{}.meta.json", dir, self.engine), j)
    }
}

/// Process-wide watchdog: engines call the real code in-thread, so a non-terminating implementation
/// (a loop whose exit condition a change has broken) would hang the whole check.  Every `Run::case`
/// bumps a heartbeat and remembers the request line; if nothing moves for `WATCHDOG_SECS`, the
/// watchdog thread writes `<out>/<engine>.hang` (the recent request lines = the replay) and exits 4.
pub mod watchdog {
    use std::sync::atomic::{AtomicU64, Ordering};
    use std::sync::Mutex;
    pub static BEAT: AtomicU64 = AtomicU64::new(0);
    pub static RECENT: Mutex<Vec<String>> = Mutex::new(Vec::new());
    pub const WATCHDOG_SECS: u64 = 45;
    pub fn beat(line: Option<&str>) {
        BEAT.fetch_add(1, Ordering::Relaxed);
        if let Some(l) = line {
            if let Ok(mut r) = RECENT.lock() {
                if l.ends_with(" new") || l.contains(" new ") {
                    r.clear(); // a fresh scenario starts: earlier lines are not part of the replay
                }
                if r.len() >= 400 {
                    r.remove(0);
                }
                let mut l = l.to_string();
                if l.len() > 2_000_000 {
                    l.truncate(2_000_000);
                }
                r.push(l);
            }
        }
    }
    pub fn start(out_dir: String, engine: String) {
        std::thread::spawn(move || {
            let mut last = BEAT.load(Ordering::Relaxed);
            let mut idle = 0u64;
            loop {
                std::thread::sleep(std::time::Duration::from_secs(3));
                let now = BEAT.load(Ordering::Relaxed);
                if now != last {
                    last = now;
                    idle = 0;
                } else {
                    idle += 3;
                }
                if idle >= WATCHDOG_SECS {
                    let lines = RECENT.lock().map(|r| r.join("\n")).unwrap_or_default();
                    let _ = std::fs::create_dir_all(&out_dir);
                    let _ = std::fs::write(format!("{}/{}.hang", out_dir, engine), lines);
                    eprintln!("WATCHDOG: engine {} made no progress for {} s", engine, WATCHDOG_SECS);
                    std::process::exit(4);
                }
            }
        });
    }
}

pub struct Opts {
    pub seed: u64,
    pub thorough: bool,
    pub out: String,
    pub replay: Option<String>,
    pub focus: Option<String>,
}
