//! An independent (of ruzstd) serializer for synthetic Zstandard frames that use format features no
//! compressor emits on demand, and for structure-aware hostile frames.  Compressed blocks are
//! written with all three sequence tables in RLE mode (one code per table for the whole block, so
//! the bitstream consists of the extra bits only) and raw/RLE literals; this already reaches every
//! sequence-count encoding, every literal/match-length code with its extra bits, offset codes,
//! repeat offsets in both literal-length cases, overlapping matches, matches at exactly the window
//! distance and arbitrary header layouts.  A small reference executor computes the expected content.
use crate::util::{xxh64, Rng};

#[derive(Clone, Debug)]
pub enum Lit {
    Raw(Vec<u8>),
    Rle(u8, usize),
}
impl Lit {
    pub fn bytes(&self) -> Vec<u8> {
        match self {
            Lit::Raw(v) => v.clone(),
            Lit::Rle(b, n) => vec![*b; *n],
        }
    }
}

pub const LL_BASE: [(u32, u8); 36] = [
    (0, 0), (1, 0), (2, 0), (3, 0), (4, 0), (5, 0), (6, 0), (7, 0), (8, 0), (9, 0), (10, 0), (11, 0), (12, 0), (13, 0), (14, 0), (15, 0),
    (16, 1), (18, 1), (20, 1), (22, 1), (24, 2), (28, 2), (32, 3), (40, 3), (48, 4), (64, 6), (128, 7), (256, 8), (512, 9), (1024, 10),
    (2048, 11), (4096, 12), (8192, 13), (16384, 14), (32768, 15), (65536, 16),
];
pub const ML_BASE: [(u32, u8); 53] = [
    (3, 0), (4, 0), (5, 0), (6, 0), (7, 0), (8, 0), (9, 0), (10, 0), (11, 0), (12, 0), (13, 0), (14, 0), (15, 0), (16, 0), (17, 0), (18, 0),
    (19, 0), (20, 0), (21, 0), (22, 0), (23, 0), (24, 0), (25, 0), (26, 0), (27, 0), (28, 0), (29, 0), (30, 0), (31, 0), (32, 0), (33, 0), (34, 0),
    (35, 1), (37, 1), (39, 1), (41, 1), (43, 2), (47, 2), (51, 3), (59, 3), (67, 4), (83, 4), (99, 5), (131, 7), (259, 8), (515, 9),
    (1027, 10), (2051, 11), (4099, 12), (8195, 13), (16387, 14), (32771, 15), (65539, 16),
];

#[derive(Clone, Debug)]
pub struct SeqBlock {
    pub lits: Lit,
    pub ll_code: u8,
    pub ml_code: u8,
    pub of_code: u8,
    /// per sequence: extra-bit values (ll, ml, of), each masked to its width when written
    pub seqs: Vec<(u32, u32, u32)>,
    /// force a particular sequence-count encoding (1, 2 or 3 bytes) when it can represent the count
    pub count_bytes: Option<u8>,
    /// override of the compression-modes byte (default 0b01_01_01_00 = all RLE)
    pub modes: Option<u8>,
    /// valid Repeat_Mode use: for each of (LL, OF, ML) `true` = this block says Repeat and sends no table byte;
    /// the generator guarantees the code is the one the previous block established
    pub repeat: [bool; 3],
    /// extra garbage appended to the bitstream / section (malformed)
    pub trailer: Vec<u8>,
}

#[derive(Clone, Debug)]
pub enum Block {
    Raw(Vec<u8>),
    Rle(u8, usize),
    Comp(SeqBlock),
    /// arbitrary header fields and body (malformed)
    Bytes { btype: u8, size: u32, body: Vec<u8> },
}

#[derive(Clone, Debug)]
pub struct Frame {
    /// `Some(desc)` = window descriptor byte; `None` = single-segment
    pub window_desc: Option<u8>,
    /// frame-content-size flag (0..=3); with single segment flag 0 means a 1-byte field
    pub fcs_flag: u8,
    pub write_fcs: bool,
    pub checksum: bool,
    pub dict_id: Option<(u8, u32)>,
    pub reserved_bit: bool,
    pub blocks: Vec<Block>,
    /// declare this content size instead of the true one
    pub fcs_override: Option<u64>,
    /// omit the last-block flag everywhere / set it early (malformed)
    pub last_at: Option<usize>,
}

impl Frame {
    pub fn simple(blocks: Vec<Block>, window_desc: u8, checksum: bool) -> Frame {
        Frame { window_desc: Some(window_desc), fcs_flag: 0, write_fcs: false, checksum, dict_id: None, reserved_bit: false, blocks, fcs_override: None, last_at: None }
    }
}

pub fn window_of(desc: u8) -> u64 {
    let base = 1u64 << (10 + (desc >> 3) as u32);
    base + (base / 8) * (desc & 7) as u64
}

/// bits of the backward stream given the fields in READ order (value, width)
pub fn backward_stream(fields: &[(u64, u8)]) -> Vec<u8> {
    let mut bits: Vec<bool> = Vec::new();
    for &(v, n) in fields {
        for i in (0..n).rev() {
            bits.push((v >> i) & 1 == 1);
        }
    }
    let total = bits.len() + 1;
    let pad = (8 - total % 8) % 8;
    let mut all = vec![false; pad];
    all.push(true);
    all.extend_from_slice(&bits);
    let len = all.len();
    let mut out = vec![0u8; len / 8];
    for j in 0..len / 8 {
        for i in 0..8 {
            if all[len - 1 - (8 * j + i)] {
                out[j] |= 1 << i;
            }
        }
    }
    out
}

pub fn lit_section(l: &Lit, size_format: Option<u8>) -> Vec<u8> {
    let (t, n, payload): (u8, usize, Vec<u8>) = match l {
        Lit::Raw(v) => (0, v.len(), v.clone()),
        Lit::Rle(b, n) => (1, *n, vec![*b]),
    };
    let sf = size_format.unwrap_or(if n < 32 { 0 } else if n < 4096 { 1 } else { 3 });
    let mut out = Vec::new();
    match sf {
        0 | 2 => out.push(t | (sf << 2) | ((n as u8 & 31) << 3)),
        1 => {
            let v = (t as u32) | (1 << 2) | ((n as u32 & 0xfff) << 4);
            out.extend_from_slice(&v.to_le_bytes()[..2]);
        }
        _ => {
            let v = (t as u32) | (3 << 2) | ((n as u32 & 0xfffff) << 4);
            out.extend_from_slice(&v.to_le_bytes()[..3]);
        }
    }
    out.extend_from_slice(&payload);
    out
}

pub fn seq_count(n: usize, force: Option<u8>) -> Vec<u8> {
    let form = match force {
        Some(1) if n < 128 => 1,
        Some(2) if n < 0x7F00 => 2,
        Some(3) if n >= 0x7F00 || true => {
            if n >= 0x7F00 {
                3
            } else if n < 128 {
                1
            } else {
                2
            }
        }
        _ => {
            if n < 128 {
                1
            } else if n < 0x7F00 {
                2
            } else {
                3
            }
        }
    };
    match form {
        1 => vec![n as u8],
        2 => vec![((n >> 8) as u8) + 128, n as u8],
        _ => {
            let v = n - 0x7F00;
            vec![255, v as u8, (v >> 8) as u8]
        }
    }
}

pub fn comp_block_body(b: &SeqBlock) -> Vec<u8> {
    let mut out = lit_section(&b.lits, None);
    if b.seqs.is_empty() {
        out.push(0);
        out.extend_from_slice(&b.trailer);
        return out;
    }
    out.extend_from_slice(&seq_count(b.seqs.len(), b.count_bytes));
    let m = |r: bool, shift: u8| (if r { 3u8 } else { 1u8 }) << shift;
    out.push(b.modes.unwrap_or(m(b.repeat[0], 6) | m(b.repeat[1], 4) | m(b.repeat[2], 2)));
    // RLE tables in the order LL, OF, ML (nothing is sent for a repeated table)
    if !b.repeat[0] || b.modes.is_some() {
        out.push(b.ll_code);
    }
    if !b.repeat[1] || b.modes.is_some() {
        out.push(b.of_code);
    }
    if !b.repeat[2] || b.modes.is_some() {
        out.push(b.ml_code);
    }
    let llb = LL_BASE.get(b.ll_code as usize).map(|x| x.1).unwrap_or(0);
    let mlb = ML_BASE.get(b.ml_code as usize).map(|x| x.1).unwrap_or(0);
    let ofb = b.of_code.min(56);
    let mask = |v: u32, n: u8| if n >= 32 { v as u64 } else { (v as u64) & ((1u64 << n) - 1) };
    let mut fields = Vec::with_capacity(b.seqs.len() * 3);
    for &(ll, ml, of) in &b.seqs {
        fields.push((mask(of, ofb), ofb));
        fields.push((mask(ml, mlb), mlb));
        fields.push((mask(ll, llb), llb));
    }
    out.extend_from_slice(&backward_stream(&fields));
    out.extend_from_slice(&b.trailer);
    out
}

fn block_header(last: bool, btype: u8, size: u32) -> [u8; 3] {
    let v = (last as u32) | ((btype as u32) << 1) | (size << 3);
    let b = v.to_le_bytes();
    [b[0], b[1], b[2]]
}

/// reference execution of the blocks the serializer can write (RFC semantics); `None` = invalid
pub fn execute(f: &Frame, dict: &[u8]) -> Option<Vec<u8>> {
    let window = match f.window_desc {
        Some(d) => window_of(d),
        None => u64::MAX,
    };
    let mut out: Vec<u8> = Vec::new();
    let mut hist = [1u32, 4, 8];
    for b in &f.blocks {
        let before = out.len();
        match b {
            Block::Raw(v) => out.extend_from_slice(v),
            Block::Rle(x, n) => out.extend(std::iter::repeat(*x).take(*n)),
            Block::Bytes { .. } => return None,
            Block::Comp(s) => {
                if s.modes.is_some() || !s.trailer.is_empty() {
                    return None;
                }
                let lits = s.lits.bytes();
                let mut lp = 0usize;
                let (llbase, llbits) = *LL_BASE.get(s.ll_code as usize)?;
                let (mlbase, mlbits) = *ML_BASE.get(s.ml_code as usize)?;
                if s.of_code > 31 {
                    return None;
                }
                for &(lle, mle, ofe) in &s.seqs {
                    let ll = llbase + (lle & ((1u64 << llbits) - 1) as u32);
                    let ml = mlbase + (mle & ((1u64 << mlbits) - 1) as u32);
                    let ov = (1u64 << s.of_code) + (ofe as u64 & ((1u64 << s.of_code) - 1));
                    if lp + ll as usize > lits.len() {
                        return None;
                    }
                    out.extend_from_slice(&lits[lp..lp + ll as usize]);
                    lp += ll as usize;
                    let ov = ov as u32;
                    let offset;
                    if ov > 3 {
                        offset = ov - 3;
                        hist = [offset, hist[0], hist[1]];
                    } else if ll > 0 {
                        match ov {
                            1 => offset = hist[0],
                            2 => {
                                offset = hist[1];
                                hist = [hist[1], hist[0], hist[2]];
                            }
                            _ => {
                                offset = hist[2];
                                hist = [hist[2], hist[0], hist[1]];
                            }
                        }
                    } else {
                        match ov {
                            1 => {
                                offset = hist[1];
                                hist = [hist[1], hist[0], hist[2]];
                            }
                            2 => {
                                offset = hist[2];
                                hist = [hist[2], hist[0], hist[1]];
                            }
                            _ => {
                                offset = hist[0].wrapping_sub(1);
                                hist = [offset, hist[0], hist[1]];
                            }
                        }
                    }
                    if offset == 0 {
                        return None;
                    }
                    let total = out.len() + dict.len();
                    if offset as usize > total || (offset as u64 > window && offset as usize <= out.len()) {
                        return None;
                    }
                    if offset as usize > out.len() && out.len() as u64 > window {
                        return None;
                    }
                    if (out.len() - before) as u64 + ml as u64 > (128 * 1024).min(window) {
                        return None;
                    }
                    for _ in 0..ml {
                        let b = if offset as usize <= out.len() { out[out.len() - offset as usize] } else { dict[dict.len() - (offset as usize - out.len())] };
                        out.push(b);
                    }
                }
                out.extend_from_slice(&lits[lp..]);
            }
        }
        let grown = out.len() - before;
        if grown as u64 > (128 * 1024).min(window) {
            return None;
        }
    }
    Some(out)
}

/// Serialize; returns (frame bytes, expected content when the frame is valid by construction).
pub fn serialize(f: &Frame, dict: &[u8]) -> (Vec<u8>, Option<Vec<u8>>) {
    let expected = if f.blocks.is_empty() || f.last_at.is_some() || f.reserved_bit || f.fcs_override.is_some() { None } else { execute(f, dict) };
    let content_len = expected.as_ref().map(|e| e.len() as u64).unwrap_or(0);
    let mut out = vec![0x28, 0xB5, 0x2F, 0xFD];
    let single = f.window_desc.is_none();
    let did_flag = f.dict_id.map(|d| d.0).unwrap_or(0) & 3;
    let fcs_flag = if f.write_fcs || single { f.fcs_flag & 3 } else { 0 };
    let desc = did_flag | ((f.checksum as u8) << 2) | ((f.reserved_bit as u8) << 3) | ((single as u8) << 5) | (fcs_flag << 6);
    out.push(desc);
    if let Some(w) = f.window_desc {
        out.push(w);
    }
    if let Some((flag, id)) = f.dict_id {
        let n = [0usize, 1, 2, 4][(flag & 3) as usize];
        out.extend_from_slice(&id.to_le_bytes()[..n]);
    }
    let fcs_len = match fcs_flag {
        0 => single as usize,
        1 => 2,
        2 => 4,
        _ => 8,
    };
    if fcs_len > 0 {
        let mut v = f.fcs_override.unwrap_or(content_len);
        if fcs_len == 2 {
            v = v.wrapping_sub(256);
        }
        out.extend_from_slice(&v.to_le_bytes()[..fcs_len]);
    }
    let n = f.blocks.len();
    for (i, b) in f.blocks.iter().enumerate() {
        let last = match f.last_at {
            Some(k) => i == k,
            None => i + 1 == n,
        };
        match b {
            Block::Raw(v) => {
                out.extend_from_slice(&block_header(last, 0, v.len() as u32));
                out.extend_from_slice(v);
            }
            Block::Rle(x, k) => {
                out.extend_from_slice(&block_header(last, 1, *k as u32));
                out.push(*x);
            }
            Block::Comp(s) => {
                let body = comp_block_body(s);
                out.extend_from_slice(&block_header(last, 2, body.len() as u32));
                out.extend_from_slice(&body);
            }
            Block::Bytes { btype, size, body } => {
                out.extend_from_slice(&block_header(last, *btype, *size));
                out.extend_from_slice(body);
            }
        }
    }
    if f.checksum {
        let c = expected.as_ref().map(|e| xxh64(e, 0) as u32).unwrap_or(0xDEADBEEF);
        out.extend_from_slice(&c.to_le_bytes());
    }
    // a frame whose declared content-size field cannot represent the content is not valid
    let valid = expected.is_some()
        && (fcs_len == 0
            || match fcs_len {
                1 => content_len < 256,
                2 => (256..65536 + 256).contains(&content_len),
                4 => content_len < (1 << 32),
                _ => true,
            })
        && (!single || f.window_desc.is_none());
    (out, if valid { expected } else { None })
}

// ------------------------------------------------------------------------------------------------
// generators

/// A valid synthetic frame exercising rare features chosen on purpose.
pub fn valid_frame(rng: &mut Rng) -> (Frame, String) {
    // (flavour 11 regenerates 64-128 MiB: keep it rare)
    let flavour = if rng.chance(1, 50) { 11 } else { rng.below(11) };
    let mut blocks = Vec::new();
    let mut label;
    let wdesc = *rng.pick(&[0u8, 1, 7, 8, 0x10, 0x28, 0x39]);
    let window = window_of(wdesc) as usize;
    let seed_raw = { let n_ = rng.range(8, 300) as usize; rng.bytes(n_) };
    match flavour {
        0 => {
            // sequence-count encodings: counts around 127/128, 0x7EFF/0x7F00, large
            let n = *rng.pick(&[1usize, 2, 126, 127, 128, 129, 255, 256, 0x7EFE, 0x7EFF, 0x7F00, 0x7F01, 0x8000, 40000, 43000]);
            blocks.push(Block::Raw(seed_raw.clone()));
            // ll code 0 (0 literals), ml code 0 (3 bytes), offset code 2 + extra => offset value 4..7 => offset 1..4
            let seqs: Vec<(u32, u32, u32)> = (0..n).map(|_| (0, 0, rng.below(4) as u32)).collect();
            let forms = if n < 128 { vec![None, Some(2u8)] } else { vec![None] };
            blocks.push(Block::Comp(SeqBlock { lits: Lit::Raw(vec![]), ll_code: 0, ml_code: 0, of_code: 2, seqs, count_bytes: *rng.pick(&forms), modes: None, repeat: [false; 3], trailer: vec![] }));
            label = format!("seqcount n={}", n);
        }
        1 => {
            // repeat offsets: a walk through the history with every kind of step (new small offsets that
            // collide with existing entries, rep1/rep2/rep3 with literals, rep2/rep3/rep1-1 without), simulated
            // here so that only legal steps are emitted.  One RLE-mode block per (ll_code, of_code) run.
            blocks.push(Block::Raw(seed_raw.clone()));
            let mut hist = [1u32, 4, 8];
            let mut produced = seed_raw.len();
            let nblocks = rng.range(3, 25) as usize;
            for _ in 0..nblocks {
                let ll_code = if rng.chance(1, 2) { 0u8 } else { rng.range(1, 3) as u8 };
                let of_code = *rng.pick(&[0u8, 1, 1, 2, 2, 3]);
                let n = rng.range(1, 6) as usize;
                let mut seqs = Vec::new();
                for _ in 0..n {
                    // choose an extra value whose step is legal in the current state
                    let mut chosen = None;
                    for _try in 0..6 {
                        let e = rng.below(1u64 << of_code) as u32;
                        let ov = (1u32 << of_code) + e;
                        let (off, nh) = if ov > 3 {
                            (ov - 3, [ov - 3, hist[0], hist[1]])
                        } else if ll_code > 0 {
                            match ov {
                                1 => (hist[0], hist),
                                2 => (hist[1], [hist[1], hist[0], hist[2]]),
                                _ => (hist[2], [hist[2], hist[0], hist[1]]),
                            }
                        } else {
                            match ov {
                                1 => (hist[1], [hist[1], hist[0], hist[2]]),
                                2 => (hist[2], [hist[2], hist[0], hist[1]]),
                                _ => (hist[0].wrapping_sub(1), [hist[0].wrapping_sub(1), hist[0], hist[1]]),
                            }
                        };
                        if off >= 1 && (off as usize) <= produced + ll_code as usize {
                            chosen = Some((e, nh));
                            break;
                        }
                    }
                    match chosen {
                        Some((e, nh)) => {
                            hist = nh;
                            seqs.push((0, 0, e));
                            produced += ll_code as usize + 3;
                        }
                        None => break,
                    }
                }
                if seqs.is_empty() {
                    continue;
                }
                let lits = { let n_ = seqs.len() * ll_code as usize; rng.bytes(n_) };
                blocks.push(Block::Comp(SeqBlock { lits: Lit::Raw(lits), ll_code, ml_code: 0, of_code, seqs, count_bytes: None, modes: None, repeat: [false; 3], trailer: vec![] }));
            }
            label = format!("repeat-offset walk over {} blocks, final history {:?}", blocks.len() - 1, hist);
        }
        2 => {
            // long matches / long literal runs: codes with many extra bits
            blocks.push(Block::Raw(seed_raw.clone()));
            let ml_code = rng.range(32, 50) as u8;
            let ll_code = rng.range(16, 30) as u8;
            let n = rng.range(1, 3) as usize;
            let mut seqs = Vec::new();
            let mut need = 0usize;
            let mut total = 0usize;
            for _ in 0..n {
                let lle = rng.next() as u32;
                let mle = rng.next() as u32;
                let ll = LL_BASE[ll_code as usize].0 + (lle & ((1u32 << LL_BASE[ll_code as usize].1) - 1));
                let ml = ML_BASE[ml_code as usize].0 + (mle & ((1u32 << ML_BASE[ml_code as usize].1) - 1));
                if total + (ll + ml) as usize > 120000 {
                    break;
                }
                total += (ll + ml) as usize;
                need += ll as usize;
                seqs.push((lle, mle, rng.below(4) as u32));
            }
            if seqs.is_empty() {
                seqs.push((0, 0, 0));
                need = LL_BASE[ll_code as usize].0 as usize;
            }
            let lits = if rng.chance(1, 2) { Lit::Raw(rng.bytes(need + 3)) } else { Lit::Rle(rng.next() as u8, need + 3) };
            blocks.push(Block::Comp(SeqBlock { lits, ll_code, ml_code, of_code: 2, seqs, count_bytes: None, modes: None, repeat: [false; 3], trailer: vec![] }));
            label = format!("long lengths ll_code={} ml_code={}", ll_code, ml_code);
        }
        3 => {
            // match at exactly the window distance across several blocks
            let first = rng.bytes(window.min(4096));
            let mut produced = first.len();
            blocks.push(Block::Raw(first));
            while produced < window {
                let n = (window - produced).min(100000);
                blocks.push(Block::Rle(rng.next() as u8, n));
                produced += n;
            }
            // offset = window exactly: offset value = window + 3
            let ov = window as u64 + 3;
            let code = 63 - ov.leading_zeros() as u8;
            let extra = (ov - (1u64 << code)) as u32;
            blocks.push(Block::Comp(SeqBlock { lits: Lit::Raw(vec![9, 9]), ll_code: 2, ml_code: rng.range(0, 31) as u8, of_code: code, seqs: vec![(0, 0, extra)], count_bytes: None, modes: None, repeat: [false; 3], trailer: vec![] }));
            label = format!("offset == window ({})", window);
        }
        4 => {
            // header layouts: single segment with every FCS width
            let n = *rng.pick(&[0usize, 1, 255, 256, 300, 65535 + 256, 70000]);
            let data = rng.bytes(n.min(1000));
            let mut left = n;
            let mut bl = Vec::new();
            if n > 0 {
                bl.push(Block::Raw(data.clone()));
                left -= data.len();
            }
            while left > 0 {
                let k = left.min(60000);
                bl.push(Block::Rle(7, k));
                left -= k;
            }
            if bl.is_empty() {
                bl.push(Block::Raw(vec![]));
            }
            let flag = if n < 256 { *rng.pick(&[0u8, 2, 3]) } else if n < 65536 + 256 { *rng.pick(&[1u8, 2, 3]) } else { *rng.pick(&[2u8, 3]) };
            let f = Frame { window_desc: None, fcs_flag: flag, write_fcs: true, checksum: rng.chance(1, 2), dict_id: None, reserved_bit: false, blocks: bl, fcs_override: None, last_at: None };
            return (f, format!("single segment n={} fcs_flag={}", n, flag));
        }
        5 => {
            // overlapping matches with tiny offsets and maximal match lengths
            blocks.push(Block::Raw({ let n_ = rng.range(1, 5) as usize; rng.bytes(n_) }));
            let n = rng.range(1, 2) as usize;
            let seqs = (0..n).map(|_| (0, rng.next() as u32, 0)).collect();
            blocks.push(Block::Comp(SeqBlock { lits: Lit::Raw(vec![]), ll_code: 0, ml_code: *rng.pick(&[43u8, 48, 51]), of_code: 2, seqs, count_bytes: None, modes: None, repeat: [false; 3], trailer: vec![] }));
            label = "overlap tiny offset, long match".into();
        }
        6 => {
            // many blocks of all three types, window-sized output
            let mut total = 0;
            while total < window * 2 && blocks.len() < 40 {
                match rng.below(3) {
                    0 => {
                        let v = { let n_ = rng.range(0, 2000) as usize; rng.bytes(n_) };
                        total += v.len();
                        blocks.push(Block::Raw(v));
                    }
                    1 => {
                        let n = rng.range(0, 50000) as usize;
                        total += n;
                        blocks.push(Block::Rle(rng.next() as u8, n));
                    }
                    _ => {
                        if total == 0 {
                            continue;
                        }
                        let lits = { let n_ = rng.range(0, 64) as usize; rng.bytes(n_) };
                        let n = rng.range(1, 20) as usize;
                        let maxoff = total.min(window).min(4000) as u64;
                        let code = (63 - (maxoff + 3).leading_zeros() as u8).saturating_sub(1).max(2);
                        let ll_code = (lits.len() / n).min(15) as u8;
                        let seqs = (0..n).map(|_| (0, rng.below(4) as u32, rng.next() as u32)).collect();
                        let b = SeqBlock { lits: Lit::Raw(lits), ll_code, ml_code: rng.range(0, 31) as u8, of_code: code, seqs, count_bytes: None, modes: None, repeat: [false; 3], trailer: vec![] };
                        blocks.push(Block::Comp(b));
                        total += 1; // approximate
                    }
                }
            }
            label = format!("mixed blocks x{}", blocks.len());
        }
        10 => {
            // Repeat_Mode after RLE_Mode: a block that repeats tables an EARLIER block sent in RLE mode, in every
            // combination (all three repeated; some repeated, some re-sent), also across an intervening raw block
            blocks.push(Block::Raw(seed_raw.clone()));
            let (ll_code, ml_code, of_code) = (rng.range(0, 3) as u8, rng.range(0, 20) as u8, 2u8);
            let mk = |rng: &mut Rng, repeat: [bool; 3]| {
                let n = rng.range(1, 12) as usize;
                let lits = { let n_ = n * ll_code as usize + 2; rng.bytes(n_) };
                let seqs = (0..n).map(|_| (0u32, 0u32, rng.below(4) as u32)).collect();
                Block::Comp(SeqBlock { lits: Lit::Raw(lits), ll_code, ml_code, of_code, seqs, count_bytes: None, modes: None, repeat, trailer: vec![] })
            };
            blocks.push(mk(rng, [false; 3]));
            let nb = rng.range(1, 5);
            for _ in 0..nb {
                if rng.chance(1, 4) {
                    blocks.push(Block::Rle(rng.next() as u8, rng.range(0, 50) as usize));
                }
                let r = match rng.below(4) {
                    0 => [true, true, true],
                    1 => [true, false, true],
                    2 => [false, true, false],
                    _ => [rng.chance(1, 2), rng.chance(1, 2), rng.chance(1, 2)],
                };
                blocks.push(mk(rng, r));
            }
            label = format!("repeat-after-RLE tables over {} blocks", blocks.len());
        }
        11 => {
            // far offsets with maximal extra bits: offset code >= 26 together with 16-bit length extras makes the three
            // extra-bit fields exceed 56 bits (the reader's slow path).  The history comes from RLE blocks (cheap).
            let code = *rng.pick(&[26u8, 26, 27]);
            let need: u64 = (1u64 << code) + rng.below(1000) + 70_000;
            let mut produced = 0u64;
            while produced < need {
                let n = (need - produced).min(128 * 1024) as usize;
                blocks.push(Block::Rle((produced >> 17) as u8, n));
                produced += n as u64;
            }
            blocks.push(Block::Raw(seed_raw.clone()));
            let off_extra = rng.below(1000) as u32; // offset value = 2^code + extra -> offset = that - 3
            let (ll_code, ml_code) = *rng.pick(&[(34u8, 52u8), (35, 51), (33, 52)]);
            let ll_e = rng.below(8) as u32;
            let ml_e = rng.below(8) as u32;
            let ll = LL_BASE[ll_code as usize].0 + ll_e;
            let ml = ML_BASE[ml_code as usize].0 + ml_e;
            // keep the block within 128 KiB: use small extras (the WIDTHS are what matters for the bit reader)
            let _ = ml;
            let lits = { let n_ = ll as usize + 5; rng.bytes(n_) };
            blocks.push(Block::Comp(SeqBlock { lits: Lit::Raw(lits), ll_code, ml_code, of_code: code, seqs: vec![(ll_e, ml_e, off_extra)], count_bytes: None, modes: None, repeat: [false; 3], trailer: vec![] }));
            // window large enough for the offset
            let wd = ((code as u8 + 1 - 10) << 3) as u8;
            return (Frame::simple(blocks, wd, false), format!("far offset code {} with ll_code {} ml_code {} (extra bits {} > 56)", code, ll_code, ml_code, code as u32 + LL_BASE[ll_code as usize].1 as u32 + ML_BASE[ml_code as usize].1 as u32));
        }
        7 => {
            // literals-only compressed blocks and empty blocks
            blocks.push(Block::Raw(vec![]));
            blocks.push(Block::Comp(SeqBlock { lits: Lit::Raw({ let n_ = rng.range(0, 5000) as usize; rng.bytes(n_) }), ll_code: 0, ml_code: 0, of_code: 0, seqs: vec![], count_bytes: None, modes: None, repeat: [false; 3], trailer: vec![] }));
            blocks.push(Block::Comp(SeqBlock { lits: Lit::Rle(3, rng.range(0, 100000) as usize), ll_code: 0, ml_code: 0, of_code: 0, seqs: vec![], count_bytes: None, modes: None, repeat: [false; 3], trailer: vec![] }));
            blocks.push(Block::Rle(1, 0));
            label = "literal-only / empty blocks".into();
        }
        _ => {
            blocks.push(Block::Raw(seed_raw.clone()));
            let n = rng.range(1, 300) as usize;
            let ll_code = rng.range(0, 8) as u8;
            let lits = rng.bytes(n * ll_code as usize);
            let seqs = (0..n).map(|_| (0, rng.below(4) as u32, rng.below(8) as u32)).collect();
            blocks.push(Block::Comp(SeqBlock { lits: Lit::Raw(lits), ll_code, ml_code: rng.range(0, 35) as u8, of_code: 3, seqs, count_bytes: None, modes: None, repeat: [false; 3], trailer: vec![] }));
            label = "generic rle-mode sequences".into();
        }
    }
    let ck = rng.chance(1, 2);
    label.push_str(&format!(" wdesc={:#x} ck={}", wdesc, ck));
    let mut f = Frame::simple(blocks, wdesc, ck);
    // optional header fields that do not change the content: a Dictionary_ID field that holds 0 ("no dictionary", legal,
    // in every field width) and a Frame_Content_Size field next to the window descriptor
    if rng.chance(1, 4) {
        let w = *rng.pick(&[1u8, 2, 3]);
        f.dict_id = Some((w, 0));
        label.push_str(&format!(" dictid0/{}B", [0, 1, 2, 4][w as usize]));
    }
    if rng.chance(1, 4) {
        f.write_fcs = true;
        f.fcs_flag = *rng.pick(&[2u8, 3]);
        label.push_str(&format!(" fcs_flag={}", f.fcs_flag));
    }
    (f, label)
}

/// A structure-aware hostile frame: a valid plan with one thing broken on purpose.
pub fn hostile_frame(rng: &mut Rng) -> (Vec<u8>, String) {
    let kind = rng.below(16);
    let raw = |rng: &mut Rng| Block::Raw(rng.bytes(4));
    let rle_seq = |lits: Lit, ll: u8, ml: u8, of: u8, seqs: Vec<(u32, u32, u32)>| SeqBlock { lits, ll_code: ll, ml_code: ml, of_code: of, seqs, count_bytes: None, modes: None, repeat: [false; 3], trailer: vec![] };
    let (f, label): (Frame, String) = match kind {
        0 => {
            // F1 family: thousands of maximum-length matches
            let n = *rng.pick(&[3usize, 1000, 20000, 40000]);
            let seqs = vec![(0u32, 0xFFFF, 0); n];
            (Frame::simple(vec![raw(rng), Block::Comp(rle_seq(Lit::Raw(vec![]), 0, 52, 0, seqs))], 0, false), format!("max-length matches x{}", n))
        }
        1 => {
            // oversized literals (20-bit raw/RLE sizes)
            let n = *rng.pick(&[131073usize, 200000, 1048575]);
            (Frame::simple(vec![Block::Comp(rle_seq(Lit::Rle(5, n), 0, 0, 0, vec![]))], 0x28, false), format!("rle literals {}", n))
        }
        2 => {
            // literal length beyond the literals
            (Frame::simple(vec![raw(rng), Block::Comp(rle_seq(Lit::Raw(vec![1, 2]), 10, 0, 2, vec![(0, 0, 1)]))], 0, false), "ll beyond literals".into())
        }
        3 => {
            // offset beyond everything produced / zero offset through history
            let of = *rng.pick(&[5u8, 10, 20, 30, 31]);
            (Frame::simple(vec![raw(rng), Block::Comp(rle_seq(Lit::Raw(vec![]), 0, 0, of, vec![(0, 0, 0)]))], 0, false), format!("offset code {} beyond output", of))
        }
        4 => {
            // RLE symbol above the alphabet
            let which = rng.below(3);
            let (ll, ml, of) = match which {
                0 => (36 + rng.below(200) as u8, 0, 2),
                1 => (0, 53 + rng.below(200) as u8, 2),
                _ => (0, 0, 32 + rng.below(200) as u8),
            };
            (Frame::simple(vec![raw(rng), Block::Comp(rle_seq(Lit::Raw(vec![]), ll, ml, of, vec![(0, 0, 0)]))], 0, false), format!("rle symbol out of alphabet {} {} {}", ll, ml, of))
        }
        5 => {
            // sequence count larger than the stream
            let mut b = rle_seq(Lit::Raw(vec![]), 0, 40, 2, vec![(0, 1, 1); 3]);
            b.count_bytes = None;
            let mut body = comp_block_body(&b);
            // patch the count byte (after the 1-byte literals header) to a larger number
            body[1] = 100;
            (Frame::simple(vec![raw(rng), Block::Bytes { btype: 2, size: body.len() as u32, body }], 0, false), "count > stream".into())
        }
        6 => {
            // modes byte variants on an RLE-shaped body: repeat without previous table, FSE with garbage, predefined
            let mut b = rle_seq(Lit::Raw(vec![]), 0, 0, 2, vec![(0, 0, 1); 5]);
            let m = rng.next() as u8;
            b.modes = Some(m);
            (Frame::simple(vec![raw(rng), Block::Comp(b)], 0, false), format!("modes byte {:#x}", m))
        }
        7 => {
            // extra bytes after the bitstream / after a zero sequence count
            let mut b = rle_seq(Lit::Raw(vec![1, 2, 3]), 0, 0, 2, if rng.chance(1, 2) { vec![] } else { vec![(0, 0, 1)] });
            b.trailer = { let n_ = rng.range(1, 4) as usize; rng.bytes(n_) };
            (Frame::simple(vec![raw(rng), Block::Comp(b)], 0, false), "trailing bytes in block".into())
        }
        8 => {
            // reserved block type / block size above the maximum / size beyond the data
            let t = *rng.pick(&[3u8, 0, 1, 2]);
            let size = *rng.pick(&[131073u32, 200000, (1 << 21) - 1, 10]);
            (Frame::simple(vec![Block::Bytes { btype: t, size, body: rng.bytes(8) }], 0, false), format!("block type {} size {}", t, size))
        }
        9 => {
            // no last block / data after the last block
            let mut f = Frame::simple(vec![raw(rng), raw(rng), raw(rng)], 0, rng.chance(1, 2));
            f.last_at = Some(*rng.pick(&[0usize, 1, 7]));
            (f, "last-block flag misplaced".into())
        }
        10 => {
            // wrong content size / wrong checksum
            let mut f = Frame { window_desc: None, fcs_flag: 0, write_fcs: true, checksum: true, dict_id: None, reserved_bit: false, blocks: vec![raw(rng)], fcs_override: Some(*rng.pick(&[0u64, 3, 5, 200])), last_at: None };
            if rng.chance(1, 2) {
                f.fcs_override = None;
                f.reserved_bit = true;
            }
            (f, "wrong content size / reserved bit".into())
        }
        11 => {
            // window descriptors at the extremes with tiny content
            let w = *rng.pick(&[0xF8u8, 0xFF, 0xA0, 0x88, 0x80]);
            (Frame::simple(vec![raw(rng)], w, false), format!("huge window descriptor {:#x}", w))
        }
        12 => {
            // dictionary id the decoder does not have
            let mut f = Frame::simple(vec![raw(rng)], 0, false);
            f.dict_id = Some((*rng.pick(&[1u8, 2, 3]), 0x1234_5678));
            (f, "unknown dictionary id".into())
        }
        13 => {
            // zero offset via repeat offset 3 with ll = 0 after history was set to 1
            let b1 = rle_seq(Lit::Raw(vec![]), 0, 0, 2, vec![(0, 0, 0)]); // offset value 4 -> offset 1
            let b2 = rle_seq(Lit::Raw(vec![]), 0, 0, 1, vec![(0, 0, 1)]); // offset value 3, ll=0 -> rep1-1 = 0
            (Frame::simple(vec![raw(rng), Block::Comp(b1), Block::Comp(b2)], 0, false), "zero offset via rep1-1".into())
        }
        14 => {
            // literals header claiming more than the block holds
            let mut body = lit_section(&Lit::Raw(vec![1, 2, 3, 4, 5, 6, 7, 8]), Some(1));
            body.truncate(5);
            body.push(0);
            (Frame::simple(vec![Block::Bytes { btype: 2, size: body.len() as u32, body }], 0, false), "literals beyond block".into())
        }
        _ => {
            // compressed/treeless literal headers with garbage payloads
            let t = *rng.pick(&[2u8, 3]);
            let sf = rng.below(4) as u8;
            let mut body = vec![t | (sf << 2) | ((rng.next() as u8) << 4)];
            body.extend_from_slice(&{ let n_ = rng.range(0, 40) as usize; rng.bytes(n_) });
            (Frame::simple(vec![Block::Bytes { btype: 2, size: body.len() as u32, body }], 0, false), format!("garbage huffman literals type {} sf {}", t, sf))
        }
    };
    let (bytes, _) = serialize(&f, &[]);
    (bytes, label)
}
