//! Engine `enc` (C02, C15; helpers shared with `matcher_script`/C16): the REAL `compress`,
//! `compress_to_vec` and `FrameCompressor` (fresh and reused, `set_source`/`set_drain`,
//! `set_compression_level`) under read-fragmentation scripts, both implemented levels and the
//! unimplemented ones.
//!
//! Correspondence: one request line `enc run <lvl> <hash> <W> <script> <datahex> <frags>` per frame.
//! `Uncompressed` frames are compared byte for byte (`frame=<digest>`); for `Fastest` the block
//! structure the model can predict (header bytes, block count, last flags, which blocks are RLE and
//! their byte, regenerated size of every block, checksum).
//!
//! Implementation-only oracles on EVERY emitted frame (`check_frame`): ruzstd decodes it to the
//! input (`FrameDecoder::decode_all`, `StreamingDecoder`), libzstd decodes it to the input, the
//! strict Spec walker accepts it (`spec frame` request line), the C15 size bound, the structure walk
//! (sizes, one last block, nothing after it but the checksum, checksum = XXH64 low 32 of the input).
use crate::gen;
use crate::util::*;
use ruzstd::decoding::{BlockDecodingStrategy, FrameDecoder, StreamingDecoder};
use ruzstd::encoding::{compress, compress_to_vec, CompressionLevel, FrameCompressor};
use std::io::Read;

pub const BLOCK: usize = 128 * 1024;
/// `MatchGeneratorDriver::new(1024 * 128, 1)`; the model takes both from `Gen.Consts` (token `B`)
pub const BUILTIN_SPACE: usize = 128 * 1024;

#[derive(Clone, Copy, PartialEq, Eq, Debug)]
pub enum Lvl {
    U,
    F,
    D,
    B,
    X,
}
impl Lvl {
    pub fn tag(self) -> &'static str {
        match self {
            Lvl::U => "u",
            Lvl::F => "f",
            Lvl::D => "d",
            Lvl::B => "b",
            Lvl::X => "x",
        }
    }
    pub fn real(self) -> CompressionLevel {
        match self {
            Lvl::U => CompressionLevel::Uncompressed,
            Lvl::F => CompressionLevel::Fastest,
            Lvl::D => CompressionLevel::Default,
            Lvl::B => CompressionLevel::Better,
            Lvl::X => CompressionLevel::Best,
        }
    }
    pub fn from_tag(s: &str) -> Option<Lvl> {
        Some(match s {
            "u" => Lvl::U,
            "f" => Lvl::F,
            "d" => Lvl::D,
            "b" => Lvl::B,
            "x" => Lvl::X,
            _ => return None,
        })
    }
}

/// A source that fragments its reads per a script: entry `f` delivers `clamp(f, 1, buf.len())`
/// bytes (fewer at the end of the data); after the script every read fills the buffer.
pub struct FragReader {
    pub data: Vec<u8>,
    pub pos: usize,
    pub frags: Vec<usize>,
    pub i: usize,
    pub reads: usize,
}
impl FragReader {
    pub fn new(data: &[u8], frags: &[usize]) -> Self {
        FragReader { data: data.to_vec(), pos: 0, frags: frags.to_vec(), i: 0, reads: 0 }
    }
}
impl Read for FragReader {
    fn read(&mut self, buf: &mut [u8]) -> std::io::Result<usize> {
        self.reads += 1;
        let cap = buf.len();
        let want = if self.i < self.frags.len() {
            let f = self.frags[self.i];
            self.i += 1;
            f.max(1).min(cap)
        } else {
            cap
        };
        let n = want.min(self.data.len() - self.pos);
        buf[..n].copy_from_slice(&self.data[self.pos..self.pos + n]);
        self.pos += n;
        Ok(n)
    }
}

pub fn frags_str(frags: &[usize]) -> String {
    if frags.is_empty() {
        "-".to_string()
    } else {
        frags.iter().map(|f| f.to_string()).collect::<Vec<_>>().join(",")
    }
}

#[derive(Clone, Debug)]
pub struct Blk {
    pub ty: u8,
    pub size: usize,
    pub last: bool,
    pub body_start: usize,
    pub body_len: usize,
}

#[derive(Clone, Debug)]
pub struct Walk {
    pub hdr: Vec<u8>,
    pub blocks: Vec<Blk>,
    pub trailer: Vec<u8>,
}

/// Independent structure walk of a frame as `FrameCompressor::compress` writes it: 6-byte header
/// (magic, descriptor with only the checksum bit, window descriptor), blocks up to the first one
/// flagged last, then exactly the checksum (4 bytes with the `hash` feature).
pub fn walk_frame(frame: &[u8], hash: bool) -> Result<Walk, String> {
    if frame.len() < 6 {
        return Err(format!("frame of {} bytes has no header", frame.len()));
    }
    if frame[0..4] != [0x28, 0xB5, 0x2F, 0xFD] {
        return Err("bad magic".into());
    }
    let want_desc = if hash { 4 } else { 0 };
    if frame[4] != want_desc {
        return Err(format!("descriptor {:#x}, expected {:#x}", frame[4], want_desc));
    }
    let mut pos = 6;
    let mut blocks = vec![];
    loop {
        if frame.len() < pos + 3 {
            return Err(format!("block header of block {} truncated", blocks.len()));
        }
        let v = frame[pos] as usize | (frame[pos + 1] as usize) << 8 | (frame[pos + 2] as usize) << 16;
        let last = v & 1 == 1;
        let ty = ((v >> 1) & 3) as u8;
        let size = v >> 3;
        pos += 3;
        let body_len = match ty {
            0 | 2 => size,
            1 => 1,
            _ => return Err(format!("reserved block type in block {}", blocks.len())),
        };
        if frame.len() < pos + body_len {
            return Err(format!("body of block {} truncated", blocks.len()));
        }
        blocks.push(Blk { ty, size, last, body_start: pos, body_len });
        pos += body_len;
        if last {
            break;
        }
    }
    let trailer = frame[pos..].to_vec();
    let want = if hash { 4 } else { 0 };
    if trailer.len() != want {
        return Err(format!("{} bytes after the last block, expected {}", trailer.len(), want));
    }
    Ok(Walk { hdr: frame[..6].to_vec(), blocks, trailer })
}

/// Regenerated size of every block, observed by decoding block by block with the real decoder
/// (`buf_len` of the state dump; nothing is drained in between).
pub fn regen_sizes(frame: &[u8]) -> Option<Vec<usize>> {
    guarded(|| {
        let mut dec = FrameDecoder::new();
        let mut src = frame;
        dec.reset(&mut src).ok()?;
        let mut sizes = vec![];
        let mut prev = 0usize;
        loop {
            let fin = dec.decode_blocks(&mut src, BlockDecodingStrategy::UptoBlocks(1)).ok()?;
            let dump = dec.verif_state_dump();
            let i = dump.find("buf_len=")? + 8;
            let n: usize = dump[i..].split(' ').next()?.parse().ok()?;
            sizes.push(n - prev);
            prev = n;
            if fin {
                break;
            }
        }
        Some(sizes)
    })
    .ok()
    .flatten()
}

/// What the harness knows about how exactly the model can predict a block.
pub enum Exact<'a> {
    /// built-in matcher: the parse is not known to the model
    Builtin,
    /// scripted matcher: block `i` is predicted exactly iff it has no sequences and ≤ 1024 literals
    Script(&'a dyn Fn(usize) -> bool),
}

/// The canonical answer line for a frame (same format as `Zstd.Driver.Enc.run`).
pub fn describe(frame: &[u8], lvl: Lvl, hash: bool, exact: &Exact, valid: Option<bool>) -> String {
    let w = match walk_frame(frame, hash) {
        Ok(w) => w,
        Err(e) => return format!("bad-frame {}", e.replace(' ', "_")),
    };
    let need_regen = lvl != Lvl::U && w.blocks.iter().any(|b| b.ty == 2);
    let regen = if need_regen { regen_sizes(frame) } else { None };
    let mut items = vec![];
    let mut all_exact = true;
    for (i, b) in w.blocks.iter().enumerate() {
        let l = if b.last { 1 } else { 0 };
        // the model contains the entropy coders and the built-in matcher now (Model/EncCoders.lean):
        // every block is predicted exactly, whatever the level and the matcher
        let _ = (exact, lvl);
        let is_exact = true;
        if !is_exact {
            all_exact = false;
            let r = match b.ty {
                0 => b.size as i64,
                _ => regen.as_ref().and_then(|r| r.get(i)).map(|x| *x as i64).unwrap_or(-1),
            };
            items.push(format!("nonrle:{}:{}", r, l));
        } else {
            match b.ty {
                0 => items.push(format!("raw:{}:{}", b.size, l)),
                1 => items.push(format!("rle:{}:{}:{}", b.size, frame[b.body_start], l)),
                _ => items.push(format!("cmp:{}:{}", b.size, l)),
            }
        }
    }
    let v = match valid {
        Some(b) => format!(" valid={}", if b { 1 } else { 0 }),
        None => String::new(),
    };
    format!(
        "ok{} hdr={} blocks={} cks={} frame={}",
        v,
        hex(&w.hdr),
        items.join(","),
        if hash { hex(&w.trailer) } else { "-".into() },
        if all_exact { digest(frame) } else { "-".into() }
    )
}

pub struct FrameCheck<'a> {
    /// properties a failed round trip is reported under
    pub rt_props: &'a [&'a str],
    /// properties a structure / size failure is reported under
    pub st_props: &'a [&'a str],
    /// number of blocks the size bound allows (`None`: ceil(len / 128 KiB) + 1)
    pub max_blocks: Option<usize>,
    /// frames up to this many bytes are also sent to the Lean Spec walker
    pub spec_limit: usize,
    pub label: &'a str,
    pub replay: &'a str,
}

fn fail_all(run: &mut Run, props: &[&str], sig: &str, what: String, replay: &str) {
    for p in props {
        run.fail(p, sig, what.clone(), replay.to_string());
    }
}

/// Implementation-only oracles on one emitted frame. Returns true when all passed.
pub fn check_frame(run: &mut Run, c: &FrameCheck, data: &[u8], frame: &[u8]) -> bool {
    let mut ok = true;
    // 1. ruzstd, one-shot
    run.oracle_checks += 1;
    let r = guarded(|| {
        let mut out = vec![0u8; data.len() + 64];
        let mut dec = FrameDecoder::new();
        dec.decode_all(frame, &mut out).map(|n| {
            out.truncate(n);
            out
        })
    });
    match r {
        Ok(Ok(out)) if out == data => {}
        Ok(Ok(out)) => {
            ok = false;
            fail_all(run, c.rt_props, "roundtrip_ruzstd_wrong_bytes", format!("{}: FrameDecoder::decode_all returns {} bytes != input ({} bytes)", c.label, out.len(), data.len()), c.replay)
        }
        Ok(Err(e)) => {
            ok = false;
            let es = format!("{:?}", e);
            // an entropy table the compressor wrote and the decoder refuses: also the FSE / Huffman property's own words
            // ("every table description the compressor writes parses back to exactly the table the compressor used")
            if es.contains("FSETableError") || es.contains("FSEDecoderError") {
                run.fail("C12", "compressor_fse_table_rejected", format!("{}: the decoder refuses an FSE table / stream the compressor wrote: {}", c.label, es), c.replay.to_string());
            }
            if es.contains("HuffmanTableError") || es.contains("HuffmanDecoderError") {
                run.fail("C13", "compressor_huffman_rejected", format!("{}: the decoder refuses a Huffman table / stream the compressor wrote: {}", c.label, es), c.replay.to_string());
            }
            fail_all(run, c.rt_props, "roundtrip_ruzstd_error", format!("{}: FrameDecoder::decode_all fails on the compressor's own frame: {}", c.label, es), c.replay)
        }
        Err(p) => {
            ok = false;
            fail_all(run, c.rt_props, "roundtrip_ruzstd_panic", format!("{}: FrameDecoder::decode_all panics on the compressor's own frame: {}", c.label, p), c.replay)
        }
    }
    // 2. ruzstd, streaming
    run.oracle_checks += 1;
    let r = guarded(|| {
        let mut out = Vec::new();
        match StreamingDecoder::new(frame) {
            Ok(mut d) => d.read_to_end(&mut out).map(|_| out).map_err(|e| format!("{:?}", e)),
            Err(e) => Err(format!("{:?}", e)),
        }
    });
    match r {
        Ok(Ok(out)) if out == data => {}
        other => {
            ok = false;
            let d = match other {
                Ok(Ok(out)) => format!("{} bytes != input", out.len()),
                Ok(Err(e)) => e,
                Err(p) => format!("panic {}", p),
            };
            fail_all(run, c.rt_props, "roundtrip_streaming", format!("{}: StreamingDecoder does not reproduce the input: {}", c.label, d), c.replay)
        }
    }
    // 3. libzstd
    run.oracle_checks += 1;
    match gen::zstd_decode(frame, None, data.len() + 64) {
        Some(out) if out == data => {}
        Some(out) => {
            ok = false;
            fail_all(run, c.rt_props, "roundtrip_libzstd_wrong_bytes", format!("{}: libzstd decodes the frame to {} bytes != input ({} bytes)", c.label, out.len(), data.len()), c.replay)
        }
        None => {
            // a frame neither decoder can read is not well-formed either (structure = what a decoder can walk)
            if !ok {
                fail_all(run, c.st_props, "frame_rejected_by_both_decoders", format!("{}: neither ruzstd nor libzstd can decode the frame ({} bytes for {} input bytes)", c.label, frame.len(), data.len()), c.replay);
            }
            ok = false;
            fail_all(run, c.rt_props, "roundtrip_libzstd_rejects", format!("{}: libzstd rejects the frame ({} bytes for {} input bytes)", c.label, frame.len(), data.len()), c.replay)
        }
    }
    // 4. structure walk
    run.oracle_checks += 1;
    let mut nblocks = 0;
    match walk_frame(frame, true) {
        Err(e) => {
            ok = false;
            fail_all(run, c.st_props, "structure_walk", format!("{}: frame is not well-formed: {}", c.label, e), c.replay)
        }
        Ok(w) => {
            nblocks = w.blocks.len();
            let lasts = w.blocks.iter().filter(|b| b.last).count();
            if lasts != 1 {
                ok = false;
                fail_all(run, c.st_props, "structure_last", format!("{}: {} blocks flagged last", c.label, lasts), c.replay)
            }
            if let Some(b) = w.blocks.iter().find(|b| b.body_len > BLOCK || (b.ty != 2 && b.size > BLOCK)) {
                ok = false;
                fail_all(run, c.st_props, "structure_block_size", format!("{}: block type {} with size field {} (> 128 KiB)", c.label, b.ty, b.size), c.replay)
            }
            // header consistency: no block may exceed the window the header declares
            // (Block_Maximum_Size = min(Window_Size, 128 KiB))
            run.oracle_checks += 1;
            let wd = w.hdr[5] as u64;
            let base = 1u64 << (10 + (wd >> 3));
            let declared = base + base / 8 * (wd & 7);
            if let Some(b) = w.blocks.iter().find(|b| b.ty != 2 && b.size as u64 > declared) {
                ok = false;
                fail_all(run, c.st_props, "structure_block_exceeds_declared_window", format!("{}: block of {} bytes in a frame whose header declares a {} byte window", c.label, b.size, declared), c.replay)
            }
            if w.blocks.iter().any(|b| b.ty == 2) {
                run.oracle_checks += 1;
                match regen_sizes(frame) {
                    Some(r) => {
                        if let Some(x) = r.iter().find(|x| **x as u64 > declared) {
                            ok = false;
                            fail_all(run, c.st_props, "structure_block_exceeds_declared_window", format!("{}: a block regenerates {} bytes in a frame whose header declares a {} byte window", c.label, x, declared), c.replay)
                        }
                        if let Some(x) = r.iter().find(|x| **x > BLOCK) {
                            ok = false;
                            fail_all(run, c.st_props, "structure_regen_size", format!("{}: a block regenerates {} bytes (> 128 KiB)", c.label, x), c.replay)
                        }
                    }
                    None => {
                        ok = false;
                        fail_all(run, c.st_props, "structure_regen_size", format!("{}: block-by-block decoding fails", c.label), c.replay)
                    }
                }
            }
            let want = (xxh64(data, 0) as u32).to_le_bytes();
            run.oracle_checks += 1;
            if w.trailer != want {
                ok = false;
                run.fail("C08", "compressor_checksum", format!("{}: checksum trailer {} != low 32 bits of XXH64(input) {}", c.label, hex(&w.trailer), hex(&want)), c.replay.to_string());
                fail_all(run, c.st_props, "checksum", format!("{}: checksum trailer {} != low 32 bits of XXH64(input) {}", c.label, hex(&w.trailer), hex(&want)), c.replay);
                fail_all(run, c.rt_props, "checksum", format!("{}: checksum trailer {} != low 32 bits of XXH64(input) {}", c.label, hex(&w.trailer), hex(&want)), c.replay)
            }
        }
    }
    // 5. size bound (C15): input + header + 3 per block + checksum
    run.oracle_checks += 1;
    let allowed_blocks = c.max_blocks.unwrap_or(data.len().div_ceil(BLOCK) + 1);
    // three bytes per block that is actually there (the optional empty final block counts when present), so that a block
    // stored in MORE bytes than its content shows even in a one-block frame
    let bound = data.len() + 6 + 3 * (if nblocks > 0 { nblocks.min(allowed_blocks) } else { allowed_blocks }) + 4;
    if frame.len() > bound || nblocks > allowed_blocks {
        ok = false;
        fail_all(run, c.st_props, "size_bound", format!("{}: frame of {} bytes / {} blocks for {} input bytes exceeds the raw-framing bound {} / {} blocks", c.label, frame.len(), nblocks, data.len(), bound, allowed_blocks), c.replay)
    }
    // 6. the strict Spec walker (Lean) — model ⇄ oracle line
    if frame.len() <= c.spec_limit {
        run.case(format!("spec frame {}", hex(frame)), format!("ok {} {}", frame.len(), digest(data)));
        run.stat("spec_walker_frames", 1);
    }
    ok
}

// ------------------------------------------------------------------------------------------------
// input generators

/// near-uniform data over 255 values whose histogram is flattened by `moves` single-byte moves
/// (most frequent value -> least frequent value), plus one planted 5-byte repeat: Huffman gains a
/// handful of bytes, the sequence section costs more than it saves, the block is stored raw.
pub fn flattened_block(rng: &mut Rng, n: usize, moves: usize) -> Vec<u8> {
    let body = n.saturating_sub(5);
    let mut v: Vec<u8> = (0..body).map(|_| rng.below(255) as u8).collect();
    let mut hist = [0usize; 255];
    for &b in &v {
        hist[b as usize] += 1;
    }
    let mut scan = 2000.min(body);
    for _ in 0..moves {
        let (mut hi, mut lo) = (0usize, 0usize);
        for s in 0..255 {
            if hist[s] > hist[hi] {
                hi = s;
            }
            if hist[s] < hist[lo] {
                lo = s;
            }
        }
        if hist[hi] <= hist[lo] + 1 {
            break;
        }
        while scan < body && v[scan] as usize != hi {
            scan += 1;
        }
        if scan >= body {
            break;
        }
        v[scan] = lo as u8;
        hist[hi] -= 1;
        hist[lo] += 1;
        scan += 1;
    }
    if body >= 1005 {
        let rep: Vec<u8> = v[1000..1005].to_vec();
        v.extend_from_slice(&rep);
    }
    v
}

fn alphabet_data(rng: &mut Rng, k: usize, len: usize, skew: bool) -> Vec<u8> {
    let base = rng.next() as u8;
    (0..len)
        .map(|_| {
            let x = if skew { rng.below(k as u64).min(rng.below(k as u64)) } else { rng.below(k as u64) };
            base.wrapping_add(x as u8)
        })
        .collect()
}

/// content-directed inputs at the data-dependent branches of the encoder
pub fn directed_inputs(rng: &mut Rng, thorough: bool) -> Vec<(String, Vec<u8>)> {
    let mut v: Vec<(String, Vec<u8>)> = vec![];
    // lengths k*128KiB + {-1,0,1}
    let ks: &[usize] = if thorough { &[1, 2, 3] } else { &[1, 2] };
    for &k in ks {
        for d in [-1i64, 0, 1] {
            let len = (k * BLOCK) as i64 + d;
            let len = len as usize;
            let kind = *rng.pick(&["random", "text", "const", "lowalpha", "runs"]);
            v.push((format!("blockmult k={} d={} {}", k, d, kind), gen::data(rng, kind, len)));
        }
    }
    for len in [0usize, 1, 2, 3] {
        v.push((format!("tiny len={}", len), rng.bytes(len)));
    }
    // all-equal and almost-all-equal blocks
    for &(len, pos) in &[(1000usize, 0usize), (1000, 999), (5000, 2500), (BLOCK, BLOCK - 1), (BLOCK + 10, BLOCK), (BLOCK + 10, BLOCK + 9), (2 * BLOCK, 0), (2 * BLOCK, BLOCK + 77)] {
        let b = rng.next() as u8;
        let mut d = vec![b; len];
        v.push((format!("all-equal len={}", len), d.clone()));
        d[pos] = b.wrapping_add(1);
        v.push((format!("almost-all-equal len={} diff@{}", len, pos), d));
    }
    // two constant blocks of different values, constant then non-constant
    {
        let mut d = vec![7u8; BLOCK];
        d.extend(vec![9u8; 300]);
        v.push(("rle,rle".into(), d));
        let mut d = vec![7u8; BLOCK];
        d.extend(gen::data(rng, "text", 3000));
        v.push(("rle,text".into(), d));
    }
    // incompressible / nearly incompressible
    for len in [100usize, 1023, 1024, 1025, 1030, 5000, 16383, 16384, 16385, 40000] {
        v.push((format!("incompressible len={}", len), rng.bytes(len)));
    }
    // literal counts around 1024 / 16384 and alphabets of 1, 2, 16, 17, 128, 129, 255, 256 values
    for &k in &[1usize, 2, 16, 17, 128, 129, 255, 256] {
        for &len in &[1020usize, 1025, 1100, 3000, 16380, 16390, 20000] {
            if !thorough && (len == 16380 || len == 1020) && k % 2 == 1 {
                continue;
            }
            let skew = rng.chance(1, 2);
            v.push((format!("alphabet k={} len={} skew={}", k, len, skew), alphabet_data(rng, k, len, skew)));
        }
    }
    // long literal runs followed by long matches: LL / ML codes >= 25
    for &n in &[70usize, 300, 3000, 20000, 40000, 65000] {
        let a = rng.bytes(n);
        let mut d = a.clone();
        d.extend_from_slice(&a);
        d.extend_from_slice(&rng.bytes(7));
        d.extend_from_slice(&a[..n / 2]);
        v.push((format!("long-ll-ml n={}", n), d));
    }
    // long run of one byte inside a non-constant block (offset 1, huge match length)
    for &n in &[40usize, 1000, 66000, 131000] {
        let mut d = rng.bytes(9);
        d.extend(vec![0x55u8; n]);
        d.extend(rng.bytes(3));
        v.push((format!("run-in-block n={}", n), d));
    }
    // repeats at the far end of the one-block window and across the block boundary
    {
        let a = rng.bytes(600);
        let mut d = a.clone();
        d.extend(rng.bytes(BLOCK - 1200));
        d.extend_from_slice(&a); // distance = BLOCK - 600, inside block 0
        d.extend_from_slice(&a); // straddles / lands in block 1
        d.extend(gen::data(rng, "text", 4000));
        v.push(("far-repeat".into(), d));
    }
    // treeless-after-raw generator (found F5): a flattened near-uniform block, then a block with a
    // similar histogram (a small prefix of the same data suffices: > 1024 literals)
    let depths: &[usize] = if thorough { &[120, 150, 171, 200, 260, 400, 800, 1200, 1600, 2000, 2112] } else { &[171, 400, 1500] };
    for &m in depths {
        let blk = flattened_block(rng, BLOCK, m);
        let mut d = blk.clone();
        let second = *rng.pick(&[1500usize, 3000, 20000, BLOCK]);
        d.extend_from_slice(&blk[..second.min(blk.len())]);
        v.push((format!("treeless-after-raw moves={} second={}", m, second), d));
    }
    // literals-level raw fallback, then the same histogram: a unit of n > 1024 mildly skewed bytes repeated to fill a
    // block (first period = literals, the rest = matches, so the BLOCK stays compressed while Huffman coding of its
    // literals loses by the size of the table description and `compress_literals` falls back to raw literals); the
    // next block permutes the unit.  A table remembered although it was never sent would be reused here.
    let shapes: &[(usize, u64)] = if thorough { &[(1100, 200), (1200, 300), (1300, 250), (1400, 300), (1500, 350), (2000, 300), (1050, 150), (3000, 400)] } else { &[(1100, 200), (1300, 250), (1500, 350)] };
    for &(n, hot) in shapes {
        let unit: Vec<u8> = (0..n).map(|_| if rng.below(1000) < hot { rng.below(16) as u8 } else { rng.next() as u8 }).collect();
        let mut unit2 = unit.clone();
        unit2.reverse();
        unit2.rotate_left(n / 3);
        let mut d: Vec<u8> = unit.iter().copied().cycle().take(BLOCK).collect();
        d.extend(unit2.iter().copied().cycle().take(3 * n + 17));
        v.push((format!("lit-raw-fallback-then-same-histogram n={} hot={}", n, hot), d.clone()));
        // the same after a block that established a different Huffman table
        let mut e: Vec<u8> = (0..BLOCK).map(|_| (((rng.next() as u8) as u32 * (rng.next() as u8) as u32) >> 8) as u8).collect();
        e.extend_from_slice(&d);
        v.push((format!("huffman-block, lit-raw-fallback-then-same-histogram n={} hot={}", n, hot), e));
    }
    // many distinct offset codes with similar frequencies (normalised offset-code counts summing to >= 256: the offset
    // table then wants an accuracy log above its format maximum of 8 and must be clamped): copies of short chunks at
    // distances spread over many powers of two, ~30 per code, plus one rare code
    for &(codes_lo, codes_hi, per) in &[(2u32, 16u32, 31usize), (3, 16, 29), (2, 14, 33), (4, 16, 30)] {
        let mut d = rng.bytes(66_000);
        for c in codes_lo..=codes_hi {
            for k in 0..per {
                // offset value in [2^c, 2^(c+1)) -> distance = value - 3 (>= 1)
                let val = (1u64 << c) + rng.below(1u64 << c);
                let dist = (val.max(4) - 3) as usize;
                if dist + 8 >= d.len() {
                    continue;
                }
                let start = d.len() - dist;
                let len = 6 + (k % 3);
                let chunk: Vec<u8> = d[start..(start + len).min(d.len())].to_vec();
                d.extend_from_slice(&chunk);
                // a few fresh literals so that consecutive matches do not merge
                let n_ = 2 + (k % 2);
                d.extend(rng.bytes(n_));
                if d.len() + 64 > BLOCK {
                    break;
                }
            }
        }
        d.truncate(BLOCK - 1);
        v.push((format!("many-offset-codes {}..={} x{}", codes_lo, codes_hi, per), d));
    }
    // a block whose literals add a value ABOVE the largest value of the previous block's table, with otherwise the same
    // skewed statistics (the reuse decision compares two code lists of different lengths)
    for &(n, extra) in &[(30usize, 100usize), (60, 40), (16, 300), (200, 64)] {
        let mut weights: Vec<u8> = vec![];
        for v in 0..n {
            for _ in 0..(v + 1) {
                weights.push(v as u8);
            }
        }
        let mut d: Vec<u8> = (0..BLOCK).map(|_| weights[rng.below(weights.len() as u64) as usize]).collect();
        let mut second: Vec<u8> = (0..6000).map(|_| weights[rng.below(weights.len() as u64) as usize]).collect();
        for k in 0..extra {
            let pos = (k * 53) % second.len();
            second[pos] = n as u8;
        }
        d.extend_from_slice(&second);
        v.push((format!("next-block-adds-value-above-max n={} extra={}", n, extra), d));
    }
    // exact SEQUENCE counts around the boundaries of the count field (127/128, 255/256): `reps` copies of one 8-byte
    // pattern separated by distinct 6-byte separators give reps-1 sequences with the built-in matcher
    for &reps in &[127usize, 128, 129, 130, 256, 257] {
        let pat = rng.bytes(8);
        let mut d = vec![];
        for k in 0..reps {
            d.extend_from_slice(&pat);
            let mut sep = (k as u32).to_le_bytes().to_vec();
            sep.extend_from_slice(&[0xF0 ^ (k as u8), 0x0F ^ ((k >> 8) as u8)]);
            d.extend_from_slice(&sep);
        }
        v.push((format!("exact-sequence-count reps={}", reps), d));
    }
    // tiny inputs with ONE short match: the compressed form is a few bytes larger or smaller than raw storage (the raw
    // fallback decision; the frame must never exceed raw framing)
    for &(total, m) in &[(24usize, 5usize), (30, 8), (35, 16), (40, 16), (48, 12), (64, 16), (100, 20), (22, 6)] {
        let mut d = rng.bytes(total - m);
        let head: Vec<u8> = d[..m].to_vec();
        d.extend_from_slice(&head);
        v.push((format!("tiny-one-match total={} match={}", total, m), d));
    }
    // exact literal counts at the boundaries of the literals-section size formats (1023/1024, 16383/16384): 64 equally
    // likely values, so Huffman coding pays off and (almost surely) no 5-byte match exists: all bytes are literals
    for &n in &[1023usize, 1024, 1025, 16383, 16384, 16384, 16384, 16385] {
        let d: Vec<u8> = (0..n).map(|_| 32 + rng.below(64) as u8).collect();
        v.push((format!("exact-literals n={}", n), d));
    }
    // small ABSOLUTE byte values with unused values in between (direct weight description, odd / even number of
    // weights, zero weights next to the last listed one)
    for &m in &[2u8, 3, 4, 5, 7, 8, 9, 13, 15, 16, 17, 31, 126, 127] {
        for hole in [m.wrapping_sub(1), m / 2, 0] {
            let vals: Vec<u8> = (0..=m).filter(|x| *x != hole || m < 2).collect();
            if vals.len() < 2 {
                continue;
            }
            let len = rng.range(1100, 4000) as usize;
            let d: Vec<u8> = (0..len).map(|_| vals[rng.below(vals.len() as u64) as usize]).collect();
            v.push((format!("abs-alphabet 0..={} without {}", m, hole), d));
        }
    }
    // a block whose literals add ONE value inside the range of the previous block's table (reuse decision must
    // notice that the old table has no code for it), just below a power of two so that the tables are close
    for &(n, missing) in &[(16u8, 7u8), (8, 3), (4, 1), (16, 0), (32, 9), (8, 6)] {
        let first: Vec<u8> = (0..n).filter(|x| *x != missing).collect();
        let all: Vec<u8> = (0..n).collect();
        let mut d: Vec<u8> = (0..BLOCK).map(|_| first[rng.below(first.len() as u64) as usize]).collect();
        let extra = rng.range(2000, 9000) as usize;
        d.extend((0..extra).map(|_| all[rng.below(all.len() as u64) as usize]));
        v.push((format!("next-block-adds-value {} of 0..{}", missing, n), d));
        // and the other direction (a value disappears)
        let mut d: Vec<u8> = (0..BLOCK).map(|_| all[rng.below(all.len() as u64) as usize]).collect();
        d.extend((0..extra).map(|_| first[rng.below(first.len() as u64) as usize]));
        v.push((format!("next-block-drops-value {} of 0..{}", missing, n), d));
    }
    v
}

pub fn frag_scripts(rng: &mut Rng, len: usize) -> Vec<usize> {
    match rng.below(9) {
        0 | 1 => vec![],
        2 => {
            if len <= 6000 {
                vec![1; len + 2]
            } else {
                let mut f = vec![1; 300];
                f.push(BLOCK - 302);
                f.extend([1, 1, 1, 1]);
                f
            }
        }
        3 => vec![BLOCK - 1, 1, 1, BLOCK - 1, 2],
        4 => vec![BLOCK - 1, 2, BLOCK + 5, 1],
        5 => vec![BLOCK / 2, BLOCK / 2, BLOCK / 2 - 1, BLOCK / 2 + 1, 1],
        6 => vec![BLOCK + 1, BLOCK, 0, 0, 3],
        _ => (0..rng.range(1, 40)).map(|_| *rng.pick(&[1u64, 2, 3, 7, 100, 1000, 4096, 65535, 65536, 131071, 131072, 200000]) as usize).collect(),
    }
}

// ------------------------------------------------------------------------------------------------

fn load_corpus() -> Vec<(String, Vec<u8>)> {
    let mut v = vec![];
    let dir = "corpus/enc";
    if let Ok(rd) = std::fs::read_dir(dir) {
        let mut names: Vec<_> = rd.filter_map(|e| e.ok()).map(|e| e.path()).collect();
        names.sort();
        for p in names {
            let name = p.file_name().unwrap().to_string_lossy().to_string();
            if name.ends_with(".input.zst") {
                if let Ok(z) = std::fs::read(&p) {
                    let mut out = Vec::new();
                    if let Ok(mut d) = zstd::stream::Decoder::new(&z[..]) {
                        let _ = d.window_log_max(31);
                        if d.read_to_end(&mut out).is_ok() {
                            v.push((format!("corpus {}", name), out));
                        }
                    }
                }
            } else if name.ends_with(".input") {
                if let Ok(d) = std::fs::read(&p) {
                    v.push((format!("corpus {}", name), d));
                }
            }
        }
    }
    v
}

pub fn request_line(op: &str, lvl: Lvl, w: &str, script: &str, data: &[u8], frags: &[usize]) -> String {
    format!("enc {} {} 1 {} {} {} {}", op, lvl.tag(), w, script, hex(data), frags_str(frags))
}

struct Ctx {
    spec_limit: usize,
    spec_budget: usize,
}

/// one frame through a given API on the built-in matcher; pushes the case and runs the oracles
/// `collect`: `Some(v)` = do not push a request line for this frame, append the answer to `v` instead
/// (frames of one reused compressor are sent to the model as ONE `enc reuse` request, because the
/// built-in matcher recycles its suffix stores across frames and the bytes depend on the history)
fn one_frame(run: &mut Run, ctx: &mut Ctx, label: &str, api: &str, lvl: Lvl, data: &[u8], frags: &[usize], mut collect: Option<&mut Vec<String>>, produce: impl FnOnce() -> Vec<u8>) {
    let line = request_line("run", lvl, "B", "B", data, frags);
    let replay = format!("# api: {} ({})\n{}", api, label, if line.len() < 4000 { line.clone() } else { format!("{}… ({} chars; regenerate with the seed, case label above)", &line[..200], line.len()) });
    run.stat(&format!("api_{}", api), 1);
    run.stat(&format!("level_{}", lvl.tag()), 1);
    match guarded(produce) {
        Err(p) => {
            let expected = !matches!(lvl, Lvl::U | Lvl::F) && !data.is_empty() && p.contains("not implemented");
            match collect.as_mut() {
                Some(v) => v.push("fault".into()),
                None => run.case(line, "fault".into()),
            }
            if expected {
                run.stat("unimplemented_level_panics", 1);
            } else {
                run.oracle_checks += 1;
                run.fail("C02", &format!("panic_{}", sig_of_panic(&p)), format!("{} via {} at level {:?}: compression panics: {}", label, api, lvl, p), replay);
            }
        }
        Ok(frame) => {
            let ans = describe(&frame, lvl, true, &Exact::Builtin, None);
            match collect.as_mut() {
                Some(v) => v.push(ans),
                None => run.case(line, ans),
            }
            run.stat("frames", 1);
            run.stat("input_bytes", data.len() as u64);
            if let Ok(w) = walk_frame(&frame, true) {
                for b in &w.blocks {
                    run.stat(match b.ty { 0 => "blocks_raw", 1 => "blocks_rle", _ => "blocks_compressed" }, 1);
                    if b.ty == 2 {
                        // literals section type of the compressed block (first byte, low 2 bits)
                        let t = frame[b.body_start] & 3;
                        run.stat(match t { 0 => "lit_raw", 1 => "lit_rle", 2 => "lit_compressed", _ => "lit_treeless" }, 1);
                    }
                }
                if w.blocks.len() >= 2 && w.blocks.last().map(|b| b.size == 0).unwrap_or(false) {
                    run.stat("extra_empty_last_block", 1);
                }
            }
            let spec_limit = if ctx.spec_budget >= frame.len() { ctx.spec_limit } else { 0 };
            if frame.len() <= spec_limit {
                ctx.spec_budget -= frame.len();
            }
            let fc = FrameCheck { rt_props: &["C02"], st_props: &["C15"], max_blocks: None, spec_limit, label: &format!("{} via {} at {:?}", label, api, lvl), replay: &replay };
            check_frame(run, &fc, data, &frame);
        }
    }
}

pub fn sig_of_panic(p: &str) -> String {
    // "<msg> @ <file>:<line>"  ->  file name + line
    let loc = p.rsplit(" @ ").next().unwrap_or("");
    let file = loc.rsplit('/').next().unwrap_or(loc);
    file.replace([':', '.'], "_")
}

pub fn run(opts: &Opts) -> Run {
    let mut run = Run::new("enc");
    let mut rng = Rng::new(opts.seed ^ 0xe7c0);
    let mut ctx = Ctx { spec_limit: if opts.thorough { 600_000 } else { 66_000 }, spec_budget: if opts.thorough { 15_000_000 } else { 700_000 } };

    // ---- 1. corpus first (F5 witness: must round-trip now)
    let mut inputs: Vec<(String, Vec<u8>)> = load_corpus();
    run.stat("corpus_inputs", inputs.len() as u64);
    // ---- 2. content-directed inputs
    inputs.extend(directed_inputs(&mut rng, opts.thorough));
    // `--focus entropy`: only the corpus and the content-directed inputs at level Fastest, implementation-side oracles only
    // (used by the FSE / Huffman properties to look for an entropy table the compressor writes and no decoder accepts)
    let entropy_only = opts.focus.as_deref() == Some("entropy");
    // ---- 3. gen::data kinds
    // (the model side now runs the matcher and the entropy coders: about 0.7 MB of input per second)
    let n_rand = if entropy_only { 0 } else if opts.thorough { 1500 } else { 120 };
    let max = if opts.thorough { 2 * 1024 * 1024 } else { 300 * 1024 };
    for i in 0..n_rand {
        let kind = gen::DATA_KINDS[i % gen::DATA_KINDS.len()];
        let len = if (!opts.thorough && i % 4 != 0) || (opts.thorough && i % 10 != 0) { gen::pick_len(&mut rng, 40_000) } else { gen::pick_len(&mut rng, max) };
        inputs.push((format!("{} len={}", kind, len), gen::data(&mut rng, kind, len)));
    }

    let apis = ["compress_to_vec", "compress", "FrameCompressor"];
    for (i, (label, data)) in inputs.iter().enumerate() {
        if i < 4 {
            run.samples.push(format!("input '{}' ({} bytes)", label, data.len()));
        }
        for lvl in [Lvl::F, Lvl::U] {
            // Uncompressed on big inputs only now and then in the quick tier (cost is in the model's hex parsing)
            if lvl == Lvl::U && !opts.thorough && data.len() > 70_000 && i % 3 != 0 {
                continue;
            }
            if entropy_only && lvl == Lvl::U {
                continue;
            }
            let api = apis[(i + lvl as usize) % 3];
            let frags = if api == "compress_to_vec" { vec![] } else { frag_scripts(&mut rng, data.len()) };
            let d = data.clone();
            let f = frags.clone();
            let l = lvl.real();
            match api {
                "compress_to_vec" => one_frame(&mut run, &mut ctx, label, api, lvl, data, &frags, None, move || compress_to_vec(&d[..], l)),
                "compress" => one_frame(&mut run, &mut ctx, label, api, lvl, data, &frags, None, move || {
                    let mut out = Vec::new();
                    compress(FragReader::new(&d, &f), &mut out, l);
                    out
                }),
                _ => one_frame(&mut run, &mut ctx, label, api, lvl, data, &frags, None, move || {
                    let mut out = Vec::new();
                    let mut c = FrameCompressor::new(l);
                    c.set_source(FragReader::new(&d, &f));
                    c.set_drain(&mut out);
                    c.compress();
                    out
                }),
            }
        }
    }

    if entropy_only {
        return run;
    }
    // ---- 4. unimplemented levels: empty input is framed without touching the level match; anything else panics
    for lvl in [Lvl::D, Lvl::B, Lvl::X] {
        for data in [vec![], vec![1u8], rng.bytes(300)] {
            let d = data.clone();
            let l = lvl.real();
            one_frame(&mut run, &mut ctx, "unimplemented-level", "compress_to_vec", lvl, &data, &[], None, move || compress_to_vec(&d[..], l));
        }
    }

    // ---- 5. one compressor reused for several frames (set_source / set_drain / set_compression_level)
    let n_hist = if opts.thorough { 200 } else { 40 };
    for h in 0..n_hist {
        let mut comp: FrameCompressor<FragReader, Vec<u8>, ruzstd::encoding::MatchGeneratorDriver> = FrameCompressor::new(CompressionLevel::Fastest);
        let mut cur = Lvl::F;
        let frames = rng.range(2, 5);
        let mut prev: Option<Vec<u8>> = None;
        let mut jobs: Vec<String> = vec![];
        let mut answers: Vec<String> = vec![];
        for k in 0..frames {
            // histories aimed at leaked state: same data twice (a leaked Huffman table would make the
            // first block of the next frame treeless), Huffman-friendly data, then anything
            let choice = rng.below(4);
            // every fourth history: the previous frame is an EXACT multiple of the block size and leaves a Huffman
            // table behind (the frame then ends through the empty-trailing-block exit), and the next frame starts with
            // a block of the same histogram: per-frame cleanup placed on only one of the two loop exits would leak
            let exact_multiple = h % 4 == 1;
            let data = if exact_multiple && k == 0 {
                let alpha = *rng.pick(&[17usize, 60, 200]);
                let blocks = rng.range(1, 2) as usize;
                alphabet_data(&mut rng, alpha, blocks * BLOCK, true)
            } else if exact_multiple && k == 1 && prev.is_some() {
                let p_ = prev.clone().unwrap();
                let n_ = rng.range(1500, 6000) as usize;
                p_[..n_.min(p_.len())].to_vec()
            } else if k > 0 && choice <= 1 && prev.is_some() {
                prev.clone().unwrap()
            } else if choice == 2 {
                let alpha = *rng.pick(&[3usize, 17, 60, 200]);
                let len = rng.range(1100, 9000) as usize;
                alphabet_data(&mut rng, alpha, len, true)
            } else {
                let kind = *rng.pick(gen::DATA_KINDS);
                let len = gen::pick_len(&mut rng, if h % 8 == 0 { 270_000 } else { 20_000 });
                gen::data(&mut rng, kind, len)
            };
            let lvl = if exact_multiple && k <= 1 { Lvl::F } else { *rng.pick(&[Lvl::F, Lvl::F, Lvl::F, Lvl::U, Lvl::D]) };
            if lvl != cur {
                comp.set_compression_level(lvl.real());
                cur = lvl;
            }
            let frags = frag_scripts(&mut rng, data.len());
            // the three ways the API offers to give a reused compressor its next input: `set_source`, assignment
            // through `source_mut()`, `take_source` + `set_source`; (per-frame state must be
            // reset by `compress()` itself, whichever way the caller went)
            let how = if k == 0 { 0 } else { (h + k as usize) % 3 };
            match how {
                1 => *comp.source_mut().unwrap() = FragReader::new(&data, &frags),
                2 => {
                    let _ = comp.take_source();
                    comp.set_source(FragReader::new(&data, &frags));
                }
                _ => {
                    comp.set_source(FragReader::new(&data, &frags));
                }
            }
            match comp.drain_mut() {
                Some(d) => *d = Vec::new(),
                None => {
                    comp.set_drain(Vec::new());
                }
            }
            run.stat(&format!("reuse_source_given_by_{}", ["set_source", "source_mut", "take_then_set"][how]), 1);
            let label = format!("reuse history={} frame={} ", h, k);
            let cref = &mut comp;
            jobs.push(format!("{}:{}:{}", lvl.tag(), hex(&data), frags_str(&frags)));
            one_frame(&mut run, &mut ctx, &label, "reused-FrameCompressor", lvl, &data, &frags, Some(&mut answers), move || {
                cref.compress();
                cref.take_drain().unwrap_or_default()
            });
            prev = Some(data);
        }
        run.case(format!("enc reuse 1 {}", jobs.join("/")), answers.join(" | "));
    }
    // ---- 6. user-supplied matcher whose window_size() is far below the size of its spaces (F13): the
    // any-matcher theorems of C02 / C15 (`compress_uncompressed_roundtrip_any_matcher`, `header_consistent`)
    for (k, (w, sp)) in [(1024u64, 4096usize), (0, BLOCK), (5000, 70_000), (65_536, BLOCK)].into_iter().enumerate() {
        let t = gen::data(&mut rng, "text", (sp * 2 + 900).min(150_000));
        for lvl in [Lvl::U, Lvl::F] {
            let case = super::c16::Case { pre_reset_window: None, label: format!("user matcher window_size {} with {} byte spaces", w, sp), w, spaces: vec![sp], plan: super::c16::plan(super::c16::Mode::Greedy), data: t.clone(), lvl, frags: frag_scripts(&mut rng, t.len()) };
            super::c16::run_case(&mut run, &case, opts.seed + k as u64, ctx.spec_limit.min(12_000), &mut ctx.spec_budget, &["C02"], &["C15"]);
            run.stat("user_matcher_small_window_cases", 1);
        }
    }
    // … and whose window_size() the window descriptor cannot express exactly, with matches at the full window: the header
    // must not declare less than the matcher uses ("every match offset within the declared window", C15)
    for (k, w) in [200_000u64, 131_073].into_iter().enumerate() {
        let case = super::c16::window_edge_case(&mut rng, w);
        super::c16::run_case(&mut run, &case, opts.seed + 50 + k as u64, 0, &mut ctx.spec_budget, &["C02"], &["C15"]);
        run.stat("user_matcher_window_edge_cases", 1);
    }
    run.stat("spec_budget_left", ctx.spec_budget as u64);
    run
}

/// Re-execute one `enc run` request line on the real code (fresh compressor, `compress`).
pub fn replay_line(line: &str) -> Option<String> {
    let t: Vec<&str> = line.split(' ').collect();
    if t.len() != 8 || t[0] != "enc" || t[1] != "run" {
        return None;
    }
    let lvl = Lvl::from_tag(t[2])?;
    let data = unhex(t[6])?;
    let frags: Vec<usize> = if t[7] == "-" { vec![] } else { t[7].split(',').filter_map(|x| x.parse().ok()).collect() };
    let l = lvl.real();
    let d = data.clone();
    Some(match guarded(move || {
        let mut out = Vec::new();
        compress(FragReader::new(&d, &frags), &mut out, l);
        out
    }) {
        Ok(frame) => describe(&frame, lvl, true, &Exact::Builtin, None),
        Err(_) => "fault".into(),
    })
}
