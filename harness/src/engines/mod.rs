use crate::util::{Opts, Run};

#[cfg(feature = "hooks")]
pub mod dec;
#[cfg(feature = "hooks")]
pub mod spec;
#[cfg(feature = "hooks")]
pub mod tables;

pub fn dispatch(engine: &str, opts: &Opts) -> Option<Run> {
    match engine {
        #[cfg(feature = "hooks")]
        "tables" => Some(tables::run(opts)),
        #[cfg(feature = "hooks")]
        "spec" => Some(spec::run(opts)),
        #[cfg(feature = "hooks")]
        "dec" => Some(dec::run(opts)),
        _ => None,
    }
}
