use crate::util::{Opts, Run};

#[cfg(feature = "hooks")]
pub mod tables;

pub fn dispatch(engine: &str, opts: &Opts) -> Option<Run> {
    match engine {
        #[cfg(feature = "hooks")]
        "tables" => Some(tables::run(opts)),
        _ => None,
    }
}
