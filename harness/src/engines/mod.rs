use crate::util::{Opts, Run};

#[cfg(feature = "hooks")]
pub mod dec;
#[cfg(feature = "hooks")]
pub mod dict;
#[cfg(feature = "hooks")]
pub mod hostile;
#[cfg(feature = "hooks")]
pub mod matcher;
#[cfg(feature = "hooks")]
pub mod mem;
#[cfg(feature = "hooks")]
pub mod replay;
#[cfg(feature = "hooks")]
pub mod reuse;
#[cfg(feature = "hooks")]
pub mod spec;
#[cfg(feature = "hooks")]
pub mod tables;
#[cfg(feature = "hooks")]
pub mod headers;
#[cfg(feature = "hooks")]
pub mod window;

pub fn dispatch(engine: &str, opts: &Opts) -> Option<Run> {
    match engine {
        #[cfg(feature = "hooks")]
        "tables" => Some(tables::run(opts)),
        #[cfg(feature = "hooks")]
        "headers" => Some(headers::run(opts)),
        #[cfg(feature = "hooks")]
        "window" => Some(window::run(opts)),
        #[cfg(feature = "hooks")]
        "spec" => Some(spec::run(opts)),
        #[cfg(feature = "hooks")]
        "dec" => Some(dec::run(opts)),
        #[cfg(feature = "hooks")]
        "mem" => Some(mem::run(opts)),
        #[cfg(feature = "hooks")]
        "replay" => Some(replay::run(opts)),
        #[cfg(feature = "hooks")]
        "dict" => Some(dict::run(opts)),
        #[cfg(feature = "hooks")]
        "matcher" => Some(matcher::run(opts)),
        #[cfg(feature = "hooks")]
        "reuse" => Some(reuse::run(opts)),
        #[cfg(feature = "hooks")]
        "hostile" => Some(hostile::run(opts)),
        _ => None,
    }
}
