//! Engine `fse` (C12/C13/C15/C16): the FSE normaliser, both table builders, the table description
//! writer/reader, `next_state`, and the two stream encoders with the decode loops that consume
//! them, all on the REAL `ruzstd` code (line protocol: `lean/Zstd/Driver/Fse.lean`), plus
//! implementation-only oracles: encoder table == decoder table, validity of the normalised
//! distribution, description round trip, stream round trips.
use super::bits::getbits_err_parts;
use crate::util::*;
use ruzstd::decoding::errors::{FSEDecoderError, FSETableError};
use ruzstd::fse::fse_encoder::build_table_from_data;
use ruzstd::fse::{FSEDecoder, FSETable};
use ruzstd::verif_hooks::bits::BitReaderReversed;
use ruzstd::verif_hooks::entropy::{fse_enc, FseEncTable};
use std::sync::atomic::{AtomicU64, Ordering};
use std::sync::Mutex;

// ---------------------------------------------------------------- watchdog
// Some invalid inputs can make the real table builders spin forever; the generators avoid them, and
// this watchdog turns a mistake there into a diagnosable abort instead of a silent hang.
static PROGRESS: AtomicU64 = AtomicU64::new(0);
static CURRENT: Mutex<String> = Mutex::new(String::new());
static DONE: AtomicU64 = AtomicU64::new(0);

fn tick(line: &str) {
    PROGRESS.fetch_add(1, Ordering::Relaxed);
    if let Ok(mut c) = CURRENT.lock() {
        c.clear();
        c.push_str(&line[..line.len().min(2000)]);
    }
}

fn start_watchdog() {
    DONE.store(0, Ordering::Relaxed);
    std::thread::spawn(|| {
        let mut last = PROGRESS.load(Ordering::Relaxed);
        let mut stuck = 0;
        loop {
            std::thread::sleep(std::time::Duration::from_secs(2));
            if DONE.load(Ordering::Relaxed) != 0 {
                return;
            }
            let now = PROGRESS.load(Ordering::Relaxed);
            if now == last {
                stuck += 1;
                if stuck >= 30 {
                    let cur = CURRENT.lock().map(|c| c.clone()).unwrap_or_default();
                    eprintln!("fse engine: no progress for 60 s, the real code seems to hang on: {}", cur);
                    std::process::exit(3);
                }
            } else {
                stuck = 0;
                last = now;
            }
        }
    });
}

// ---------------------------------------------------------------- canonical formats

fn digest_words(ws: &[u64]) -> String {
    let mut b = Vec::with_capacity(ws.len() * 4);
    for w in ws {
        b.extend_from_slice(&(*w as u32).to_le_bytes());
    }
    digest(&b)
}

/// `showBytes` of the Lean driver: hex up to 64 bytes, `-` if empty, else `len:xxh64`
fn show_bytes(b: &[u8]) -> String {
    if b.len() <= 64 {
        hex(b)
    } else {
        digest(b)
    }
}

fn show_ints(xs: &[i32]) -> String {
    if xs.is_empty() {
        "-".into()
    } else {
        xs.iter().map(|x| x.to_string()).collect::<Vec<_>>().join(",")
    }
}

fn show_counts(xs: &[usize]) -> String {
    if xs.is_empty() {
        "-".into()
    } else {
        xs.iter().map(|x| x.to_string()).collect::<Vec<_>>().join(",")
    }
}

type EncStates = Vec<(i32, Vec<(u8, usize, usize, usize)>)>;

/// `encWords`: table size, then per symbol that has states or a non-zero probability:
/// symbol, probability + 1, number of states, (num_bits, baseline, last_index, index)*
fn enc_words(states: &EncStates, table_size: usize) -> Vec<u64> {
    let mut w = vec![table_size as u64];
    for (sym, (prob, sts)) in states.iter().enumerate() {
        if sts.is_empty() && *prob == 0 {
            continue;
        }
        w.push(sym as u64);
        w.push((*prob as i64 + 1).max(0) as u64);
        w.push(sts.len() as u64);
        for (nb, base, last, idx) in sts {
            w.extend_from_slice(&[*nb as u64, *base as u64, *last as u64, *idx as u64]);
        }
    }
    w
}

fn enc_digest(t: &FseEncTable) -> String {
    format!("E{}", digest_words(&enc_words(&fse_enc::table_states(t), fse_enc::table_size(t))))
}

/// `decWords`: accuracy log, table length, (symbol, num_bits, base_line)*
fn dec_digest(t: &FSETable) -> String {
    let mut w = vec![t.accuracy_log as u64, t.decode.len() as u64];
    for e in &t.decode {
        w.extend_from_slice(&[e.symbol as u64, e.num_bits as u64, e.base_line as u64]);
    }
    format!("D{}", digest_words(&w))
}

fn show_table_err(e: &FSETableError) -> String {
    match e {
        FSETableError::AccLogIsZero => "err acclogzero".into(),
        FSETableError::AccLogTooBig { got, max } => format!("err acclogtoobig {} {}", got, max),
        FSETableError::GetBitsError(g) => {
            let (name, nums) = getbits_err_parts(&format!("{:?}", g));
            match (name.as_str(), nums.as_slice()) {
                ("TooManyBits", [q, _]) => format!("err getbits toomany {}", q),
                ("NotEnoughRemainingBits", [q, m]) => format!("err getbits notenough {} {}", q, m),
                _ => format!("err getbits ?{}", name),
            }
        }
        FSETableError::ProbabilityCounterMismatch { got, expected_sum, .. } => format!("err countermismatch {} {}", got, expected_sum),
        FSETableError::TooManySymbols { got } => format!("err toomanysymbols {}", got),
        _ => "err other".into(),
    }
}

fn err_kind(ans: &str) -> String {
    let mut it = ans.split(' ');
    match (it.next(), it.next(), it.next()) {
        (Some("err"), Some("getbits"), Some(k)) => format!("getbits_{}", k),
        (Some("err"), Some(k), _) => k.to_string(),
        (Some("fault"), _, _) => "fault".into(),
        (Some("ok"), _, _) => "ok".into(),
        _ => "other".into(),
    }
}

// ---------------------------------------------------------------- generators

#[derive(Clone, Copy)]
struct Params {
    max_log: u8,
    avoid: bool,
    max_syms: usize,
    /// `FSETable::new(max_symbol)` of the production decoder for this table
    dec_max_symbol: u8,
    name: &'static str,
}

/// the four production uses of `build_table_from_data`
const PROD: [Params; 4] = [
    Params { max_log: 9, avoid: true, max_syms: 36, dec_max_symbol: 35, name: "ll" },
    Params { max_log: 9, avoid: true, max_syms: 53, dec_max_symbol: 52, name: "ml" },
    Params { max_log: 8, avoid: true, max_syms: 32, dec_max_symbol: 31, name: "of" },
    Params { max_log: 6, avoid: true, max_syms: 12, dec_max_symbol: 255, name: "huf" },
];

const SHAPES: [&str; 8] = ["one", "two", "flat", "geometric", "dominant", "singletons", "random", "ramp"];
const TOTALS: [usize; 22] = [1, 2, 3, 5, 17, 31, 32, 33, 64, 100, 255, 256, 511, 512, 513, 1000, 2048, 4096, 10_000, 30_000, 65_536, 100_000];

fn shuffle<T>(rng: &mut Rng, v: &mut [T]) {
    for i in (1..v.len()).rev() {
        let j = rng.below(i as u64 + 1) as usize;
        v.swap(i, j);
    }
}

/// histogram of `nsym` symbols of a named shape with roughly `total` occurrences
fn gen_counts(rng: &mut Rng, nsym: usize, shape: &str, total: usize) -> Vec<usize> {
    let total = total.max(1);
    let mut c = vec![0usize; nsym];
    match shape {
        "one" => c[nsym - 1] = total,
        "two" => {
            if nsym == 1 {
                c[0] = total;
            } else {
                let j = if rng.chance(3, 4) { nsym - 1 } else { rng.range(1, nsym as u64 - 1) as usize };
                let i = rng.below(j as u64) as usize;
                let a = if total >= 2 {
                    match rng.below(4) {
                        0 => 1,
                        1 => total / 2,
                        _ => rng.range(1, total as u64 - 1) as usize,
                    }
                } else {
                    1
                };
                c[i] = a.max(1);
                c[j] = (total.max(2) - a).max(1);
            }
        }
        "flat" => {
            let v = (total / nsym).max(1);
            for x in c.iter_mut() {
                *x = v;
            }
        }
        "geometric" => {
            let (num, den) = *rng.pick(&[(1usize, 2usize), (2, 3), (4, 5), (9, 10)]);
            let mut v = (total * (den - num) / den).max(1);
            for x in c.iter_mut() {
                *x = v.max(1);
                v = v * num / den;
            }
            if rng.chance(1, 2) {
                shuffle(rng, &mut c);
            }
        }
        "ramp" => {
            // many symbols with sizeable, distinct counts: drives the accuracy log to the limit
            let unit = (total / (nsym * (nsym + 1) / 2).max(1)).max(1);
            for (i, x) in c.iter_mut().enumerate() {
                *x = (i + 1) * unit + rng.below(unit as u64 + 1) as usize;
            }
            if rng.chance(1, 2) {
                shuffle(rng, &mut c);
            }
        }
        "dominant" => {
            let k = rng.below(nsym as u64) as usize;
            let holes = rng.chance(1, 3);
            for (i, x) in c.iter_mut().enumerate() {
                *x = if holes && i + 1 != nsym && rng.chance(1, 3) { 0 } else { 1 };
            }
            c[k] = total.saturating_sub(nsym - 1).max(1);
            c[nsym - 1] = c[nsym - 1].max(1);
        }
        "singletons" => {
            for x in c.iter_mut() {
                *x = match rng.below(12) {
                    0 => 0,
                    1 => 2,
                    2 => 3,
                    _ => 1,
                };
            }
            c[nsym - 1] = c[nsym - 1].max(1);
        }
        _ => {
            let hi = (total / nsym * 2 + 2) as u64;
            for x in c.iter_mut() {
                *x = if rng.chance(1, 4) { 0 } else { rng.below(hi) as usize };
            }
            // mostly a non-zero last count (as `build_table_from_data` produces), sometimes trailing zeros
            if rng.chance(5, 6) {
                c[nsym - 1] = c[nsym - 1].max(1);
            }
            if c.iter().all(|x| *x == 0) {
                let k = rng.below(nsym as u64) as usize;
                c[k] = total;
            }
        }
    }
    c
}

/// symbol string with the histogram of `gen_counts`, shuffled (or sorted runs)
fn gen_data(rng: &mut Rng, nsym: usize, shape: &str, total: usize, alphabet: &[u8]) -> Vec<u8> {
    let c = gen_counts(rng, nsym, shape, total);
    let mut d = vec![];
    for (i, n) in c.iter().enumerate() {
        for _ in 0..*n {
            d.push(alphabet[i]);
        }
    }
    match rng.below(5) {
        0 => {}
        1 => d.reverse(),
        _ => shuffle(rng, &mut d),
    }
    d
}

/// a VALID distribution for accuracy log `al` over at most `nsym` symbols: positive counts and
/// `-1` entries summing (with `-1` as 1) to `2^al`, zero runs in between
/// valid distribution with a LARGE "less than one" zone (a third of the table up to all but one cell, capped by the
/// 256-symbol alphabet): the spreading walk has to skip occupied top cells several times in a row
fn gen_valid_probs_many_neg(rng: &mut Rng, al: u8) -> Vec<i32> {
    let size = 1usize << al;
    let m_hi = (size - 1).min(250);
    let m_lo = (size / 3).min(m_hi);
    let m = rng.range(m_lo as u64, m_hi as u64) as usize;
    let free = size - m;
    let pos = rng.range(1, (free.min(5)) as u64) as usize;
    let mut parts = vec![1usize; pos];
    let mut rest = free - pos;
    while rest > 0 {
        let i = rng.below(pos as u64) as usize;
        let give = rng.range(1, rest as u64) as usize;
        parts[i] += give;
        rest -= give;
    }
    let mut entries: Vec<i32> = parts.iter().map(|p| *p as i32).collect();
    entries.extend(std::iter::repeat(-1).take(m));
    shuffle(rng, &mut entries);
    entries
}

fn gen_valid_probs(rng: &mut Rng, al: u8, nsym: usize) -> Vec<i32> {
    let size = 1usize << al;
    let nsym = nsym.max(1);
    let k = rng.range(1, nsym.min(size) as u64) as usize; // non-zero entries
    let m = if k >= 2 && rng.chance(1, 2) { rng.below((k as u64).min(12)) as usize } else { 0 }; // `-1` entries
    let pos = k - m; // >= 1
    let mut parts = vec![1usize; pos];
    let mut rest = size - m - pos;
    match rng.below(3) {
        0 => {
            // one dominant
            let i = rng.below(pos as u64) as usize;
            let give = rest - rng.below(rest as u64 / 4 + 1) as usize;
            parts[i] += give;
            rest -= give;
        }
        1 => {
            // halving
            for p in parts.iter_mut() {
                let give = rest / 2;
                *p += give;
                rest -= give;
            }
        }
        _ => {}
    }
    while rest > 0 {
        let i = rng.below(pos as u64) as usize;
        let give = rng.range(1, rest.min(size / pos + 1) as u64) as usize;
        parts[i] += give;
        rest -= give;
    }
    let mut entries: Vec<i32> = parts.iter().map(|p| *p as i32).collect();
    entries.extend(std::iter::repeat(-1).take(m));
    shuffle(rng, &mut entries);
    // spread over the alphabet with zero runs
    let mut slots: Vec<usize> = (0..nsym).collect();
    shuffle(rng, &mut slots);
    let mut chosen: Vec<usize> = slots[..k].to_vec();
    chosen.sort();
    let len = if rng.chance(4, 5) { chosen[k - 1] + 1 } else { nsym };
    let mut probs = vec![0i32; len];
    for (e, s) in entries.iter().zip(chosen.iter()) {
        probs[*s] = *e;
    }
    probs
}

fn trim_zeros(p: &[i32]) -> &[i32] {
    let mut n = p.len();
    while n > 0 && p[n - 1] == 0 {
        n -= 1;
    }
    &p[..n]
}

// ---------------------------------------------------------------- real-side wrappers + oracles

/// oracle (a): for every decoder entry the encoder state of its symbol with the same index exists
/// and has the same baseline and bit count (`check_tables` of fse/mod.rs without the panics)
fn tables_agree(dec: &FSETable, enc: &EncStates) -> Result<(), String> {
    for (idx, e) in dec.decode.iter().enumerate() {
        let sts = &enc[e.symbol as usize].1;
        match sts.iter().find(|s| s.3 == idx) {
            None => return Err(format!("decoder entry {} (symbol {}) has no encoder state with that index", idx, e.symbol)),
            Some(s) => {
                if s.1 != e.base_line as usize || s.0 != e.num_bits {
                    return Err(format!("entry {} symbol {}: encoder (baseline {}, bits {}) vs decoder (baseline {}, bits {})", idx, e.symbol, s.1, s.0, e.base_line, e.num_bits));
                }
            }
        }
    }
    let n_states: usize = enc.iter().map(|s| s.1.len()).sum();
    if n_states != dec.decode.len() {
        return Err(format!("encoder has {} states, decoder table has {} entries", n_states, dec.decode.len()));
    }
    Ok(())
}

struct Built {
    al: u8,
    probs: Vec<i32>,
    desc: Vec<u8>,
}

/// `fse build` (and optionally `fse norm`) on one histogram; returns the description if everything worked
fn build_case(run: &mut Run, counts: &[usize], max_log: u8, avoid: bool, production: bool, with_norm: bool) -> Option<Built> {
    let line = format!("fse build {} {} {}", max_log, avoid as u8, show_counts(counts));
    tick(&line);
    let enc = guarded(|| {
        let t = fse_enc::build_table_from_counts(counts, max_log, avoid);
        let size = fse_enc::table_size(&t);
        let states = fse_enc::table_states(&t);
        let desc = fse_enc::write_table(&t);
        (size, states, desc)
    });
    let (size, states, desc) = match enc {
        Err(e) => {
            run.case(line.clone(), "fault".into());
            if with_norm {
                run.case(format!("fse norm {} {} {}", max_log, avoid as u8, show_counts(counts)), "fault".into());
            }
            run.stat(if production { "build_fault_production" } else { "build_fault_other" }, 1);
            if production && !(counts.len() == 1) {
                // the only known production-parameter panic is F4 (histogram of the single symbol 0)
                run.fail("C12", "build_panic_production", format!("build_table_from_counts panics with production parameters: {}", e), line);
            } else if production {
                run.stat("build_fault_F4", 1);
                // finding F4: the same histogram through the entry point the compressor uses
                // (`build_table_from_data`, all symbols 0 = all literal lengths 0 / all match lengths 3)
                let n = counts[0].min(64).max(1);
                run.oracle_checks += 1;
                if let Err(e2) = guarded(|| {
                    let t = ruzstd::fse::fse_encoder::build_table_from_data(std::iter::repeat(0u8).take(n), max_log, true);
                    fse_enc::table_size(&t)
                }) {
                    run.fail(
                        "C12",
                        "F4_single_symbol_zero",
                        format!("build_table_from_data panics when only symbol 0 occurs (max_log {}, zero-bit avoidance on): {}", max_log, e2),
                        line,
                    );
                }
            }
            return None;
        }
        Ok(x) => x,
    };
    let al = size.ilog2() as u8;
    let probs: Vec<i32> = states[..counts.len()].iter().map(|s| s.0).collect();
    let e_dig = format!("E{}", digest_words(&enc_words(&states, size)));
    let head = format!("ok {} {} {} W{}", al, show_ints(&probs), e_dig, show_bytes(&desc));
    if with_norm {
        run.case(format!("fse norm {} {} {}", max_log, avoid as u8, show_counts(counts)), format!("ok {} {}", al, show_ints(&probs)));
    }
    let dec = guarded(|| {
        let mut dt = FSETable::new(255);
        let r = dt.build_decoder(&desc, max_log);
        (dt, r)
    });
    // ---- oracle (c): validity of the normalised distribution
    run.oracle_checks += 1;
    let sum: i64 = probs.iter().map(|p| p.unsigned_abs() as i64).sum();
    let mut bad = vec![];
    if !(5 <= al && al <= max_log) {
        bad.push(format!("accuracy log {} outside 5..={}", al, max_log));
    }
    if size != 1usize << al || sum != size as i64 {
        bad.push(format!("sum of |p| = {} but table size = {}", sum, size));
    }
    for (i, c) in counts.iter().enumerate() {
        if *c > 0 && probs[i] < 1 {
            bad.push(format!("symbol {} occurs {} times but got probability {}", i, c, probs[i]));
        }
    }
    if avoid && probs.iter().any(|p| (*p as i64) > (size as i64 / 2)) {
        bad.push(format!("avoid_0_numbit but a probability exceeds half the table: {:?}", probs.iter().max()));
    }
    if states[counts.len()..].iter().any(|s| s.0 != 0 || !s.1.is_empty()) {
        bad.push("states for symbols beyond the histogram".into());
    }
    if !bad.is_empty() {
        run.fail("C12", "normalise_validity", bad.join("; "), line.clone());
    }
    match dec {
        Err(_) => {
            run.case(line.clone(), format!("{} fault", head));
            run.fail("C12", "description_decoder_panic", "build_decoder panics on a description written by write_table".into(), line);
            None
        }
        Ok((_, Err(e))) => {
            run.case(line.clone(), format!("{} {}", head, show_table_err(&e)));
            run.fail("C12", "description_rejected", format!("build_decoder rejects a description written by write_table: {:?}", e), line);
            None
        }
        Ok((dt, Ok(n))) => {
            run.case(line.clone(), format!("{} R{} {}", head, n, dec_digest(&dt)));
            // ---- oracle (a): both tables are the same automaton
            run.oracle_checks += 1;
            if let Err(what) = tables_agree(&dt, &states) {
                run.fail("C12", "enc_dec_table_mismatch", what, line.clone());
            }
            // ---- oracle (b): description round trip
            run.oracle_checks += 1;
            if dt.symbol_probabilities.as_slice() != trim_zeros(&probs) || n != desc.len() || dt.accuracy_log != al {
                run.fail(
                    "C12",
                    "description_roundtrip",
                    format!("wrote al {} probs {:?} in {} bytes, read back al {} probs {:?} from {} bytes", al, probs, desc.len(), dt.accuracy_log, dt.symbol_probabilities, n),
                    line,
                );
            }
            Some(Built { al, probs, desc })
        }
    }
}

/// `fse fromprobs`; `valid` switches the table-agreement oracle on
fn fromprobs_case(run: &mut Run, al: u8, probs: &[i32], valid: bool) {
    let line = format!("fse fromprobs {} {}", al, show_ints(probs));
    tick(&line);
    let e = guarded(|| {
        let t = fse_enc::build_table_from_probabilities(probs, al);
        (enc_digest(&t), fse_enc::table_states(&t))
    });
    let d = guarded(|| {
        let mut t = FSETable::new(255);
        let r = t.build_from_probabilities(al, probs);
        (t, r)
    });
    let e_tok = match &e {
        Ok((dg, _)) => dg.clone(),
        Err(_) => "fault".into(),
    };
    let d_tok = match &d {
        Ok((t, Ok(()))) => dec_digest(t),
        Ok((_, Err(er))) => show_table_err(er),
        Err(_) => "fault".into(),
    };
    run.stat(&format!("fromprobs_enc_{}", if e.is_ok() { "ok" } else { "fault" }), 1);
    run.stat(&format!("fromprobs_dec_{}", err_kind(if d_tok.starts_with('D') { "ok" } else { &d_tok })), 1);
    if valid {
        run.oracle_checks += 1;
        match (&e, &d) {
            (Ok((_, states)), Ok((t, Ok(())))) => {
                if let Err(what) = tables_agree(t, states) {
                    run.fail("C12", "enc_dec_table_mismatch", what, line.clone());
                }
            }
            _ => run.fail("C12", "valid_distribution_rejected", format!("a valid distribution is not accepted by both builders: enc {} dec {}", e_tok, d_tok), line.clone()),
        }
    }
    run.case(line, format!("ok {} | {}", e_tok, d_tok));
    // for a valid distribution the format allows: the real decoder's table against the table the RFC transcription
    // builds (model side of this line = `Spec.Fse.buildTable`, an oracle, not the mirror of the code)
    if valid && (5..=9).contains(&al) && d_tok.starts_with('D') {
        run.case(format!("fse specprobs {} {}", al, show_ints(probs)), format!("ok {}", d_tok));
        run.stat("specprobs_cases", 1);
    }
}

fn next_case(run: &mut Run, al: u8, probs: &[i32], sym: u8, idx: usize, expect_ok: bool) {
    let line = format!("fse next {} {} {} {}", al, show_ints(probs), sym, idx);
    tick(&line);
    let r = guarded(|| {
        let t = fse_enc::build_table_from_probabilities(probs, al);
        fse_enc::next_state(&t, sym, idx)
    });
    match r {
        Ok((nb, base, last, index)) => {
            run.case(line.clone(), format!("ok {} {} {} {}", nb, base, last, index));
            run.oracle_checks += 1;
            if !(base <= idx && idx <= last) {
                run.fail("C12", "next_state_not_containing", format!("next_state({}, {}) returned the state [{}, {}]", sym, idx, base, last), line);
            }
            run.stat("next_ok", 1);
        }
        Err(e) => {
            run.case(line.clone(), "fault".into());
            run.stat("next_fault", 1);
            if expect_ok {
                run.oracle_checks += 1;
                run.fail("C12", "next_state_panic", format!("next_state({}, {}) on a valid table for a symbol with non-zero probability panics: {}", sym, idx, e), line);
            }
        }
    }
}

/// real `build_decoder` in the `dec` answer format
fn real_dec_answer(max_sym: u8, max_log: u8, src: &[u8]) -> String {
    let r = guarded(|| {
        let mut t = FSETable::new(max_sym);
        let r = t.build_decoder(src, max_log);
        (t, r)
    });
    match r {
        Err(_) => "fault".into(),
        Ok((_, Err(e))) => show_table_err(&e),
        Ok((t, Ok(n))) => format!("ok {} {} {} {}", n, t.accuracy_log, show_ints(&t.symbol_probabilities), dec_digest(&t)),
    }
}

fn dec_case(run: &mut Run, max_sym: u8, max_log: u8, src: &[u8], class: &str, also_spec: bool) {
    let line = format!("fse dec {} {} {}", max_sym, max_log, hex(src));
    tick(&line);
    let ans = real_dec_answer(max_sym, max_log, src);
    let kind = err_kind(&ans);
    run.stat(&format!("dec_{}_{}", class, kind), 1);
    run.stat(&format!("dec_answer_{}", kind), 1);
    if kind == "countermismatch" {
        run.notes.push(format!("ProbabilityCounterMismatch IS reachable: {}", line));
    }
    if also_spec && kind == "ok" {
        // the RFC transcription must build the same table from a description our encoder wrote
        run.case(format!("fse spec {} {} {}", max_sym, max_log, hex(src)), ans.clone());
        run.stat("spec_cases", 1);
    }
    run.case(line, ans);
}

/// the two decode loops re-implemented on the real `FSEDecoder` / `BitReaderReversed` API:
/// `fse/mod.rs round_trip` (single state, n symbols) and `huff0_decoder.rs:202-234` (two states)
fn real_stream_dec(inter: bool, max_log: u8, n: usize, src: &[u8]) -> Result<Result<(Vec<u8>, isize), String>, String> {
    guarded(|| -> Result<(Vec<u8>, isize), String> {
        let mut t = FSETable::new(255);
        let used = t.build_decoder(src, max_log).map_err(|e| show_table_err(&e))?;
        let rest = &src[used..];
        let mut br = BitReaderReversed::new(rest);
        let mut skipped_bits = 0;
        loop {
            let val = br.get_bits(1);
            skipped_bits += 1;
            if val == 1 || skipped_bits > 8 {
                break;
            }
        }
        if skipped_bits > 8 {
            return Err("err extrapadding".into());
        }
        let dec_err = |e: FSEDecoderError| match e {
            FSEDecoderError::TableIsUninitialized => "err uninitialized".to_string(),
            _ => "err decoder-other".to_string(),
        };
        if !inter {
            let mut decoder = FSEDecoder::new(&t);
            decoder.init_state(&mut br).map_err(dec_err)?;
            let mut decoded = Vec::new();
            for _ in 0..n {
                decoded.push(decoder.decode_symbol());
                if decoded.len() < n {
                    decoder.update_state(&mut br);
                }
            }
            Ok((decoded, br.bits_remaining()))
        } else {
            let mut dec1 = FSEDecoder::new(&t);
            let mut dec2 = FSEDecoder::new(&t);
            dec1.init_state(&mut br).map_err(dec_err)?;
            dec2.init_state(&mut br).map_err(dec_err)?;
            let mut weights: Vec<u8> = Vec::new();
            loop {
                let w = dec1.decode_symbol();
                weights.push(w);
                dec1.update_state(&mut br);
                if br.bits_remaining() <= -1 {
                    weights.push(dec2.decode_symbol());
                    break;
                }
                let w = dec2.decode_symbol();
                weights.push(w);
                dec2.update_state(&mut br);
                if br.bits_remaining() <= -1 {
                    weights.push(dec1.decode_symbol());
                    break;
                }
                if weights.len() > 255 {
                    return Err("err toomanyweights".into());
                }
            }
            Ok((weights, br.bits_remaining()))
        }
    })
}

fn stream_dec_answer(r: &Result<Result<(Vec<u8>, isize), String>, String>) -> String {
    match r {
        Err(_) => "fault".into(),
        Ok(Err(s)) => s.clone(),
        Ok(Ok((syms, rem))) => format!("ok {} {}", show_bytes(syms), rem),
    }
}

fn stream_dec_case(run: &mut Run, inter: bool, max_log: u8, n: usize, src: &[u8], class: &str) -> Result<Result<(Vec<u8>, isize), String>, String> {
    let line = if inter { format!("fse dec2 {} {}", max_log, hex(src)) } else { format!("fse dec1 {} {} {}", max_log, n, hex(src)) };
    tick(&line);
    let r = real_stream_dec(inter, max_log, n, src);
    let ans = stream_dec_answer(&r);
    run.stat(&format!("{}_{}_{}", if inter { "dec2" } else { "dec1" }, class, err_kind(&ans)), 1);
    run.case(line, ans);
    r
}

/// `enc1`/`enc2` on one symbol string, the decoder on the produced bytes, round-trip oracle, corruptions
fn stream_case(run: &mut Run, rng: &mut Rng, inter: bool, max_log: u8, avoid: bool, data: &[u8], corrupt: bool) {
    let op = if inter { "enc2" } else { "enc1" };
    let line = format!("fse {} {} {} {}", op, max_log, avoid as u8, hex(data));
    tick(&line);
    let r = guarded(|| {
        let t = build_table_from_data(data.iter().copied(), max_log, avoid);
        if inter {
            fse_enc::encode_interleaved(t, data)
        } else {
            fse_enc::encode(t, data)
        }
    });
    let out = match r {
        Err(_) => {
            run.case(line, "fault".into());
            run.stat(&format!("{}_fault", op), 1);
            return;
        }
        Ok(o) => o,
    };
    run.case(line.clone(), format!("ok {}", show_bytes(&out)));
    run.stat(&format!("{}_ok", op), 1);
    run.stat(&format!("{}_stream_bytes", op), out.len() as u64);
    let r = stream_dec_case(run, inter, max_log, data.len(), &out, "valid");
    let dline = run.cases.last().cloned().unwrap_or_default();
    run.oracle_checks += 1;
    match &r {
        Ok(Ok((syms, rem))) => {
            if !inter {
                if syms != data || *rem != 0 {
                    run.fail("C12", "fse_stream_roundtrip", format!("single-state round trip: {} symbols in, {} out (equal: {}), bits_remaining {}", data.len(), syms.len(), syms == data, rem), format!("{}\n{}", line, dline));
                }
            } else {
                run.stat(&format!("dec2_valid_bits_remaining_{}", rem), 1);
                if syms != data {
                    if avoid {
                        run.fail("C12", "fse_interleaved_roundtrip", format!("two-state round trip: {} symbols in, {} out, bits_remaining {}", data.len(), syms.len(), rem), format!("{}\n{}", line, dline));
                    } else {
                        // without avoid_0_numbit a zero-bit state is legal and the `bits_remaining <= -1` stop rule
                        // cannot see the end of the stream: expected, not a production configuration
                        run.stat("dec2_mismatch_without_avoid0", 1);
                    }
                }
            }
        }
        other => {
            if inter && !avoid {
                // same reason: a table with a zero-bit state (e.g. a single symbol) never drives bits_remaining below 0
                run.stat("dec2_rejected_without_avoid0", 1);
            } else {
                run.fail("C12", if inter { "fse_interleaved_roundtrip" } else { "fse_stream_roundtrip" }, format!("decoder does not accept the encoder's stream: {}", stream_dec_answer(other)), format!("{}\n{}", line, dline));
            }
        }
    }
    if !corrupt {
        return;
    }
    // ---- corrupted variants: both sides must agree, including faults
    let n = data.len();
    let mut v = out.clone();
    match rng.below(7) {
        0 => {
            // flip one bit anywhere
            let i = rng.below(v.len() as u64) as usize;
            v[i] ^= 1 << rng.below(8);
            stream_dec_case(run, inter, max_log, n, &v, "bitflip").ok();
        }
        1 => {
            // flip a bit in the stream part only (the description stays valid)
            let i = v.len() - 1 - rng.below((v.len() as u64).min(6)) as usize;
            v[i] ^= 1 << rng.below(8);
            stream_dec_case(run, inter, max_log, n, &v, "tailflip").ok();
        }
        2 => {
            v.truncate(v.len() - 1 - rng.below((v.len() as u64).min(3)) as usize);
            stream_dec_case(run, inter, max_log, n, &v, "truncated").ok();
        }
        3 => {
            // a whole zero byte after the end mark: 8 zero padding bits, and then possibly a 1
            v.push(0);
            stream_dec_case(run, inter, max_log, n, &v, "zerobyte").ok();
        }
        4 => {
            // more symbols than were encoded: zero fill past the start, negative bits_remaining
            let extra = *rng.pick(&[1usize, 2, 7, 40]);
            stream_dec_case(run, inter, max_log, n + extra, &out, "toomany").ok();
        }
        5 => {
            stream_dec_case(run, inter, max_log, n.saturating_sub(1 + rng.below(3) as usize), &out, "toofew").ok();
        }
        _ => {
            let k = rng.range(1, 4) as usize;
            v.extend(rng.bytes(k));
            stream_dec_case(run, inter, max_log, n, &v, "appended").ok();
        }
    }
}

// ---------------------------------------------------------------- exhaustive al = 5 distributions

/// all compositions of `total` into exactly `k` positive parts
fn compositions(total: usize, k: usize, cur: &mut Vec<usize>, out: &mut Vec<Vec<usize>>) {
    if k == 1 {
        cur.push(total);
        out.push(cur.clone());
        cur.pop();
        return;
    }
    for first in 1..=(total - (k - 1)) {
        cur.push(first);
        compositions(total - first, k - 1, cur, out);
        cur.pop();
    }
}

/// every valid distribution for accuracy log 5 with at most 4 non-zero entries, each part of size 1
/// either `1` or `-1`, and a zero run of length 0 or 1 in front of every entry (~110 000 lists)
fn all_al5_distributions() -> Vec<Vec<i32>> {
    let mut res = vec![];
    for k in 1..=4usize {
        let mut comps = vec![];
        compositions(32, k, &mut vec![], &mut comps);
        for c in comps {
            let ones: Vec<usize> = (0..k).filter(|i| c[*i] == 1).collect();
            for neg_mask in 0..(1u32 << ones.len()) {
                let mut parts: Vec<i32> = c.iter().map(|x| *x as i32).collect();
                for (b, i) in ones.iter().enumerate() {
                    if neg_mask >> b & 1 == 1 {
                        parts[*i] = -1;
                    }
                }
                for gaps in 0..(1u32 << k) {
                    let mut p = vec![];
                    for (i, x) in parts.iter().enumerate() {
                        if gaps >> i & 1 == 1 {
                            p.push(0);
                        }
                        p.push(*x);
                    }
                    res.push(p);
                }
            }
        }
    }
    res
}

// ---------------------------------------------------------------- corpus: table descriptions made by libzstd

/// Walks a libzstd frame with the REAL header parsers and feeds every FSE table description it meets
/// (sequence section tables; FSE-compressed Huffman weights incl. their two-state stream) to `dec`/`spec`/`dec2`.
fn libzstd_frame_tables(run: &mut Run, frame: &[u8]) {
    use ruzstd::verif_hooks::headers::{new_block_decoder, read_frame_header, BlockType, LiteralsSection, LiteralsSectionType, ModeType, SequencesHeader};
    // (max symbol, max log, description + following bytes, is huffman weights, whole weight stream)
    let found = guarded(|| {
        let mut found: Vec<(u8, u8, Vec<u8>, Option<Vec<u8>>)> = vec![];
        let mut pos = match read_frame_header(frame) {
            Ok((_, n)) => n as usize,
            Err(_) => return found,
        };
        let mut bd = new_block_decoder();
        loop {
            if pos + 3 > frame.len() {
                break;
            }
            let (bh, _) = match bd.read_block_header(&frame[pos..]) {
                Ok(x) => x,
                Err(_) => break,
            };
            pos += 3;
            let size = bh.content_size as usize;
            if pos + size > frame.len() {
                break;
            }
            if let BlockType::Compressed = bh.block_type {
                let content = &frame[pos..pos + size];
                let mut ls = LiteralsSection::new();
                if let Ok(hdr) = ls.parse_from_header(content) {
                    let hdr = hdr as usize;
                    let lit_size = match ls.ls_type {
                        LiteralsSectionType::Raw => ls.regenerated_size as usize,
                        LiteralsSectionType::RLE => 1,
                        _ => ls.compressed_size.unwrap_or(0) as usize,
                    };
                    if let LiteralsSectionType::Compressed = ls.ls_type {
                        // Huffman tree description: header byte < 128 => FSE-compressed weights of that many bytes
                        if let Some(&h) = content.get(hdr) {
                            if h < 128 && hdr + 1 + h as usize <= content.len() {
                                let stream = content[hdr + 1..hdr + 1 + h as usize].to_vec();
                                found.push((255, 6, stream.clone(), Some(stream)));
                            }
                        }
                    }
                    if hdr + lit_size <= content.len() {
                        let seq = &content[hdr + lit_size..];
                        let mut sh = SequencesHeader::new();
                        if let Ok(used) = sh.parse_from_header(seq) {
                            if let (true, Some(modes)) = (sh.num_sequences > 0, sh.modes) {
                                let mut off = used as usize;
                                for (mode, max_sym, max_log) in [(modes.ll_mode(), 35u8, 9u8), (modes.of_mode(), 31, 8), (modes.ml_mode(), 52, 9)] {
                                    match mode {
                                        ModeType::FSECompressed => {
                                            let mut t = FSETable::new(max_sym);
                                            match t.build_decoder(&seq[off.min(seq.len())..], max_log) {
                                                Ok(n) => {
                                                    let end = (off + n + 3).min(seq.len());
                                                    found.push((max_sym, max_log, seq[off..end].to_vec(), None));
                                                    off += n;
                                                }
                                                Err(_) => break,
                                            }
                                        }
                                        ModeType::RLE => off += 1,
                                        _ => {}
                                    }
                                }
                            }
                        }
                    }
                }
            }
            pos += size;
            if bh.last_block {
                break;
            }
        }
        found
    });
    let found = match found {
        Ok(f) => f,
        Err(_) => {
            run.stat("corpus_walk_panic", 1);
            return;
        }
    };
    for (max_sym, max_log, bytes, weights) in found {
        run.stat(if weights.is_some() { "corpus_huffman_weight_tables" } else { "corpus_sequence_tables" }, 1);
        // libzstd's descriptions are not written by our encoder, but they are valid per the RFC: the Spec must agree
        dec_case(run, max_sym, max_log, &bytes, "libzstd", true);
        if let Some(w) = weights {
            stream_dec_case(run, true, 6, 0, &w, "libzstd").ok();
        }
    }
}

// ---------------------------------------------------------------- replay

static REPLAYING: AtomicU64 = AtomicU64::new(0);
fn replaying() -> bool {
    REPLAYING.load(Ordering::Relaxed) != 0
}

fn parse_list<T: std::str::FromStr>(s: &str) -> Option<Vec<T>> {
    if s == "-" {
        return Some(vec![]);
    }
    s.split(',').map(|x| x.parse().ok()).collect()
}

/// Re-run one request line on the real code (all ops except `spec`, `enctab`, `dectab`); pushes the case(s).
pub fn replay_line(run: &mut Run, rng: &mut Rng, line: &str) -> Option<()> {
    let tok: Vec<&str> = line.split_whitespace().collect();
    if tok.first() != Some(&"fse") {
        return None;
    }
    match (tok.get(1).copied()?, &tok[2..]) {
        ("build", [ml, av, cs]) | ("norm", [ml, av, cs]) => {
            build_case(run, &parse_list::<usize>(cs)?, ml.parse().ok()?, *av != "0", false, tok[1] == "norm");
        }
        ("fromprobs", [al, ps]) => fromprobs_case(run, al.parse().ok()?, &parse_list::<i32>(ps)?, false),
        // an oracle line is replayed as the `fromprobs` case it came from, with the validity oracles on
        ("specprobs", [al, ps]) => fromprobs_case(run, al.parse().ok()?, &parse_list::<i32>(ps)?, true),
        ("next", [al, ps, sym, idx]) => next_case(run, al.parse().ok()?, &parse_list::<i32>(ps)?, sym.parse().ok()?, idx.parse().ok()?, false),
        ("dec", [ms, ml, h]) => dec_case(run, ms.parse().ok()?, ml.parse().ok()?, &unhex(h)?, "replay", false),
        ("dec1", [ml, n, h]) => {
            stream_dec_case(run, false, ml.parse().ok()?, n.parse().ok()?, &unhex(h)?, "replay").ok();
        }
        ("dec2", [ml, h]) => {
            stream_dec_case(run, true, ml.parse().ok()?, 0, &unhex(h)?, "replay").ok();
        }
        ("enc1", [ml, av, h]) => stream_case(run, rng, false, ml.parse().ok()?, *av != "0", &unhex(h)?, false),
        ("enc2", [ml, av, h]) => stream_case(run, rng, true, ml.parse().ok()?, *av != "0", &unhex(h)?, false),
        _ => return None,
    }
    Some(())
}

// ---------------------------------------------------------------- the run

pub fn run(opts: &Opts) -> Run {
    let mut run = Run::new("fse");
    let mut rng = Rng::new(opts.seed);
    let scale: usize = if opts.thorough { 10 } else { 1 };
    start_watchdog();
    // ---- one table OBJECT used again: building a table into an object that already holds one (the decoder's scratch tables
    // live across blocks and frames), or copying one into it (`reinit_from`, dictionaries), must give exactly the table a
    // fresh object gets — also when old and new table have the same accuracy log, size and number of symbols
    {
        let mut r2 = Rng::new(opts.seed ^ 0x7ab1e);
        for k in 0..(if opts.thorough { 3000 } else { 300 }) {
            let al1 = r2.range(5, 9) as u8;
            let same_shape = k % 2 == 0;
            let al2 = if same_shape { al1 } else { r2.range(5, 9) as u8 };
            let n1 = r2.range(2, 40) as usize;
            let n2 = if same_shape { n1 } else { r2.range(2, 40) as usize };
            let mut p1 = gen_valid_probs(&mut r2, al1, n1);
            let mut p2 = gen_valid_probs(&mut r2, al2, n2);
            if same_shape {
                let n = p1.len().max(p2.len());
                p1.resize(n, 0);
                p2.resize(n, 0);
            }
            let (q1, q2) = (p1.clone(), p2.clone());
            let res = guarded(move || {
                let mut fresh = FSETable::new(255);
                let a = fresh.build_from_probabilities(al2, &q2).is_ok();
                let mut used = FSETable::new(255);
                let _ = used.build_from_probabilities(al1, &q1);
                let b = used.build_from_probabilities(al2, &q2).is_ok();
                let mut copied = FSETable::new(255);
                let _ = copied.build_from_probabilities(al1, &q1);
                copied.reinit_from(&fresh);
                let key = |t: &FSETable| (t.accuracy_log, t.decode.iter().map(|e| (e.symbol, e.num_bits, e.base_line)).collect::<Vec<_>>(), t.symbol_probabilities.clone());
                (a, b, key(&fresh) == key(&used), key(&fresh) == key(&copied))
            });
            run.oracle_checks += 2;
            if let Ok((a, b, same_built, same_copied)) = res {
                if a && (!b || !same_built) {
                    run.fail("C12", "table_object_reuse", format!("building the distribution {:?} (accuracy log {}) into a table object that held {:?} (accuracy log {}) does not give the table a fresh object gets", p2, al2, p1, al1), format!("fse fromprobs {} {}", al2, p2.iter().map(|x| x.to_string()).collect::<Vec<_>>().join(",")));
                }
                if a && !same_copied {
                    run.fail("C12", "table_reinit_from", format!("reinit_from of the table for {:?} (accuracy log {}) into an object that held {:?} is not a copy of the source", p2, al2, p1), format!("fse fromprobs {} {}", al2, p2.iter().map(|x| x.to_string()).collect::<Vec<_>>().join(",")));
                }
            }
            run.stat("table_object_reuse_cases", 1);
        }
    }
    if std::env::var_os("VERIF_PANIC_TRACE").is_some() {
        // debugging aid: also print every panic location (the harness' hook is silent)
        let prev = std::panic::take_hook();
        std::panic::set_hook(Box::new(move |info| {
            eprintln!("panic: {}", info);
            prev(info);
        }));
    }

    if let Some(file) = &opts.replay {
        REPLAYING.store(1, Ordering::Relaxed);
        for line in std::fs::read_to_string(file).unwrap_or_default().lines() {
            if replay_line(&mut run, &mut rng, line).is_none() {
                run.notes.push(format!("replay: cannot replay `{}`", line));
            }
        }
        DONE.store(1, Ordering::Relaxed);
        return run;
    }

    // ---- defaults, once
    {
        tick("fse defaults");
        let ans = guarded(|| {
            let (ll, ml, of) = fse_enc::default_tables();
            let (lld, lll, mld, mll, ofd, ofl) = ruzstd::verif_hooks::seqcodes::default_distributions();
            // the decoder tables of a fresh scratch carry the production max symbols
            let scratch = ruzstd::verif_hooks::sections::DecoderScratch::new(1024);
            let one = |enc: &FseEncTable, max_sym: u8, al: u8, dist: &[i32]| -> String {
                let mut t = FSETable::new(max_sym);
                let d = match t.build_from_probabilities(al, dist) {
                    Ok(()) => dec_digest(&t),
                    Err(e) => show_table_err(&e),
                };
                format!("{} {}", enc_digest(enc), d)
            };
            format!(
                "ok {} {} {}",
                one(&ll, scratch.fse.literal_lengths.verif_max_symbol(), lll, lld),
                one(&ml, scratch.fse.match_lengths.verif_max_symbol(), mll, mld),
                one(&of, scratch.fse.offsets.verif_max_symbol(), ofl, ofd)
            )
        });
        run.case("fse defaults".into(), ans.unwrap_or_else(|_| "fault".into()));
        // oracle: the default encoder tables and the default decoder tables are the same automata
        let r = guarded(|| {
            let (ll, ml, of) = fse_enc::default_tables();
            let (lld, lll, mld, mll, ofd, ofl) = ruzstd::verif_hooks::seqcodes::default_distributions();
            let mut res = vec![];
            for (name, enc, al, dist) in [("ll", &ll, lll, lld), ("ml", &ml, mll, mld), ("of", &of, ofl, ofd)] {
                let mut t = FSETable::new(255);
                t.build_from_probabilities(al, dist).map_err(|e| format!("{:?}", e))?;
                tables_agree(&t, &fse_enc::table_states(enc)).map_err(|e| format!("{}: {}", name, e))?;
                res.push(name);
            }
            Ok::<_, String>(res)
        });
        run.oracle_checks += 3;
        match r {
            Ok(Ok(_)) => {}
            Ok(Err(e)) => run.fail("C12", "default_tables_mismatch", e, "fse defaults".into()),
            Err(e) => run.fail("C12", "default_tables_mismatch", e, "fse defaults".into()),
        }
    }

    // ---- corpus first: FSE table descriptions (and Huffman weight streams) produced by libzstd
    {
        let n_frames = 60 * scale;
        let max = if opts.thorough { 200_000 } else { 40_000 };
        for i in 0..n_frames {
            let kind = ["text", "lowalpha", "mixed", "runs", "periodic", "sparse", "repeatfar", "text"][i % 8];
            let len = crate::gen::pick_len(&mut rng, max).max(200);
            let d = crate::gen::data(&mut rng, kind, len);
            let p = crate::gen::zparams(&mut rng);
            let f = crate::gen::zstd_frame(&d, &p, None);
            run.stat("corpus_frames", 1);
            libzstd_frame_tables(&mut run, &f);
        }
    }

    // pools filled by the build cases and reused below
    let mut descs: Vec<(Vec<u8>, u8, u8)> = vec![]; // (description, al, production decoder max symbol)
    let mut dists: Vec<(u8, Vec<i32>)> = vec![]; // valid (al, probs)

    // ---- build: production parameters, EVERY alphabet size, every shape
    let mut n_build = 0u64;
    for p in PROD.iter() {
        for nsym in 1..=p.max_syms {
            for shape in SHAPES.iter() {
                for rep in 0..(3 * scale) {
                    let total = if rep == 0 { nsym.max(2) * 3 } else { *rng.pick(&TOTALS) };
                    let counts = gen_counts(&mut rng, nsym, shape, total);
                    run.stat(&format!("build_shape_{}", shape), 1);
                    run.stat(&format!("build_param_{}", p.name), 1);
                    n_build += 1;
                    if let Some(b) = build_case(&mut run, &counts, p.max_log, p.avoid, true, n_build % 5 == 0) {
                        run.stat(&format!("build_al_{}", b.al), 1);
                        if descs.len() < 4000 * scale && (rep == 0 || rng.chance(1, 3)) {
                            descs.push((b.desc.clone(), b.al, p.dec_max_symbol));
                        }
                        if dists.len() < 3000 * scale && rng.chance(1, 4) {
                            dists.push((b.al, b.probs.clone()));
                        }
                    }
                }
            }
        }
    }
    // the single-symbol-0 histogram (finding F4) for every production parameter set and several lengths
    for p in PROD.iter() {
        for n in [1usize, 2, 100, 100_000] {
            build_case(&mut run, &[n], p.max_log, p.avoid, true, true);
            n_build += 1;
        }
    }
    // ---- build: other parameter sets (max_log 5..=12, mostly avoid = false), alphabets up to 256
    for i in 0..(1500 * scale) {
        let max_log = if i % 40 == 0 { rng.range(10, 12) } else { rng.range(5, 9) } as u8;
        let avoid = rng.chance(1, 5);
        let nsym = match rng.below(10) {
            0 => rng.range(54, 256),
            1 => 256,
            2 => rng.range(1, 3),
            _ => rng.range(1, 53),
        } as usize;
        let shape = SHAPES[i % SHAPES.len()];
        let total = *rng.pick(&TOTALS);
        let counts = gen_counts(&mut rng, nsym, shape, total);
        run.stat(&format!("build_shape_{}", shape), 1);
        run.stat("build_param_other", 1);
        n_build += 1;
        if let Some(b) = build_case(&mut run, &counts, max_log, avoid, false, i % 5 == 0) {
            run.stat(&format!("build_al_{}", b.al), 1);
            if rng.chance(1, 4) {
                descs.push((b.desc.clone(), b.al, 255));
            }
            if b.al <= 9 && rng.chance(1, 6) {
                dists.push((b.al, b.probs.clone()));
            }
        }
    }
    // degenerate histograms: empty, all zero
    for counts in [vec![], vec![0usize], vec![0, 0, 0]] {
        build_case(&mut run, &counts, 9, true, false, true);
        n_build += 1;
    }
    run.stat("build_cases", n_build);

    // ---- fromprobs (i): valid random distributions, al 5..=9, with -1 entries and zero runs
    for i in 0..(2500 * scale) {
        let al = (5 + i % 5) as u8;
        let nsym = match rng.below(4) {
            0 => rng.range(1, 8),
            1 => rng.range(8, 53),
            2 => rng.range(1, 53),
            _ => rng.range(30, 256),
        } as usize;
        let probs = gen_valid_probs(&mut rng, al, nsym);
        fromprobs_case(&mut run, al, &probs, true);
        if i % 3 == 0 {
            dists.push((al, probs));
        }
    }
    // valid distributions with a large "less than one" zone (the `while position >= negative_idx` loop runs long)
    for i in 0..(600 * scale) {
        let al = (5 + i % 5) as u8;
        let probs = gen_valid_probs_many_neg(&mut rng, al);
        fromprobs_case(&mut run, al, &probs, true);
        run.stat("fromprobs_many_minus_one", 1);
    }
    // a few valid ones for al 10..=12 and al 1..=4 (outside what the format allows, inside what the code accepts)
    for i in 0..(60 * scale) {
        let al = [10u8, 11, 12, 1, 2, 3, 4][i % 7];
        let nsym = rng.range(1, 60) as usize;
        let probs = gen_valid_probs(&mut rng, al, nsym);
        fromprobs_case(&mut run, al, &probs, al >= 5);
    }
    // ---- fromprobs (ii): ALL valid distributions for al = 5 with <= 4 non-zero entries (thorough) / a sample (quick)
    {
        let all = all_al5_distributions();
        run.stat("fromprobs_al5_enumeration_size", all.len() as u64);
        if opts.thorough {
            for p in &all {
                fromprobs_case(&mut run, 5, p, true);
            }
            run.stat("fromprobs_al5_exhaustive", all.len() as u64);
        } else {
            for _ in 0..3000 {
                let p = &all[rng.below(all.len() as u64) as usize];
                fromprobs_case(&mut run, 5, p, true);
            }
            run.stat("fromprobs_al5_sampled", 3000);
        }
        // the zero-run repeat boundary (runs of 3, 4, 6, 7 zeros) on a sample
        for _ in 0..(300 * scale) {
            let mut p = all[rng.below(all.len() as u64) as usize].clone();
            let at = rng.below(p.len() as u64) as usize;
            let k = *rng.pick(&[2usize, 3, 4, 5, 6, 7, 9]);
            for _ in 0..k {
                p.insert(at, 0);
            }
            fromprobs_case(&mut run, 5, &p, true);
        }
    }
    // ---- fromprobs (iii): invalid distributions.  NEVER: exactly 2^al entries equal to -1 together with a
    // positive entry (the decoder's `while position >= negative_idx` then spins forever), huge positives.
    for i in 0..(1500 * scale) {
        let al = if i % 10 == 0 { rng.range(10, 12) } else { rng.range(5, 9) } as u8;
        let size = 1i64 << al;
        let nsym = rng.range(1, 40) as usize;
        let mut probs = gen_valid_probs(&mut rng, al, nsym);
        let mut al_used = al;
        let class = match i % 9 {
            0 => {
                // sum too small
                let k = rng.below(probs.len() as u64) as usize;
                if probs[k] > 1 {
                    probs[k] -= rng.range(1, probs[k] as u64 - 1) as i32;
                } else {
                    probs[k] = 0;
                }
                "sum_small"
            }
            1 => {
                // sum too big (bounded: at most 4 * size in total)
                let k = rng.below(probs.len() as u64) as usize;
                let add = rng.range(1, (size as u64) * 2) as i32;
                probs[k] = probs[k].max(0) + add;
                "sum_big"
            }
            2 => {
                let k = rng.below(probs.len() as u64) as usize;
                probs[k] = -(rng.range(2, 40) as i32);
                "below_minus_one"
            }
            3 => {
                // too many -1, no positive entry at all (with a positive entry and exactly 2^al of them the real decoder hangs)
                let n = match rng.below(3) {
                    0 => size,
                    1 => size + 1,
                    _ => size + rng.range(2, 20) as i64,
                };
                if al <= 8 {
                    probs = vec![-1; n as usize];
                    if probs.len() > 256 {
                        probs.truncate(256 + rng.below(3) as usize);
                    }
                } else {
                    probs = vec![-1; 200];
                }
                "too_many_minus_one"
            }
            4 => {
                // MORE than 2^al entries -1 plus positives: the decoder panics in its first loop, before the spread loop
                let a = 5u8;
                al_used = a;
                probs = vec![-1; 33 + rng.below(5) as usize];
                probs.push(rng.range(1, 8) as i32);
                if rng.chance(1, 2) {
                    probs.insert(0, rng.range(1, 8) as i32);
                }
                "too_many_minus_one_and_positive"
            }
            5 => {
                al_used = 0;
                "al_zero"
            }
            6 => {
                probs = vec![];
                "empty"
            }
            7 => {
                // 2^al - 1 entries -1 and positives: legal corner (size - 1 is the most that can coexist with a positive)
                let a = rng.range(5, 7) as u8;
                al_used = a;
                probs = vec![-1; (1usize << a) - 1];
                let at = rng.below(probs.len() as u64 + 1) as usize;
                probs.insert(at, if rng.chance(1, 2) { 1 } else { rng.range(2, 5) as i32 });
                "max_minus_one_plus_positive"
            }
            _ => {
                // more than 256 symbols
                while probs.len() < 257 {
                    probs.push(0);
                }
                if rng.chance(1, 2) {
                    probs.push(1);
                }
                "over_256_symbols"
            }
        };
        debug_assert!(al_used == 0 || !(probs.iter().filter(|p| **p == -1).count() == (1usize << al_used) && probs.iter().any(|p| *p > 0)));
        run.stat(&format!("fromprobs_invalid_{}", class), 1);
        fromprobs_case(&mut run, al_used, &probs, false);
    }

    // ---- next: random valid distributions, random (symbol, index); ALL indexes of some tables
    for i in 0..(2500 * scale) {
        let (al, probs) = dists[rng.below(dists.len() as u64) as usize].clone();
        if al > 9 {
            continue;
        }
        let size = 1usize << al;
        let present: Vec<usize> = (0..probs.len()).filter(|s| probs[*s] != 0).collect();
        if i % 25 == 0 {
            // deliberately illegal: absent symbol, or index beyond the table
            if rng.chance(1, 2) {
                let absent: Vec<usize> = (0..256).filter(|s| *s >= probs.len() || probs[*s] == 0).collect();
                if absent.is_empty() {
                    continue;
                }
                next_case(&mut run, al, &probs, *rng.pick(&absent) as u8, rng.below(size as u64) as usize, false);
            } else {
                next_case(&mut run, al, &probs, *rng.pick(&present) as u8, size + rng.below(size as u64 * 2) as usize, false);
            }
        } else {
            let sym = *rng.pick(&present) as u8;
            let idx = rng.below(size as u64) as usize;
            next_case(&mut run, al, &probs, sym, idx, true);
        }
    }
    for _ in 0..(4 * scale) {
        // all (symbol, index) pairs of a small table
        let al = rng.range(5, 6) as u8;
        let nsym = rng.range(2, 12) as usize;
        let probs = gen_valid_probs(&mut rng, al, nsym);
        for sym in 0..probs.len() {
            if probs[sym] == 0 {
                continue;
            }
            for idx in 0..(1usize << al) {
                next_case(&mut run, al, &probs, sym as u8, idx, true);
            }
        }
        run.stat("next_full_tables", 1);
    }

    // ---- dec / spec: descriptions
    // descriptions of random valid tables with -1 entries (the normaliser never produces those)
    for _ in 0..(600 * scale) {
        let al = rng.range(5, 9) as u8;
        let nsym = rng.range(1, 60) as usize;
        let probs = gen_valid_probs(&mut rng, al, nsym);
        let p2 = probs.clone();
        if let Ok(d) = guarded(move || fse_enc::write_table(&fse_enc::build_table_from_probabilities(&p2, al))) {
            // oracle (b) for these too.  The reader always fetches the long form of a value and gives one bit back,
            // so a description that ends on a byte boundary with a short-form value (a final `-1`) cannot be read
            // when nothing follows it; in a frame something always follows, hence one trailing byte here.
            run.oracle_checks += 1;
            let mut with_tail = d.clone();
            with_tail.push(0);
            let mut t = FSETable::new(255);
            match guarded(|| t.build_decoder(&with_tail, al).map(|n| (n, t.symbol_probabilities.clone(), t.accuracy_log))) {
                Ok(Ok((n, sp, a))) if n == d.len() && sp.as_slice() == trim_zeros(&probs) && a == al => {}
                other => run.fail(
                    "C12",
                    "description_roundtrip",
                    format!("description of al {} probs {:?} (+ one trailing byte) does not read back: {:?}", al, probs, other.map(|r| r.map_err(|e| format!("{:?}", e)))),
                    format!("fse fromprobs {} {}", al, show_ints(&probs)),
                ),
            }
            let mut t = FSETable::new(255);
            if !matches!(guarded(|| t.build_decoder(&d, al)), Ok(Ok(_))) {
                run.stat("description_unreadable_without_trailing_byte", 1);
                if run.notes.len() < 3 {
                    run.notes.push(format!("build_decoder needs a byte after this write_table output (short-form last value on a byte boundary): al {} probs {} desc {}", al, show_ints(&probs), hex(&d)));
                }
            }
            descs.push((d, al, *rng.pick(&[35u8, 52, 31, 255])));
        }
    }
    run.stat("dec_description_pool", descs.len() as u64);
    let n_desc = descs.len();
    for k in 0..(n_desc.min(2500 * scale)) {
        let (d, al, prod_max_sym) = descs[if n_desc <= 2500 * scale { k } else { rng.below(n_desc as u64) as usize }].clone();
        // valid, with 0..3 random trailing bytes, production limits; the Spec must agree on these
        let mut v = d.clone();
        let extra = rng.below(4) as usize;
        v.extend(rng.bytes(extra));
        let max_log = if rng.chance(1, 2) { al } else { rng.range(al as u64, 12) as u8 };
        dec_case(&mut run, 255, max_log, &v, "valid", true);
        match k % 6 {
            0 => dec_case(&mut run, prod_max_sym, max_log, &v, "valid_prodsym", true),
            1 => {
                // too small a symbol limit
                let ms = *rng.pick(&[0u8, 1, 5, 11, 31, 35, 52]);
                dec_case(&mut run, ms, max_log, &v, "smallsym", true)
            }
            2 => {
                // accuracy log limit below the table's
                dec_case(&mut run, 255, rng.range(0, al as u64 - 1) as u8, &v, "smalllog", false)
            }
            3 => {
                // truncated
                let cut = rng.below(d.len() as u64) as usize;
                dec_case(&mut run, 255, max_log, &d[..cut], "truncated", false)
            }
            4 => {
                // one bit flipped
                let mut m = d.clone();
                let i = rng.below(m.len() as u64) as usize;
                m[i] ^= 1 << rng.below(8);
                m.extend(rng.bytes(extra));
                dec_case(&mut run, *rng.pick(&[255u8, 255, 52, 35, 31]), *rng.pick(&[6u8, 8, 9, 9, 12]), &m, "bitflip", false)
            }
            _ => {
                // one byte replaced / tail replaced by garbage
                let mut m = d.clone();
                let i = rng.below(m.len() as u64) as usize;
                if rng.chance(1, 2) {
                    m[i] = rng.next() as u8;
                } else {
                    m.truncate(i);
                    let k = rng.range(1, 12) as usize;
                    m.extend(rng.bytes(k));
                }
                dec_case(&mut run, *rng.pick(&[255u8, 255, 52, 35, 31]), *rng.pick(&[6u8, 8, 9, 9, 12]), &m, "mutated", false)
            }
        }
    }
    for _ in 0..(1500 * scale) {
        let len = rng.below(24) as usize;
        let mut v = rng.bytes(len);
        if !v.is_empty() && rng.chance(2, 3) {
            // keep the accuracy log nibble small so that the body is reached
            v[0] = (v[0] & 0xf0) | rng.below(5) as u8;
        }
        if rng.chance(1, 8) {
            for b in v.iter_mut().skip(1) {
                *b = if rng.chance(1, 2) { 0xff } else { 0 };
            }
        }
        dec_case(&mut run, *rng.pick(&[255u8, 255, 52, 35, 31, 0]), *rng.pick(&[5u8, 6, 8, 9, 9, 12, 20]), &v, "random", false);
    }

    // ---- streams: enc1 / dec1 over alphabets of 1..=53 symbols, enc2 / dec2 over weights 0..=11
    let n_enc1 = 1200 * scale;
    for i in 0..n_enc1 {
        let nsym = 1 + i % 53;
        let shape = SHAPES[(i / 53 + i) % SHAPES.len()];
        let total = match rng.below(10) {
            0 => rng.range(1, 4),
            1..=5 => rng.range(5, 300),
            6..=8 => rng.range(300, 1000),
            _ => rng.range(1000, 2000),
        } as usize;
        // alphabet: symbols 0..nsym (as the sequence coder uses them), sometimes sparse byte values
        let alphabet: Vec<u8> = if rng.chance(4, 5) {
            (0..nsym as u8).collect()
        } else {
            let mut a: Vec<u8> = (0..=255u8).collect();
            shuffle(&mut rng, &mut a);
            a.truncate(nsym);
            a.sort();
            a
        };
        let mut data = gen_data(&mut rng, nsym, shape, total, &alphabet);
        data.truncate(2000);
        let (max_log, avoid) = if rng.chance(4, 5) {
            let p = if nsym <= 32 { *rng.pick(&[PROD[0], PROD[1], PROD[2]]) } else if nsym <= 36 { *rng.pick(&[PROD[0], PROD[1]]) } else { PROD[1] };
            (p.max_log, p.avoid)
        } else {
            (rng.range(5, 12) as u8, rng.chance(1, 3))
        };
        run.stat(&format!("enc1_shape_{}", shape), 1);
        stream_case(&mut run, &mut rng, false, max_log, avoid, &data, i % 3 == 0);
    }
    let n_enc2 = 1200 * scale;
    for i in 0..n_enc2 {
        let nsym = 1 + i % 12;
        let shape = SHAPES[(i / 12 + i) % SHAPES.len()];
        let total = match rng.below(12) {
            0 => rng.range(0, 4),
            1..=6 => rng.range(4, 60),
            _ => rng.range(60, 255),
        } as usize;
        let alphabet: Vec<u8> = if rng.chance(3, 4) {
            (0..nsym as u8).collect()
        } else {
            let mut a: Vec<u8> = (0..12u8).collect();
            shuffle(&mut rng, &mut a);
            a.truncate(nsym);
            a.sort();
            a
        };
        let mut data = if total == 0 { vec![] } else { gen_data(&mut rng, nsym, shape, total, &alphabet) };
        data.truncate(255);
        let (max_log, avoid) = if rng.chance(5, 6) { (6u8, true) } else { (rng.range(5, 9) as u8, rng.chance(1, 2)) };
        run.stat(&format!("enc2_shape_{}", shape), 1);
        run.stat(if data.len() < 4 { "enc2_short_input" } else { "enc2_regular_input" }, 1);
        stream_case(&mut run, &mut rng, true, max_log, avoid, &data, i % 3 == 0);
    }
    // garbage straight into the stream decoders
    for _ in 0..(400 * scale) {
        let len = rng.below(30) as usize;
        let mut v = rng.bytes(len);
        if !v.is_empty() {
            v[0] = (v[0] & 0xf0) | rng.below(3) as u8;
        }
        let inter = rng.chance(1, 2);
        let n = rng.below(50) as usize;
        stream_dec_case(&mut run, inter, *rng.pick(&[6u8, 9, 12]), n, &v, "garbage").ok();
    }

    DONE.store(1, Ordering::Relaxed);
    let n = run.cases.len();
    for i in [0usize, 5, n / 3, n / 2, n - 1] {
        if i < n {
            let c = &run.cases[i];
            run.samples.push(format!("{} => {}", &c[..c.len().min(300)], run.impl_out[i]));
        }
    }
    run
}
