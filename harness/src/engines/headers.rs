//! Engine `headers` (C14): block / literals-section / frame header parsers and writers of the REAL
//! code dumped over (samples of) their domains for comparison with the Lean model, plus
//! implementation-only oracles: an independent reading of the RFC bit fields written here in Rust,
//! and parse(write(x)) = x on the real code (through the hooked types and through the public
//! compressor driven by a scripted `Matcher`).
use crate::util::*;
use ruzstd::encoding::{CompressionLevel, FrameCompressor, Matcher, Sequence};
use ruzstd::verif_hooks::bits::BitWriter;
use ruzstd::verif_hooks::headers as h;

// ------------------------------------------------------------------------------------------ block
pub fn blk(bytes: &[u8]) -> String {
    let r = guarded(|| {
        let mut d = h::new_block_decoder();
        d.read_block_header(bytes)
    });
    use ruzstd::decoding::errors::{BlockHeaderReadError as E, BlockSizeError as S, BlockTypeError as T};
    match r {
        Err(_) => "fault".into(),
        Ok(Ok((hd, used))) => {
            let t = match hd.block_type {
                h::BlockType::Raw => 0,
                h::BlockType::RLE => 1,
                h::BlockType::Compressed => 2,
                h::BlockType::Reserved => 3,
            };
            format!("ok {} {} {} {} {}", hd.last_block as u8, t, hd.decompressed_size, hd.content_size, used)
        }
        Ok(Err(E::ReadError(_))) => "err read".into(),
        Ok(Err(E::FoundReservedBlock)) => "err reserved".into(),
        Ok(Err(E::BlockSizeError(S::BlockSizeTooLarge { size }))) => format!("err toolarge {}", size),
        Ok(Err(E::BlockTypeError(T::InvalidBlocktypeNumber { num }))) => format!("err badtype {}", num),
        Ok(Err(_)) => "err other".into(),
    }
}

fn btype(t: u8) -> h::BlockType {
    match t {
        0 => h::BlockType::Raw,
        1 => h::BlockType::RLE,
        2 => h::BlockType::Compressed,
        _ => h::BlockType::Reserved,
    }
}

pub fn blk_enc(last: bool, t: u8, size: u32) -> Result<Vec<u8>, String> {
    guarded(|| {
        let mut out = Vec::new();
        h::EncBlockHeader { last_block: last, block_type: btype(t), block_size: size }.serialize(&mut out);
        out
    })
}

fn okhex(r: &Result<Vec<u8>, String>) -> String {
    match r {
        Ok(b) => format!("ok {}", hex(b)),
        Err(_) => "fault".into(),
    }
}

/// RFC 8878 §3.1.1.2, written independently of the crate
fn rfc_block(b: [u8; 3]) -> (bool, u8, u32) {
    let v = b[0] as u32 | (b[1] as u32) << 8 | (b[2] as u32) << 16;
    (v & 1 == 1, ((v >> 1) & 3) as u8, v >> 3)
}

// ------------------------------------------------------------------------------------------ literals
fn opt<T: std::fmt::Display>(o: Option<T>) -> String {
    match o {
        Some(v) => v.to_string(),
        None => "-".into(),
    }
}

fn lit_ty(t: &h::LiteralsSectionType) -> u8 {
    match t {
        h::LiteralsSectionType::Raw => 0,
        h::LiteralsSectionType::RLE => 1,
        h::LiteralsSectionType::Compressed => 2,
        h::LiteralsSectionType::Treeless => 3,
    }
}

pub fn lit(prev_streams: Option<u8>, bytes: &[u8]) -> String {
    let r = guarded(|| {
        let mut s = h::LiteralsSection::new();
        s.num_streams = prev_streams;
        let r = s.parse_from_header(bytes);
        (r, s)
    });
    use ruzstd::decoding::errors::LiteralsSectionParseError as E;
    match r {
        Err(_) => "fault".into(),
        Ok((Ok(used), s)) => format!("ok {} {} {} {} {}", lit_ty(&s.ls_type), s.regenerated_size, opt(s.compressed_size), opt(s.num_streams), used),
        Ok((Err(E::IllegalLiteralSectionType { got }), _)) => format!("err illegal {}", got),
        Ok((Err(E::NotEnoughBytes { have, need }), _)) => format!("err notenough {} {}", have, need),
        Ok((Err(e), _)) => {
            // GetBitsError is not nameable from outside the crate: take the numbers from Debug
            let d = format!("{:?}", e);
            let nums: Vec<String> = d.split(|c: char| !c.is_ascii_digit()).filter(|x| !x.is_empty()).map(|x| x.to_string()).collect();
            if d.contains("NotEnoughRemainingBits") && nums.len() == 2 {
                format!("err getbits {} {}", nums[0], nums[1])
            } else {
                "err other".into()
            }
        }
    }
}

/// RFC 8878 §3.1.1.3.1.1 Literals_Section_Header, written independently of the crate:
/// (type, regenerated, compressed, streams, header bytes) from the little-endian value of the header
fn rfc_lit(bytes: &[u8]) -> Option<(u8, u32, Option<u32>, Option<u8>, usize)> {
    if bytes.is_empty() {
        return None;
    }
    let mut v: u64 = 0;
    for (i, b) in bytes.iter().take(5).enumerate() {
        v |= (*b as u64) << (8 * i);
    }
    let t = (v & 3) as u8;
    let sf = ((v >> 2) & 3) as u8;
    let (regen, comp, streams, n): (u64, Option<u64>, Option<u8>, usize) = if t < 2 {
        match sf {
            0 | 2 => ((v >> 3) & 0x1f, None, None, 1),
            1 => ((v >> 4) & 0xfff, None, None, 2),
            _ => ((v >> 4) & 0xfffff, None, None, 3),
        }
    } else {
        match sf {
            0 => ((v >> 4) & 0x3ff, Some((v >> 14) & 0x3ff), Some(1), 3),
            1 => ((v >> 4) & 0x3ff, Some((v >> 14) & 0x3ff), Some(4), 3),
            2 => ((v >> 4) & 0x3fff, Some((v >> 18) & 0x3fff), Some(4), 4),
            _ => ((v >> 4) & 0x3ffff, Some((v >> 22) & 0x3ffff), Some(4), 5),
        }
    };
    if bytes.len() < n {
        return None;
    }
    Some((t, regen as u32, comp.map(|c| c as u32), streams, n))
}

/// the write sequence of `raw_literals` replayed on the real BitWriter
fn lit_raw_replay(n: usize) -> Result<Vec<u8>, String> {
    guarded(|| {
        let mut w = BitWriter::new();
        w.write_bits(0, 2);
        w.write_bits(0b11, 2);
        w.write_bits(n as u32 as u64, 20);
        w.append_bytes(&[]);
        w.dump()
    })
}

fn size_format(n: usize) -> Option<(u64, usize)> {
    // thresholds are NOT taken from here by the model (it reads them from the source text); this copy
    // only drives the replay of the write sequence on the real BitWriter
    match n {
        0..=5 => Some((0, 10)),
        6..=1023 => Some((1, 10)),
        1024..=16383 => Some((2, 14)),
        16384..=262143 => Some((3, 18)),
        _ => None,
    }
}

/// the write sequence of `compress_literals` (header part) replayed on the real BitWriter
fn lit_comp_replay(new_table: bool, regen: usize, comp: usize) -> Result<Vec<u8>, String> {
    guarded(|| {
        let (sf, sb) = size_format(regen).expect("too many literals");
        let mut w = BitWriter::new();
        w.write_bits(if new_table { 2 } else { 3 }, 2);
        w.write_bits(sf, 2);
        w.write_bits(regen as u32 as u64, sb);
        w.write_bits(comp as u64, sb);
        w.dump()
    })
}

/// … and with the placeholder + change_bits patch, as `compress_literals` really does it
fn lit_patch_replay(new_table: bool, regen: usize, plen: usize, fill: u8) -> Result<Vec<u8>, String> {
    guarded(|| {
        let (sf, sb) = size_format(regen).expect("too many literals");
        let mut w = BitWriter::new();
        w.write_bits(if new_table { 2 } else { 3 }, 2);
        w.write_bits(sf, 2);
        w.write_bits(regen as u32 as u64, sb);
        let size_index = w.index();
        w.write_bits(0, sb);
        let before = w.index();
        w.append_bytes(&vec![fill; plen]);
        let encoded_len = (w.index() - before) / 8;
        w.change_bits(size_index, encoded_len as u64, sb);
        w.dump()
    })
}

// ------------------------------------------------------------------------------------------ frame
pub fn frame(bytes: &[u8]) -> String {
    let r = guarded(|| h::read_frame_header(bytes));
    use ruzstd::decoding::errors::{FrameDescriptorError as D, FrameHeaderError as F, ReadFrameHeaderError as E};
    match r {
        Err(_) => "fault".into(),
        Ok(Ok((hd, used))) => {
            let w = match guarded(|| hd.window_size()) {
                Err(_) => "win=fault".to_string(),
                Ok(Ok(w)) => format!("win=ok:{}", w),
                Ok(Err(F::WindowTooBig { got })) => format!("win=toobig:{}", got),
                Ok(Err(F::WindowTooSmall { got })) => format!("win=toosmall:{}", got),
                Ok(Err(_)) => "win=other".into(),
            };
            format!("ok {} {} {} {} {}", hd.descriptor.0, opt(hd.dictionary_id()), hd.frame_content_size(), used, w)
        }
        Ok(Err(E::MagicNumberReadError(_))) => "err magic".into(),
        Ok(Err(E::FrameDescriptorReadError(_))) => "err desc".into(),
        Ok(Err(E::WindowDescriptorReadError(_))) => "err window".into(),
        Ok(Err(E::DictionaryIdReadError(_))) => "err dictid".into(),
        Ok(Err(E::FrameContentSizeReadError(_))) => "err fcs".into(),
        Ok(Err(E::SkipFrame { magic_number, length })) => format!("err skip {} {}", magic_number, length),
        Ok(Err(E::BadMagicNumber(m))) => format!("err badmagic {}", m),
        Ok(Err(E::InvalidFrameDescriptor(D::InvalidFrameContentSizeFlag { got }))) => format!("err flag {}", got),
        Ok(Err(_)) => "err other".into(),
    }
}

/// RFC 8878 §3.1.1.1 written independently: (dict id, fcs, header length incl. magic, window) of a
/// complete header with the standard magic number
pub fn rfc_frame(bytes: &[u8]) -> Option<(Option<u32>, u64, usize, u64, bool)> {
    if bytes.len() < 5 || bytes[0..4] != [0x28, 0xB5, 0x2F, 0xFD] {
        return None;
    }
    let d = bytes[4];
    let fcs_flag = d >> 6;
    let single = (d >> 5) & 1 == 1;
    let did_flag = d & 3;
    let mut p = 5;
    let mut window = 0u64;
    if !single {
        let wd = *bytes.get(p)?;
        p += 1;
        let base = 1u64 << (10 + (wd >> 3));
        window = base + (base / 8) * (wd & 7) as u64;
    }
    let dlen = [0usize, 1, 2, 4][did_flag as usize];
    let mut did = 0u32;
    for i in 0..dlen {
        did |= (*bytes.get(p + i)? as u32) << (8 * i);
    }
    p += dlen;
    let flen = match fcs_flag {
        0 => {
            if single {
                1
            } else {
                0
            }
        }
        1 => 2,
        2 => 4,
        _ => 8,
    };
    let mut fcs = 0u64;
    for i in 0..flen {
        fcs |= (*bytes.get(p + i)? as u64) << (8 * i);
    }
    if flen == 2 {
        fcs += 256;
    }
    p += flen;
    if single {
        window = fcs;
    }
    Some((if dlen > 0 && did != 0 { Some(did) } else { None }, fcs, p, window, single))
}

pub fn frame_enc(fcs: Option<u64>, single: bool, checksum: bool, dict: Option<u64>, window: Option<u64>) -> Result<Vec<u8>, String> {
    guarded(|| {
        let mut out = Vec::new();
        h::EncFrameHeader { frame_content_size: fcs, single_segment: single, content_checksum: checksum, dictionary_id: dict, window_size: window }.serialize(&mut out);
        out
    })
}

// ------------------------------------------------------------------------------------------ scripted matcher
/// A user-supplied `Matcher` whose output is fixed by a script: per block `lits` literals followed by
/// one match of `mlen` bytes at offset `lits` (mlen = 0: the whole block is literals).
pub struct ScriptMatcher {
    pub window: u64,
    pub blocks: Vec<(usize, usize)>,
    pub next: usize,
    pub cur: usize,
    pub last: Vec<u8>,
}
impl Matcher for ScriptMatcher {
    fn get_next_space(&mut self) -> Vec<u8> {
        let n = self.blocks.get(self.next).map(|(l, m)| l + m).unwrap_or(16);
        vec![0; n]
    }
    fn get_last_space(&mut self) -> &[u8] {
        &self.last
    }
    fn commit_space(&mut self, space: Vec<u8>) {
        self.last = space;
        self.cur = self.next;
        self.next += 1;
    }
    fn skip_matching(&mut self) {}
    fn start_matching(&mut self, mut handle_sequence: impl for<'a> FnMut(Sequence<'a>)) {
        let (l, m) = self.blocks[self.cur];
        if m == 0 {
            handle_sequence(Sequence::Literals { literals: &self.last[..] });
        } else {
            handle_sequence(Sequence::Triple { literals: &self.last[..l], offset: l, match_len: m });
        }
    }
    fn reset(&mut self, _level: CompressionLevel) {
        self.next = 0;
        self.cur = 0;
        self.last.clear();
    }
    fn window_size(&self) -> u64 {
        self.window
    }
}

/// block data for the script: `lits` bytes over an alphabet of `alpha` values, then the first `mlen` of them again
fn script_block(rng: &mut Rng, lits: usize, mlen: usize, alpha: u64, skew: bool) -> Vec<u8> {
    let mut v: Vec<u8> = (0..lits)
        .map(|_| {
            if skew {
                // geometric-ish: half the mass on symbol 0, a quarter on 1, …
                let r = rng.next();
                ((r.trailing_zeros() as u64).min(alpha - 1)) as u8
            } else {
                rng.below(alpha) as u8
            }
        })
        .collect();
    if lits >= 2 && v.iter().all(|x| *x == v[0]) {
        v[1] = v[0].wrapping_add(1); // avoid the whole-block RLE shortcut
    }
    // an overlapping copy from offset `lits`
    for i in 0..mlen {
        let b = v[i % lits.max(1)];
        v.push(b);
    }
    v
}

pub fn compress_script(window: u64, blocks: &[(usize, usize)], data: &[u8]) -> Result<Vec<u8>, String> {
    guarded(|| {
        let m = ScriptMatcher { window, blocks: blocks.to_vec(), next: 0, cur: 0, last: vec![] };
        let mut out = Vec::new();
        let mut c = FrameCompressor::new_with_matcher(m, CompressionLevel::Fastest);
        c.set_source(data);
        c.set_drain(&mut out);
        c.compress();
        out
    })
}

/// walk a frame written by the compressor with the REAL parsers: (frame header bytes, per block: (block header bytes,
/// block header, literals header bytes + parsed fields if the block is compressed))
pub struct Walked {
    pub header_len: usize,
    pub blocks: Vec<(Vec<u8>, u8, u32, Option<(Vec<u8>, u8, u32, Option<u32>)>)>,
}
pub fn walk(frame: &[u8]) -> Option<Walked> {
    let (_, hl) = h::read_frame_header(frame).ok()?;
    let mut p = hl as usize;
    let mut blocks = vec![];
    loop {
        let hb = frame.get(p..p + 3)?.to_vec();
        let mut d = h::new_block_decoder();
        let (bh, _) = d.read_block_header(&hb[..]).ok()?;
        p += 3;
        let t = match bh.block_type {
            h::BlockType::Raw => 0,
            h::BlockType::RLE => 1,
            h::BlockType::Compressed => 2,
            h::BlockType::Reserved => 3,
        };
        let lit = if t == 2 {
            let mut s = h::LiteralsSection::new();
            let body = frame.get(p..p + bh.content_size as usize)?;
            let used = s.parse_from_header(body).ok()? as usize;
            Some((body[..used].to_vec(), lit_ty(&s.ls_type), s.regenerated_size, s.compressed_size))
        } else {
            None
        };
        blocks.push((hb, t, bh.content_size, lit));
        p += bh.content_size as usize;
        if bh.last_block {
            break;
        }
    }
    Some(Walked { header_len: hl as usize, blocks })
}


/// answer of the real code to one `headers …` request line (for `bin/check C14 --replay`)
pub fn replay_line(line: &str) -> Option<String> {
    let t: Vec<&str> = line.split(' ').collect();
    let n = |i: usize| t.get(i).and_then(|x| x.parse::<u64>().ok());
    let o = |i: usize| -> Option<Option<u64>> { t.get(i).map(|x| if *x == "-" { None } else { x.parse::<u64>().ok() }) };
    match t.get(1).copied()? {
        "blk" => Some(blk(&unhex(t.get(2)?)?)),
        "blk_enc" => Some(okhex(&blk_enc(n(2)? != 0, n(3)? as u8, n(4)? as u32))),
        "lit" => Some(lit(o(2)?.map(|x| x as u8), &unhex(t.get(3)?)?)),
        "lit_raw_enc" => Some(okhex(&lit_raw_replay(n(2)? as usize))),
        "lit_comp_enc" => Some(okhex(&lit_comp_replay(n(2)? != 0, n(3)? as usize, n(4)? as usize))),
        "frame" => Some(frame(&unhex(t.get(2)?)?)),
        "frame_enc" => Some(okhex(&frame_enc(o(2)?, n(3)? != 0, n(4)? != 0, o(5)?, o(6)?))),
        _ => None,
    }
}

// ------------------------------------------------------------------------------------------ run
pub fn run(opts: &Opts) -> Run {
    let mut run = Run::new("headers");
    let mut rng = Rng::new(opts.seed);

    // ================= block headers: parser
    let mut blk_case = |run: &mut Run, b: &[u8]| {
        let ans = blk(b);
        if b.len() >= 3 {
            // oracle: RFC fields; sizes above 128 KiB and the reserved type are refused
            run.oracle_checks += 1;
            let (last, t, size) = rfc_block([b[0], b[1], b[2]]);
            let want = if t == 3 {
                "err reserved".to_string()
            } else if size > 128 * 1024 {
                format!("err toolarge {}", size)
            } else {
                let (dec, cont) = match t {
                    0 => (size, size),
                    1 => (size, 1),
                    _ => (0, size),
                };
                format!("ok {} {} {} {} 3", last as u8, t, dec, cont)
            };
            if ans != want {
                run.fail("C14", "blockHeader_parse", format!("block header {} parsed as `{}`, RFC 8878 says `{}`", hex(&b[..3]), ans, want), format!("headers blk {}", hex(b)));
            }
        }
        run.case(format!("headers blk {}", hex(b)), ans);
    };
    let mut n_blk = 0u64;
    if opts.thorough {
        // ALL 2^24 headers: the RFC oracle on every one; for the model the answers are compared range-wise by digest
        // (FNV-1a 64 over the answer lines), 4096 headers per request
        let step = |h: u64, b: u8| (h ^ b as u64).wrapping_mul(0x100000001b3);
        for lo in (0u32..(1 << 24)).step_by(4096) {
            let mut h: u64 = 0xcbf29ce484222325;
            for v in lo..lo + 4096 {
                let b = &v.to_le_bytes()[..3];
                let ans = blk(b);
                run.oracle_checks += 1;
                let (last, t, size) = rfc_block([b[0], b[1], b[2]]);
                let want = if t == 3 {
                    "err reserved".to_string()
                } else if size > 128 * 1024 {
                    format!("err toolarge {}", size)
                } else {
                    let (dec, cont) = match t {
                        0 => (size, size),
                        1 => (size, 1),
                        _ => (0, size),
                    };
                    format!("ok {} {} {} {} 3", last as u8, t, dec, cont)
                };
                if ans != want {
                    run.fail("C14", "blockHeader_parse", format!("block header {} parsed as `{}`, RFC 8878 says `{}`", hex(b), ans, want), format!("headers blk {}", hex(b)));
                }
                for c in ans.bytes() {
                    h = step(h, c);
                }
                h = step(h, 10);
                n_blk += 1;
            }
            run.case(format!("headers blk_range {} {}", lo, lo + 4096), format!("ok {}", h));
        }
    }
    {
        // boundaries: every (last, type) × sizes around 0, 1, 128 KiB, the field maximum and every power of two
        let mut sizes: Vec<u32> = vec![0, 1, 2, (1 << 21) - 2, (1 << 21) - 1];
        for k in 0..21u32 {
            for d in [-1i64, 0, 1] {
                let s = (1i64 << k) + d;
                if (0..(1 << 21)).contains(&s) {
                    sizes.push(s as u32);
                }
            }
        }
        for d in -4i64..=4 {
            sizes.push((131072 + d) as u32);
        }
        for s in sizes {
            for low in 0u32..8 {
                let v = (s << 3) | low;
                blk_case(&mut run, &v.to_le_bytes()[..3]);
                n_blk += 1;
            }
        }
        for _ in 0..(1 << 18) {
            let v = rng.next() as u32 & 0xFF_FFFF;
            blk_case(&mut run, &v.to_le_bytes()[..3]);
            n_blk += 1;
        }
    }
    // short and long sources
    for b in [&[][..], &[1], &[1, 2], &[5, 0, 0, 9], &[0xff, 0xff, 0xff, 0xff, 0xff]] {
        blk_case(&mut run, b);
        n_blk += 1;
    }
    run.stat("block_header_parse", n_blk);

    // ================= block headers: writer, and parse(write(x)) = x for EVERY legal header
    let mut n_enc = 0u64;
    for last in [false, true] {
        for t in 0u8..3 {
            for size in 0u32..=131072 + 2 {
                let r = blk_enc(last, t, size);
                run.oracle_checks += 1;
                let back = match &r {
                    Ok(b) => blk(b),
                    Err(_) => "fault".into(),
                };
                let want = if size > 131072 {
                    format!("err toolarge {}", size)
                } else {
                    let (dec, cont) = match t {
                        0 => (size, size),
                        1 => (size, 1),
                        _ => (0, size),
                    };
                    format!("ok {} {} {} {} 3", last as u8, t, dec, cont)
                };
                if back != want {
                    run.fail("C14", "blockHeader_roundtrip", format!("block header (last={}, type={}, size={}) written as {:?} reads back as `{}`", last, t, size, r.as_ref().map(|b| hex(b)), back), format!("headers blk_enc {} {} {}", last as u8, t, size));
                }
                // model cases: boundaries and a sample
                if size < 64 || size > 131072 - 64 || size.is_power_of_two() || (size + 1).is_power_of_two() || rng.chance(1, 64) {
                    run.case(format!("headers blk_enc {} {} {}", last as u8, t, size), okhex(&r));
                    n_enc += 1;
                }
            }
        }
    }
    for (last, t, size) in [(false, 3u8, 5u32), (true, 0, (1 << 21) - 1), (true, 2, 1 << 21), (false, 1, (1 << 29) + 7), (true, 2, u32::MAX)] {
        run.case(format!("headers blk_enc {} {} {}", last as u8, t, size), okhex(&blk_enc(last, t, size)));
        n_enc += 1;
    }
    run.stat("block_header_write", n_enc);

    // ================= literals section header: parser; every first byte × following bytes × truncations
    let mut follows: Vec<[u8; 5]> = vec![[0; 5], [0xff; 5], [1, 2, 3, 4, 5], [0x80, 0x40, 0x20, 0x10, 0x08], [0x3f, 0xc0, 0x03, 0xfc, 0xaa]];
    for _ in 0..(if opts.thorough { 200 } else { 24 }) {
        let b = rng.bytes(5);
        follows.push([b[0], b[1], b[2], b[3], b[4]]);
    }
    let mut n_lit = 0u64;
    let mut lit_case = |run: &mut Run, prev: Option<u8>, v: &[u8]| {
        let ans = lit(prev, v);
        run.oracle_checks += 1;
        let want = match rfc_lit(v) {
            Some((t, regen, comp, streams, n)) => Some(format!("ok {} {} {} {} {}", t, regen, opt(comp), opt(if t < 2 { prev } else { streams }), n)),
            None => None,
        };
        match want {
            Some(w) if w != ans => run.fail("C14", "literalsHeader_parse", format!("literals header {} parsed as `{}`, RFC 8878 says `{}`", hex(v), ans, w), format!("headers lit {} {}", opt(prev), hex(v))),
            None if ans.starts_with("ok") || ans == "fault" => run.fail("C14", "literalsHeader_parse_short", format!("truncated literals header {} gave `{}`", hex(v), ans), format!("headers lit {} {}", opt(prev), hex(v))),
            _ => {}
        }
        run.case(format!("headers lit {} {}", opt(prev), hex(v)), ans);
    };
    for b0 in 0u16..=255 {
        run.case(format!("headers lit_need {}", b0), {
            let s = h::LiteralsSection::new();
            match guarded(|| s.header_bytes_needed(b0 as u8)) {
                Ok(Ok(n)) => format!("ok {}", n),
                Ok(Err(_)) => "err illegal".into(),
                Err(_) => "fault".into(),
            }
        });
        for f in &follows {
            for len in 0..=6usize {
                let mut v = vec![b0 as u8];
                v.extend_from_slice(&f[..]);
                v.truncate(len);
                let prev = match (b0 as usize + len) % 3 {
                    0 => None,
                    1 => Some(1),
                    _ => Some(4),
                };
                lit_case(&mut run, prev, &v);
                n_lit += 1;
            }
        }
    }
    run.stat("literals_header_parse", n_lit);

    // ================= literals section header: writers
    // (a) the write sequences replayed on the real BitWriter (all formats incl. the two the compressor never reaches)
    let mut n_lw = 0u64;
    let mut raw_ns: Vec<usize> = (0..=40).collect();
    for k in 5..=21usize {
        for d in [-1i64, 0, 1] {
            raw_ns.push(((1i64 << k) + d) as usize);
        }
    }
    raw_ns.extend_from_slice(&[131072, 1000, 1024, 1025, (1 << 22) + 3]);
    for _ in 0..2000 {
        raw_ns.push(rng.below(1 << 20) as usize);
    }
    for n in raw_ns {
        let r = lit_raw_replay(n);
        run.case(format!("headers lit_raw_enc {}", n), okhex(&r));
        n_lw += 1;
        if n < (1 << 20) {
            run.oracle_checks += 1;
            let back = r.as_ref().map(|b| lit(None, b)).unwrap_or_else(|_| "fault".into());
            if back != format!("ok 0 {} - - 3", n) {
                run.fail("C14", "literalsHeader_roundtrip_raw", format!("raw literals header for {} literals reads back as `{}`", n, back), format!("headers lit_raw_enc {}", n));
            }
        }
    }
    let regens: Vec<usize> = {
        let mut v = vec![0usize, 1, 5, 6, 7, 1023, 1024, 1025, 16383, 16384, 16385, 131072, 262143, 262144, 300000];
        for _ in 0..400 {
            let k = rng.below(18);
            v.push(rng.below(1 << (k + 1)) as usize);
        }
        v
    };
    for &regen in &regens {
        let sb = size_format(regen).map(|x| x.1).unwrap_or(18);
        let mut comps: Vec<usize> = vec![0, 1, (1 << sb) - 1, 1 << sb, (1 << (sb + 1)) + 1];
        for _ in 0..6 {
            comps.push(rng.below(1 << sb) as usize);
        }
        for comp in comps {
            for new_table in [true, false] {
                let r = lit_comp_replay(new_table, regen, comp);
                run.case(format!("headers lit_comp_enc {} {} {}", new_table as u8, regen, comp), okhex(&r));
                n_lw += 1;
                if regen < 262144 && comp < (1 << sb) {
                    run.oracle_checks += 1;
                    let back = r.as_ref().map(|b| lit(None, b)).unwrap_or_else(|_| "fault".into());
                    let streams = if regen < 6 { 1 } else { 4 };
                    let want = format!("ok {} {} {} {} {}", if new_table { 2 } else { 3 }, regen, comp, streams, [3, 3, 4, 5][size_format(regen).unwrap().0 as usize]);
                    if back != want {
                        run.fail("C14", "literalsHeader_roundtrip_compressed", format!("compressed literals header (new_table={}, regen={}, comp={}) reads back as `{}`", new_table, regen, comp, back), format!("headers lit_comp_enc {} {} {}", new_table as u8, regen, comp));
                    }
                }
            }
        }
        // placeholder + change_bits
        for plen in [0usize, 1, 2, 300, (1 << sb) - 1, 1 << sb] {
            if plen > 300_000 {
                continue;
            }
            let fill = (regen as u8) | 1;
            let r = lit_patch_replay(regen % 2 == 0, regen, plen, fill);
            let ans = match &r {
                Ok(b) => format!("ok {} {}", hex(&b[..b.len().min(6)]), b.len()),
                Err(_) => "fault".into(),
            };
            run.case(format!("headers lit_patch {} {} {} {}", (regen % 2 == 0) as u8, regen, plen, fill), ans);
            n_lw += 1;
        }
    }
    run.stat("literals_header_write_replayed", n_lw);

    // (b) the REAL `raw_literals` / `compress_literals`, reached through the public compressor with a scripted matcher
    let mut n_real = 0u64;
    let mut seen_types = [0u64; 4];
    let mut raw_lits: Vec<usize> = vec![1, 2, 3, 31, 32, 33, 100, 1000, 1023, 1024];
    for _ in 0..(if opts.thorough { 300 } else { 40 }) {
        raw_lits.push(rng.range(1, 1024) as usize);
    }
    let mut scripts: Vec<(Vec<(usize, usize)>, u64, bool)> = raw_lits.iter().map(|&n| (vec![(n, 64)], 256u64, false)).collect();
    // Huffman-compressed literals: > 1024 literals, skewed distribution; second block with the same distribution → treeless
    let mut comp_lits: Vec<usize> = vec![1025, 1026, 2000, 16383, 16384, 16385, 40000, 131072 - 64, 131072];
    for _ in 0..(if opts.thorough { 100 } else { 12 }) {
        comp_lits.push(rng.range(1025, 131072) as usize);
    }
    for &n in &comp_lits {
        let m = if n + 64 <= 131072 { 64 } else { 0 };
        scripts.push((vec![(n, m)], 16, true));
        scripts.push((vec![(n, m), (n, m)], 16, true));
        scripts.push((vec![(n, 0), (n.min(5000).max(1025), 0)], 12, true));
    }
    for (blocks, alpha, skew) in scripts {
        let mut data = vec![];
        for &(l, m) in &blocks {
            data.extend_from_slice(&script_block(&mut rng, l, m, alpha, skew));
        }
        let window = 1u64 << 17;
        let out = match compress_script(window, &blocks, &data) {
            Ok(o) => o,
            Err(e) => {
                run.notes.push(format!("scripted compression {:?} panicked: {}", blocks, e));
                continue;
            }
        };
        // oracle: the frame decodes to the input (ruzstd)
        run.oracle_checks += 1;
        let mut dec = ruzstd::decoding::FrameDecoder::new();
        let mut target = vec![0u8; data.len() + 16];
        match guarded(|| dec.decode_all(&out, &mut target)) {
            Ok(Ok(n)) if target[..n] == data[..] => {}
            other => run.fail("C14", "scripted_frame_roundtrip", format!("frame written for script {:?} does not decode to the input: {:?}", blocks, other.map(|r| r.map_err(|e| format!("{:?}", e)))), format!("# script {:?} alpha {} skew {}", blocks, alpha, skew)),
        }
        let w = match walk(&out) {
            Some(w) => w,
            None => {
                run.fail("C14", "scripted_frame_walk", format!("frame written for script {:?} cannot be walked with the real header parsers", blocks), format!("# script {:?}", blocks));
                continue;
            }
        };
        // the frame header the compressor wrote for this matcher
        run.case(format!("headers frame_enc - 0 {} - {}", cfg!(feature = "hash") as u8, window), format!("ok {}", hex(&out[..w.header_len])));
        for (i, (hb, t, content, lit_)) in w.blocks.iter().enumerate() {
            // block header bytes as written by the real compressor vs the model's writer
            run.case(format!("headers blk_enc {} {} {}", (i + 1 == w.blocks.len()) as u8, t, if *t == 1 { blocks.get(i).map(|(l, m)| (l + m) as u32).unwrap_or(0) } else { *content }), format!("ok {}", hex(hb)));
            if let Some((lb, ty, regen, comp)) = lit_ {
                seen_types[*ty as usize] += 1;
                n_real += 1;
                match ty {
                    0 => run.case(format!("headers lit_raw_enc {}", regen), format!("ok {}", hex(lb))),
                    2 | 3 => run.case(format!("headers lit_comp_enc {} {} {}", (*ty == 2) as u8, regen, comp.unwrap_or(0)), format!("ok {}", hex(lb))),
                    _ => run.fail("C14", "literals_type_written", format!("compressor wrote literals type {}", ty), format!("# script {:?}", blocks)),
                }
                // oracle: the regenerated size in the header is the number of literals the script emitted
                run.oracle_checks += 1;
                if let Some((l, _)) = blocks.get(i) {
                    if *regen as usize != *l {
                        run.fail("C14", "literals_regen_written", format!("script block {} has {} literals, header says {}", i, l, regen), format!("# script {:?}", blocks));
                    }
                }
            }
        }
    }
    run.stat("literals_header_written_by_compressor", n_real);
    run.stat("written_raw", seen_types[0]);
    run.stat("written_compressed", seen_types[2]);
    run.stat("written_treeless", seen_types[3]);

    // ================= frame header: parser; all 256 descriptors × all 256 window bytes, field patterns, truncations
    let magic = [0x28u8, 0xB5, 0x2F, 0xFD];
    let mut n_fr = 0u64;
    let mut frame_case = |run: &mut Run, v: &[u8]| {
        let ans = frame(v);
        if let Some((did, fcs, len, window, single)) = rfc_frame(v) {
            run.oracle_checks += 1;
            let win = if single || (1024..=(1u64 << 41) + 7 * (1u64 << 38)).contains(&window) { format!("win=ok:{}", window) } else { "win=illegal".into() };
            let want = format!("ok {} {} {} {} {}", v[4], opt(did), fcs, len, win);
            if ans != want {
                run.fail("C14", "frameHeader_parse", format!("frame header {} parsed as `{}`, RFC 8878 says `{}`", hex(&v[..len]), ans, want), format!("headers frame {}", hex(v)));
            }
        } else if v.len() >= 5 && v[0..4] == [0x28, 0xB5, 0x2F, 0xFD] && ans.starts_with("ok") {
            run.fail("C14", "frameHeader_parse_short", format!("truncated frame header {} accepted: `{}`", hex(v), ans), format!("headers frame {}", hex(v)));
        }
        run.case(format!("headers frame {}", hex(v)), ans);
    };
    let tails: Vec<Vec<u8>> = vec![vec![0; 12], vec![0xff; 12], (1..=12).collect(), rng.bytes(12), rng.bytes(12)];
    for d in 0u16..=255 {
        for wd in 0u16..=255 {
            // the byte after the descriptor is the window descriptor (or the first field byte for single-segment frames)
            let tail = &tails[((d + wd) % tails.len() as u16) as usize];
            let mut v = magic.to_vec();
            v.push(d as u8);
            v.push(wd as u8);
            v.extend_from_slice(tail);
            frame_case(&mut run, &v);
            n_fr += 1;
        }
        // every truncation of one header per descriptor
        let mut v = magic.to_vec();
        v.push(d as u8);
        v.extend_from_slice(&tails[3]);
        for len in 0..v.len() {
            frame_case(&mut run, &v[..len]);
            n_fr += 1;
        }
        // +256 rule boundaries and dictionary id 0
        for pat in [[0u8; 13], [0xff; 13]] {
            let mut v = magic.to_vec();
            v.push(d as u8);
            v.extend_from_slice(&pat);
            frame_case(&mut run, &v);
            n_fr += 1;
        }
    }
    // other magic numbers: skippable range boundaries, bad magic
    for m in [0x184D2A4Fu32, 0x184D2A50, 0x184D2A57, 0x184D2A5F, 0x184D2A60, 0xFD2FB527, 0xFD2FB529, 0, u32::MAX] {
        for extra in [0usize, 3, 4, 9] {
            let mut v = m.to_le_bytes().to_vec();
            v.extend_from_slice(&tails[2][..extra]);
            frame_case(&mut run, &v);
            n_fr += 1;
        }
    }
    run.stat("frame_header_parse", n_fr);

    // ================= frame header: writer
    let mut n_fw = 0u64;
    // (a) every header shape `FrameCompressor::compress` can write: window sizes at every power-of-two boundary + samples
    let mut windows: Vec<u64> = vec![0, 1, 2, 3, 1023, 1024, 1025];
    for k in 1..=63u32 {
        for dlt in [-1i64, 0, 1] {
            windows.push(((1i128 << k) + dlt as i128) as u64);
        }
    }
    windows.push((1u64 << 41) + 7 * (1u64 << 38));
    windows.push(u64::MAX);
    for _ in 0..(if opts.thorough { 100000 } else { 3000 }) {
        let k = rng.below(42);
        windows.push((1u64 << k) + rng.below(1u64 << k));
    }
    for &w in &windows {
        for checksum in [false, true] {
            let r = frame_enc(None, false, checksum, None, Some(w));
            run.case(format!("headers frame_enc - 0 {} - {}", checksum as u8, w), okhex(&r));
            n_fw += 1;
            if w <= (1u64 << 41) {
                run.oracle_checks += 1;
                let ok = match &r {
                    Ok(b) => match rfc_frame(b) {
                        Some((None, 0, len, declared, false)) => len == b.len() && declared >= w && declared >= 1024 && ((b[4] >> 2) & 1 == 1) == checksum && frame(b).starts_with("ok") && frame(b).ends_with(&format!("win=ok:{}", declared)),
                        _ => false,
                    },
                    Err(_) => false,
                };
                if !ok {
                    run.fail("C14", "frameHeader_roundtrip", format!("frame header for requested window {} (checksum {}) written as {:?}: declared window is not >= requested / header not read back", w, checksum, r.as_ref().map(|b| hex(b))), format!("headers frame_enc - 0 {} - {}", checksum as u8, w));
                }
            }
        }
    }
    // (b) the crate-private struct beyond what `compress` uses (content size, dictionary id, single segment)
    let vals: [Option<u64>; 12] = [None, Some(0), Some(1), Some(255), Some(256), Some(257), Some(65535), Some(65536), Some(65791), Some(u32::MAX as u64), Some(1 << 32), Some(u64::MAX)];
    for &fcs in &vals {
        for &dict in &vals {
            for single in [false, true] {
                for window in [None, Some(1u64 << 20)] {
                    let r = frame_enc(fcs, single, single, dict, window);
                    run.case(format!("headers frame_enc {} {} {} {} {}", opt(fcs), single as u8, single as u8, opt(dict), opt(window)), okhex(&r));
                    n_fw += 1;
                    // oracle: single-segment headers with a content size below 2^32 and a dictionary id in 1..2^32 read back exactly
                    if single {
                        if let (Some(f), Some(dv)) = (fcs, dict) {
                            if f < (1 << 32) && dv >= 1 && dv < (1 << 32) {
                                run.oracle_checks += 1;
                                let ok = match &r {
                                    Ok(b) => matches!(rfc_frame(b), Some((Some(x), y, len, _, true)) if x as u64 == dv && y == f && len == b.len()),
                                    Err(_) => false,
                                };
                                if !ok {
                                    run.fail("C14", "frameHeader_roundtrip_fields", format!("single-segment header (fcs {}, dict {}) written as {:?} does not read back", f, dv, r.as_ref().map(|b| hex(b))), format!("headers frame_enc {} 1 1 {} {}", f, dv, opt(window)));
                                }
                            }
                        }
                    }
                }
            }
        }
    }
    run.stat("frame_header_write", n_fw);
    let n = run.cases.len();
    run.samples = vec![run.cases[10].clone(), run.cases[n / 3].clone(), run.cases[n / 2].clone(), run.cases[n - 1].clone()];
    run
}
