//! Engine `dict` (C09): dictionary frames.  Dictionaries come from the reference trainer
//! (`zstd::dict::from_samples`), frames from libzstd with those dictionaries (with and without the
//! dictionary id in the header), plus synthetic frames whose matches straddle the dictionary/output
//! boundary at every alignment.  Oracles: ruzstd = original = libzstd-with-dictionary; a frame that
//! names an unknown dictionary is refused before any block is decoded; an offset beyond dictionary
//! plus output is rejected; a dictionary frame followed by a plain frame on the same decoder.
use crate::engines::dec::{drive_blocks, drive_streaming, Prog, Truth};
use crate::gen;
use crate::synth::{self, Block, Frame, Lit, SeqBlock};
use crate::util::*;
use ruzstd::decoding::Dictionary;

fn train(rng: &mut Rng, kind: &str, n: usize, each: usize, size: usize) -> Option<(Vec<u8>, Vec<Vec<u8>>)> {
    // samples share structure (same generator parameters reseeded), so that the trainer finds content
    let base = gen::data(rng, kind, each * 3);
    let samples: Vec<Vec<u8>> = (0..n)
        .map(|_| {
            let a = rng.below((base.len() - each).max(1) as u64) as usize;
            let mut s = base[a..a + each.min(base.len() - a)].to_vec();
            for _ in 0..(s.len() / 40) {
                let i = rng.below(s.len() as u64) as usize;
                s[i] = rng.next() as u8;
            }
            s
        })
        .collect();
    zstd::dict::from_samples(&samples, size).ok().map(|d| (d, samples))
}

pub fn frame_with_dict(data: &[u8], level: i32, wlog: Option<u32>, dict: &[u8], with_id: bool, checksum: bool) -> Vec<u8> {
    use std::io::Write;
    use zstd::zstd_safe::CParameter;
    let mut out = Vec::new();
    {
        let mut enc = zstd::stream::Encoder::with_dictionary(&mut out, level, dict).unwrap();
        if let Some(w) = wlog {
            enc.set_parameter(CParameter::WindowLog(w)).unwrap();
        }
        enc.set_parameter(CParameter::DictIdFlag(with_id)).unwrap();
        enc.include_checksum(checksum).unwrap();
        enc.write_all(data).unwrap();
        enc.finish().unwrap();
    }
    out
}

pub fn run(opts: &Opts) -> Run {
    let mut run = Run::new("dict");
    let mut rng = Rng::new(opts.seed ^ 0xd1c7);
    let mut dicts: Vec<(Vec<u8>, Vec<Vec<u8>>, u32, Vec<u8>)> = Vec::new(); // (bytes, samples, id, content)
    for (kind, n, each, size) in [("text", 60, 2000, 4096usize), ("lowalpha", 40, 1500, 1024), ("periodic", 50, 3000, 16384), ("mixed", 80, 4000, 65536)] {
        if let Some((d, samples)) = train(&mut rng, kind, n, each, size) {
            if let Ok(p) = Dictionary::decode_dict(&d) {
                dicts.push((d.clone(), samples, p.id, p.dict_content.clone()));
            } else {
                run.fail("C09", "trained_dict_rejected", format!("Dictionary::decode_dict rejects a dictionary trained by the reference trainer ({} bytes, '{}')", d.len(), kind), format!("dict parse {}", hex(&d)));
            }
        }
    }
    // the same dictionaries under SHORT ids: the reference compressor then writes a 1-byte / 2-byte Dictionary_ID field
    let base_n = dicts.len();
    for (k, small_id) in [(0usize, 0x2Au32), (1, 0x1234), (2, 0xFF), (3, 0x100)] {
        if k < base_n {
            let (mut d, samples, _, content) = dicts[k].clone();
            d[4..8].copy_from_slice(&small_id.to_le_bytes());
            if let Ok(p) = Dictionary::decode_dict(&d) {
                if p.id == small_id {
                    dicts.push((d, samples, small_id, content));
                    run.stat("dictionaries_with_short_id", 1);
                }
            }
        }
    }
    run.stat("dictionaries", dicts.len() as u64);
    if dicts.is_empty() {
        run.notes.push("no dictionary could be trained".into());
        return run;
    }
    let n = if opts.thorough { 400 } else { 40 };
    for i in 0..n {
        let di = i % dicts.len();
        let (dict, samples, id, _content) = dicts[di].clone();
        // data resembling the samples (so the dictionary is actually referenced), data that BEGINS with the beginning of
        // the dictionary content (the compressor then emits the farthest legal match: back to the first dictionary byte), or unrelated
        let data = if i % 4 == 1 {
            let k_ = (*rng.pick(&[8usize, 40, 300, 5000])).min(_content.len());
            let mut d = _content[..k_].to_vec();
            let n_ = rng.below(2000) as usize;
            d.extend_from_slice(&gen::data(&mut rng, "text", n_));
            run.stat("data_starting_with_dictionary_start", 1);
            d
        } else if rng.chance(3, 4) {
            let mut d = samples[rng.below(samples.len() as u64) as usize].clone();
            let n_ = rng.below(3000) as usize;
            let extra = gen::data(&mut rng, "text", n_);
            d.extend_from_slice(&extra);
            d
        } else {
            let len_ = gen::pick_len(&mut rng, 20000);
            gen::data(&mut rng, "mixed", len_)
        };
        let level = *rng.pick(&[1, 3, 5, 9, 15, 19]);
        let wlog = if rng.chance(1, 2) { Some(rng.range(10, 20) as u32) } else { None };
        let with_id = rng.chance(3, 4);
        let checksum = rng.chance(1, 2);
        let frame = frame_with_dict(&data, level, wlog, &dict, with_id, checksum);
        let label = format!("dict#{} ({} B) lvl {} wlog {:?} id-in-header {} data {} B", di, dict.len(), level, wlog, with_id, data.len());
        if i < 3 {
            run.samples.push(format!("{} -> frame {} B", label, frame.len()));
        }
        run.stat(if with_id { "frames_with_id" } else { "frames_without_id" }, 1);
        // referee
        run.oracle_checks += 1;
        if gen::zstd_decode(&frame, Some(&dict), 1 << 26).as_deref() != Some(&data[..]) {
            run.notes.push(format!("harness self-check: libzstd does not round-trip '{}'", label));
            continue;
        }
        let truth = || Some(Truth { original: data.clone(), frame_len: frame.len(), complete: true, has_checksum: checksum });
        // (a) decoder with several dictionaries registered
        {
            let mut p = Prog::new(&mut run, &label);
            for (k, (d, _, _, _)) in dicts.iter().enumerate() {
                if k == di || rng.chance(1, 2) {
                    p.add_dict(d);
                }
            }
            p.set_src(frame.clone(), vec![], truth());
            if with_id {
                if rng.chance(1, 2) {
                    drive_blocks(&mut p, &mut rng, 1 << 17);
                } else {
                    drive_streaming(&mut p, &mut rng);
                }
            } else {
                // the id is not in the header: the caller supplies it with force_dict after reset
                if p.reset() {
                    p.force_dict(id);
                    while !p.finished() && !p.is_failed() {
                        p.blocks("blocks:1");
                        p.collect();
                    }
                    p.collect();
                }
            }
            // then a plain frame on the same decoder: the dictionary must have no effect (C09/C07)
            let plain_data = gen::data(&mut rng, "text", 1500);
            let plain = gen::zstd_frame(&plain_data, &gen::ZParams { level: 3, window_log: Some(11), ldm: false, checksum: true, content_size: false, flush_every: None, min_match: None, strategy_btultra: false }, None);
            p.set_src(plain.clone(), vec![], Some(Truth { original: plain_data, frame_len: plain.len(), complete: true, has_checksum: true }));
            drive_blocks(&mut p, &mut rng, 2048);
        }
        // (b) the dictionary is missing: refused at reset, nothing decoded
        if with_id {
            let mut p = Prog::new(&mut run, &format!("{} [dictionary not registered]", label));
            for (k, (d, _, _, _)) in dicts.iter().enumerate() {
                if k != di && rng.chance(1, 2) {
                    p.add_dict(d);
                }
            }
            p.set_src(frame.clone(), vec![], None);
            let ok = p.reset();
            p.run.oracle_checks += 1;
            if ok {
                let r = p.lines_text();
                p.run.fail("C09", "missing_dict_accepted", format!("[{}] reset succeeded although the frame names dictionary {} which was not registered", label, id), r);
            }
        }
    }
    // synthetic frames straddling the dictionary/output boundary
    for (di, (dict, _, id, content)) in dicts.iter().enumerate() {
        let m = if opts.thorough { 400 } else { 60 };
        for k in 0..m {
            let pre = rng.range(0, 12) as usize; // bytes of output before the match
            let reach = rng.range(1, 40.min(content.len() as u64)) as usize; // how far into the dictionary
            let ml_code = rng.range(0, 40) as u8;
            let offset = pre + reach + if k % 7 == 6 { content.len() } else { 0 }; // sometimes beyond the dictionary: must be rejected
            let ov = offset as u64 + 3;
            let code = 63 - ov.leading_zeros() as u8;
            let lits = rng.bytes(pre);
            let blk = Block::Comp(SeqBlock { lits: Lit::Raw(lits), ll_code: pre.min(15) as u8, ml_code, of_code: code, seqs: vec![(0, 0, (ov - (1 << code)) as u32)], count_bytes: None, modes: None, repeat: [false; 3], trailer: vec![] });
            let mut f = Frame::simple(vec![blk], *rng.pick(&[0u8, 0x10, 0x28]), rng.chance(1, 2));
            f.dict_id = Some((3, *id));
            let (bytes, expected) = synth::serialize(&f, content);
            let label = format!("synthetic dict#{} pre {} reach {} ml_code {} offset {}", di, pre, reach, ml_code, offset);
            let reference = gen::zstd_decode(&bytes, Some(dict), 1 << 22);
            run.oracle_checks += 1;
            if let (Some(e), Some(r)) = (&expected, &reference) {
                if e != r {
                    run.notes.push(format!("harness self-check: reference executor and libzstd disagree on '{}'", label));
                }
            }
            let mut p = Prog::new(&mut run, &label);
            p.add_dict(dict);
            // (libzstd's digested dictionaries let matches reach into the dictionary *header* bytes, which the
            // format does not allow; a frame counts as valid only if the RFC executor accepts it too)
            let truth = match (&reference, &expected) {
                (Some(r), Some(_)) => Some(Truth { original: r.clone(), frame_len: bytes.len(), complete: true, has_checksum: f.checksum }),
                _ => None,
            };
            let valid = truth.is_some();
            p.set_src(bytes.clone(), vec![], truth);
            drive_blocks(&mut p, &mut rng, 1024);
            p.run.oracle_checks += 1;
            if valid && p.is_failed() {
                let r = p.lines_text();
                p.run.fail("C09", "dict_frame_rejected", format!("[{}] ruzstd fails on a dictionary frame libzstd decodes", label), r);
            }
            if !valid && !p.is_failed() && offset > pre + content.len() {
                let r = p.lines_text();
                p.run.fail("C09", "offset_beyond_dict_accepted", format!("[{}] an offset reaching beyond dictionary plus output was accepted", label), r);
            }
            p.run.stat(if valid { "synthetic_valid" } else { "synthetic_rejected_by_libzstd" }, 1);
        }
    }
    run
}
