//! Engine `dict` (C09): dictionary frames.  Dictionaries come from the reference trainer
//! (`zstd::dict::from_samples`), frames from libzstd with those dictionaries (with and without the
//! dictionary id in the header), plus synthetic frames whose matches straddle the dictionary/output
//! boundary at every alignment.  Oracles: ruzstd = original = libzstd-with-dictionary; a frame that
//! names an unknown dictionary is refused before any block is decoded; an offset beyond dictionary
//! plus output is rejected; a dictionary frame followed by a plain frame on the same decoder.
use crate::engines::dec::{drive_blocks, drive_streaming, Prog, Truth};
use crate::gen;
use crate::synth::{self, Block, Frame, Lit, SeqBlock};
use crate::util::*;
use ruzstd::decoding::Dictionary;

fn train(rng: &mut Rng, kind: &str, n: usize, each: usize, size: usize) -> Option<(Vec<u8>, Vec<Vec<u8>>)> {
    // samples share structure (same generator parameters reseeded), so that the trainer finds content
    let base = gen::data(rng, kind, each * 3);
    let samples: Vec<Vec<u8>> = (0..n)
        .map(|_| {
            let a = rng.below((base.len() - each).max(1) as u64) as usize;
            let mut s = base[a..a + each.min(base.len() - a)].to_vec();
            for _ in 0..(s.len() / 40) {
                let i = rng.below(s.len() as u64) as usize;
                s[i] = rng.next() as u8;
            }
            s
        })
        .collect();
    zstd::dict::from_samples(&samples, size).ok().map(|d| (d, samples))
}

pub fn frame_with_dict(data: &[u8], level: i32, wlog: Option<u32>, dict: &[u8], with_id: bool, checksum: bool) -> Vec<u8> {
    use std::io::Write;
    use zstd::zstd_safe::CParameter;
    let mut out = Vec::new();
    {
        let mut enc = zstd::stream::Encoder::with_dictionary(&mut out, level, dict).unwrap();
        if let Some(w) = wlog {
            enc.set_parameter(CParameter::WindowLog(w)).unwrap();
        }
        enc.set_parameter(CParameter::DictIdFlag(with_id)).unwrap();
        enc.include_checksum(checksum).unwrap();
        enc.write_all(data).unwrap();
        enc.finish().unwrap();
    }
    out
}

pub fn run(opts: &Opts) -> Run {
    let mut run = Run::new("dict");
    let mut rng = Rng::new(opts.seed ^ 0xd1c7);
    let mut dicts: Vec<(Vec<u8>, Vec<Vec<u8>>, u32, Vec<u8>)> = Vec::new(); // (bytes, samples, id, content)
    for (kind, n, each, size) in [("text", 60, 2000, 4096usize), ("lowalpha", 40, 1500, 1024), ("periodic", 50, 3000, 16384), ("mixed", 80, 4000, 65536)] {
        if let Some((d, samples)) = train(&mut rng, kind, n, each, size) {
            if let Ok(p) = Dictionary::decode_dict(&d) {
                dicts.push((d.clone(), samples, p.id, p.dict_content.clone()));
            } else {
                run.fail("C09", "trained_dict_rejected", format!("Dictionary::decode_dict rejects a dictionary trained by the reference trainer ({} bytes, '{}')", d.len(), kind), format!("dict parse {}", hex(&d)));
            }
        }
    }
    // the same dictionaries under SHORT ids: the reference compressor then writes a 1-byte / 2-byte Dictionary_ID field
    let base_n = dicts.len();
    for (k, small_id) in [(0usize, 0x2Au32), (1, 0x1234), (2, 0xFF), (3, 0x100)] {
        if k < base_n {
            let (mut d, samples, _, content) = dicts[k].clone();
            d[4..8].copy_from_slice(&small_id.to_le_bytes());
            if let Ok(p) = Dictionary::decode_dict(&d) {
                if p.id == small_id {
                    dicts.push((d, samples, small_id, content));
                    run.stat("dictionaries_with_short_id", 1);
                }
            }
        }
    }
    // … and under OTHER repeat offsets than the trainer's 1/4/8 (the three little-endian words in front of the content): the
    // reference compressor starts from them, so its frames use repeat codes that mean 100 / 300 / 500 bytes back
    for k in 0..base_n.min(2) {
        let (mut d, samples, id0, content) = dicts[k].clone();
        if d.len() >= content.len() + 12 && content.len() > 600 {
            let pos = d.len() - content.len() - 12;
            for (j, o) in [100u32, 300, 500].iter().enumerate() {
                d[pos + 4 * j..pos + 4 * j + 4].copy_from_slice(&o.to_le_bytes());
            }
            let nid = id0 ^ 0x0101_0101;
            d[4..8].copy_from_slice(&nid.to_le_bytes());
            if let Ok(p) = Dictionary::decode_dict(&d) {
                if p.id == nid && p.offset_hist == [100, 300, 500] {
                    dicts.push((d, samples, nid, content));
                    run.stat("dictionaries_with_other_repeat_offsets", 1);
                }
            }
        }
    }
    run.stat("dictionaries", dicts.len() as u64);
    if dicts.is_empty() {
        run.notes.push("no dictionary could be trained".into());
        return run;
    }
    let n = if opts.thorough { 400 } else { 40 };
    for i in 0..n {
        let di = i % dicts.len();
        let (dict, samples, id, _content) = dicts[di].clone();
        // data resembling the samples (so the dictionary is actually referenced), data that BEGINS with the beginning of
        // the dictionary content (the compressor then emits the farthest legal match: back to the first dictionary byte), or unrelated
        let other_offsets = dict.len() >= _content.len() + 12 && {
            let pos = dict.len() - _content.len() - 12;
            dict[pos..pos + 4] != [1, 0, 0, 0]
        };
        let data = if other_offsets && _content.len() > 600 {
            // a dictionary whose repeat offsets are 100 / 300 / 500: data that begins with what lies exactly 100, then 300, then
            // 500 bytes before its own position in dictionary+output, so the compressor's first sequences are repeat codes
            let n = _content.len();
            let mut d = _content[n - 100..n - 100 + 40].to_vec();
            let at = n + d.len();
            d.extend_from_slice(&_content[at - 300 - d.len().min(0)..at - 300 + 30]);
            let at2 = n + d.len();
            d.extend_from_slice(&_content[at2 - 500..at2 - 500 + 30]);
            let n_ = rng.below(1500) as usize;
            d.extend_from_slice(&gen::data(&mut rng, "text", n_));
            run.stat("data_using_dictionary_repeat_offsets", 1);
            d
        } else if i % 4 == 1 {
            let k_ = (*rng.pick(&[8usize, 40, 300, 5000])).min(_content.len());
            let mut d = _content[..k_].to_vec();
            let n_ = rng.below(2000) as usize;
            d.extend_from_slice(&gen::data(&mut rng, "text", n_));
            run.stat("data_starting_with_dictionary_start", 1);
            d
        } else if rng.chance(3, 4) {
            let mut d = samples[rng.below(samples.len() as u64) as usize].clone();
            let n_ = rng.below(3000) as usize;
            let extra = gen::data(&mut rng, "text", n_);
            d.extend_from_slice(&extra);
            d
        } else {
            let len_ = gen::pick_len(&mut rng, 20000);
            gen::data(&mut rng, "mixed", len_)
        };
        let level = *rng.pick(&[1, 3, 5, 9, 15, 19]);
        let wlog = if rng.chance(1, 2) { Some(rng.range(10, 20) as u32) } else { None };
        let with_id = rng.chance(3, 4);
        let checksum = rng.chance(1, 2);
        let frame = frame_with_dict(&data, level, wlog, &dict, with_id, checksum);
        let label = format!("dict#{} ({} B) lvl {} wlog {:?} id-in-header {} data {} B", di, dict.len(), level, wlog, with_id, data.len());
        if i < 3 {
            run.samples.push(format!("{} -> frame {} B", label, frame.len()));
        }
        run.stat(if with_id { "frames_with_id" } else { "frames_without_id" }, 1);
        // referee
        run.oracle_checks += 1;
        if gen::zstd_decode(&frame, Some(&dict), 1 << 26).as_deref() != Some(&data[..]) {
            run.notes.push(format!("harness self-check: libzstd does not round-trip '{}'", label));
            continue;
        }
        let truth = || Some(Truth { original: data.clone(), frame_len: frame.len(), complete: true, has_checksum: checksum });
        // (a) decoder with several dictionaries registered
        {
            let mut p = Prog::new(&mut run, &label);
            for (k, (d, _, _, _)) in dicts.iter().enumerate() {
                if k == di || rng.chance(1, 2) {
                    p.add_dict(d);
                }
            }
            p.set_src(frame.clone(), vec![], truth());
            if with_id {
                if rng.chance(1, 2) {
                    drive_blocks(&mut p, &mut rng, 1 << 17);
                } else {
                    drive_streaming(&mut p, &mut rng);
                }
            } else {
                // the id is not in the header: the caller supplies it with force_dict after reset
                if p.reset() {
                    p.force_dict(id);
                    while !p.finished() && !p.is_failed() {
                        p.blocks("blocks:1");
                        p.collect();
                    }
                    p.collect();
                }
            }
            // then a plain frame on the same decoder: the dictionary must have no effect (C09/C07)
            let plain_data = gen::data(&mut rng, "text", 1500);
            let plain = gen::zstd_frame(&plain_data, &gen::ZParams { level: 3, window_log: Some(11), ldm: false, checksum: true, content_size: false, flush_every: None, min_match: None, strategy_btultra: false }, None);
            p.set_src(plain.clone(), vec![], Some(Truth { original: plain_data, frame_len: plain.len(), complete: true, has_checksum: true }));
            drive_blocks(&mut p, &mut rng, 2048);
        }
        // (b) the dictionary is missing: refused at reset, nothing decoded
        if with_id {
            let mut p = Prog::new(&mut run, &format!("{} [dictionary not registered]", label));
            for (k, (d, _, _, _)) in dicts.iter().enumerate() {
                if k != di && rng.chance(1, 2) {
                    p.add_dict(d);
                }
            }
            p.set_src(frame.clone(), vec![], None);
            let ok = p.reset();
            p.run.oracle_checks += 1;
            if ok {
                let r = p.lines_text();
                p.run.fail("C09", "missing_dict_accepted", format!("[{}] reset succeeded although the frame names dictionary {} which was not registered", label, id), r);
            } else if i % 2 == 0 {
                // the documented recovery on a source that cannot be rewound: register the dictionary now and force it
                p.run.oracle_checks += 2;
                if p.force_dict(0x7EAD_BEE5) {
                    let r = p.lines_text();
                    p.run.fail("C09", "force_dict_unknown_ok", format!("[{}] force_dict of an id that was never registered returned Ok", label), r);
                }
                p.add_dict(&dict);
                p.truth = Some(Truth { original: data.clone(), frame_len: frame.len(), complete: true, has_checksum: checksum });
                p.failed = false;
                if p.force_dict(id) {
                    let mut guard = 0;
                    while !p.finished() && !p.is_failed() && guard < 2000 {
                        p.blocks("blocks:1");
                        p.collect();
                        guard += 1;
                    }
                    p.collect();
                    if p.delivered != data {
                        let r = p.lines_text();
                        p.run.fail("C09", "recovery_after_dict_not_provided", format!("[{}] reset (DictNotProvided) → add_dict → force_dict → decode_blocks delivered {} bytes, the original has {}", label, p.delivered.len(), data.len()), r);
                    }
                } else {
                    let r = p.lines_text();
                    p.run.fail("C09", "recovery_after_dict_not_provided", format!("[{}] force_dict({}) failed right after add_dict of that dictionary", label, id), r);
                }
                p.run.stat("recovery_after_dict_not_provided", 1);
            }
        }
    }
    // synthetic frames straddling the dictionary/output boundary
    for (di, (dict, _, id, content)) in dicts.iter().enumerate() {
        let m = if opts.thorough { 400 } else { 60 };
        for k in 0..m {
            let pre = rng.range(0, 12) as usize; // bytes of output before the match
            let reach = rng.range(1, 40.min(content.len() as u64)) as usize; // how far into the dictionary
            let ml_code = rng.range(0, 40) as u8;
            let offset = pre + reach + if k % 7 == 6 { content.len() } else { 0 }; // sometimes beyond the dictionary: must be rejected
            let ov = offset as u64 + 3;
            let code = 63 - ov.leading_zeros() as u8;
            let lits = rng.bytes(pre);
            let blk = Block::Comp(SeqBlock { lits: Lit::Raw(lits), ll_code: pre.min(15) as u8, ml_code, of_code: code, seqs: vec![(0, 0, (ov - (1 << code)) as u32)], count_bytes: None, modes: None, repeat: [false; 3], trailer: vec![] });
            let mut f = Frame::simple(vec![blk], *rng.pick(&[0u8, 0x10, 0x28]), rng.chance(1, 2));
            f.dict_id = Some((3, *id));
            let (bytes, expected) = synth::serialize(&f, content);
            let label = format!("synthetic dict#{} pre {} reach {} ml_code {} offset {}", di, pre, reach, ml_code, offset);
            let reference = gen::zstd_decode(&bytes, Some(dict), 1 << 22);
            run.oracle_checks += 1;
            if let (Some(e), Some(r)) = (&expected, &reference) {
                if e != r {
                    run.notes.push(format!("harness self-check: reference executor and libzstd disagree on '{}'", label));
                }
            }
            let mut p = Prog::new(&mut run, &label);
            p.add_dict(dict);
            // (libzstd's digested dictionaries let matches reach into the dictionary *header* bytes, which the
            // format does not allow; a frame counts as valid only if the RFC executor accepts it too)
            let truth = match (&reference, &expected) {
                (Some(r), Some(_)) => Some(Truth { original: r.clone(), frame_len: bytes.len(), complete: true, has_checksum: f.checksum }),
                _ => None,
            };
            let valid = truth.is_some();
            p.set_src(bytes.clone(), vec![], truth);
            drive_blocks(&mut p, &mut rng, 1024);
            p.run.oracle_checks += 1;
            if valid && p.is_failed() {
                let r = p.lines_text();
                p.run.fail("C09", "dict_frame_rejected", format!("[{}] ruzstd fails on a dictionary frame libzstd decodes", label), r);
            }
            if !valid && !p.is_failed() && offset > pre + content.len() {
                let r = p.lines_text();
                p.run.fail("C09", "offset_beyond_dict_accepted", format!("[{}] an offset reaching beyond dictionary plus output was accepted", label), r);
            }
            p.run.stat(if valid { "synthetic_valid" } else { "synthetic_rejected_by_libzstd" }, 1);
        }
        // the dictionary stops being reachable once the output has passed the window: window 1 KiB, two literal-only blocks of 1 KiB
        // (2048 bytes out), then a block whose FIRST sequence (no literals in front) reaches 2048 + k bytes back, i.e. into
        // the dictionary: invalid whatever the caller drained in between (block-wise with collect/read after every block,
        // streaming reads, all at once)
        for k in [1usize, 40, 300] {
            if k > content.len() {
                continue;
            }
            let offset = 2048 + k;
            let ov = offset as u64 + 3;
            let code = 63 - ov.leading_zeros() as u8;
            let blk = Block::Comp(SeqBlock { lits: Lit::Raw(vec![]), ll_code: 0, ml_code: 5, of_code: code, seqs: vec![(0, 0, (ov - (1 << code)) as u32)], count_bytes: None, modes: None, repeat: [false; 3], trailer: vec![] });
            // (the 2048 bytes come from literal-only COMPRESSED blocks: the decoder's output counter — its notion of "still within
            // the window" — is not advanced by raw / RLE blocks, a leniency recorded in DESIGN §9 that no property forbids)
            let litblock = |rng: &mut Rng| Block::Comp(SeqBlock { lits: Lit::Raw(rng.bytes(1024)), ll_code: 0, ml_code: 0, of_code: 0, seqs: vec![], count_bytes: None, modes: None, repeat: [false; 3], trailer: vec![] });
            let mut f = Frame::simple(vec![litblock(&mut rng), litblock(&mut rng), blk], 0, false);
            f.dict_id = Some((3, *id));
            let (bytes, _) = synth::serialize(&f, content);
            for driver in 0..3 {
                let label = format!("synthetic dict#{}: window 1 KiB, 2048 bytes out, then offset {} (into the dictionary), driver {}", di, offset, driver);
                let mut p = Prog::new(&mut run, &label);
                p.add_dict(dict);
                p.set_src(bytes.clone(), vec![], None);
                match driver {
                    0 => {
                        if p.reset() {
                            p.blocks("all");
                        }
                    }
                    1 => {
                        if p.reset() {
                            let mut guard = 0;
                            while !p.finished() && !p.is_failed() && guard < 10 {
                                p.blocks("blocks:1");
                                if guard % 2 == 0 {
                                    p.collect();
                                } else {
                                    p.read(4096);
                                }
                                guard += 1;
                            }
                        }
                    }
                    _ => {
                        if p.stream_init() {
                            let mut guard = 0;
                            while !p.is_failed() && guard < 10 {
                                let before = p.delivered.len();
                                p.sread(1024);
                                if p.delivered.len() == before {
                                    break;
                                }
                                guard += 1;
                            }
                        }
                    }
                }
                p.run.oracle_checks += 1;
                if !p.is_failed() {
                    let r = p.lines_text();
                    p.run.fail("C09", "dict_reach_after_window_accepted", format!("[{}] a match reaching into the dictionary after the output passed the window was accepted", label), r);
                }
                p.run.stat("dict_reach_after_window_frames", 1);
            }
        }
    }
    run
}
