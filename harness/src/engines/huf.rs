//! Engine `huf` (C13; also serves C01/C02): the Huffman coder of ruzstd.
//! Encoder side through `verif_hooks::entropy::{huf_enc, HufEncTable}`, decoder side through the
//! public (fuzz_exports) `huff0::{HuffmanTable, HuffmanDecoder}` with the `verif_*` views, the
//! literals decoder through `verif_hooks::sections::decode_literals`, the reversed bit reader through
//! `verif_hooks::bits::BitReaderReversed`.
//!
//! Implementation-only oracles (independent of the Lean model):
//!   * every table the compressor builds is a complete prefix-free code of depth <= 11 (Kraft sum,
//!     pairwise prefix test);
//!   * the decoder, given the encoder's weight description, recovers exactly the encoder's code
//!     lengths and consumes exactly the description;
//!   * decode_literals(encode / encode4x (x)) = x for both stream layouts;
//!   * FSE-compressed descriptions are shorter than 128 bytes (the `assert!` does not fire);
//!   * libzstd decodes a frame built by an independent serialiser around the encoder's output.
use crate::util::*;
use ruzstd::decoding::errors::{DecompressLiteralsError, HuffmanTableError};
use ruzstd::huff0::HuffmanTable as DecTable;
use ruzstd::verif_hooks::bits::BitReaderReversed;
use ruzstd::verif_hooks::entropy::{huf_enc, HufEncTable};
use ruzstd::verif_hooks::headers::{LiteralsSection, LiteralsSectionType};
use ruzstd::verif_hooks::sections::{decode_literals, HuffmanScratch};

fn csv<T: std::fmt::Display>(xs: &[T]) -> String {
    if xs.is_empty() {
        return "-".into();
    }
    xs.iter().map(|x| x.to_string()).collect::<Vec<_>>().join(",")
}

fn show_bytes(b: &[u8]) -> String {
    if b.is_empty() {
        "-".into()
    } else if b.len() <= 48 {
        hex(b)
    } else {
        digest(b)
    }
}

fn show_codes(c: &[(u32, u8)]) -> String {
    if c.is_empty() {
        return "-".into();
    }
    c.iter().map(|(c, n)| format!("{}:{}", c, n)).collect::<Vec<_>>().join(",")
}

fn ok_or_fault<T>(r: Result<T, String>, f: impl FnOnce(T) -> String) -> String {
    match r {
        Ok(v) => format!("ok {}", f(v)),
        Err(_) => "fault".into(),
    }
}

fn huf_err(e: &HuffmanTableError) -> String {
    use HuffmanTableError as E;
    match e {
        E::GetBitsError(_) => "GetBitsError".into(),
        E::FSEDecoderError(_) => "FSEDecoderError".into(),
        E::FSETableError(t) => {
            use ruzstd::decoding::errors::FSETableError as T;
            let v = match t {
                T::AccLogIsZero => "acclogzero".to_string(),
                T::AccLogTooBig { got, max } => format!("acclogtoobig {} {}", got, max),
                T::GetBitsError(g) => {
                    let (name, nums) = crate::engines::bits::getbits_err_parts(&format!("{:?}", g));
                    match (name.as_str(), nums.as_slice()) {
                        ("TooManyBits", [q, _]) => format!("getbits toomany {}", q),
                        ("NotEnoughRemainingBits", [q, m]) => format!("getbits notenough {} {}", q, m),
                        _ => format!("getbits ?{}", name),
                    }
                }
                T::ProbabilityCounterMismatch { got, expected_sum, .. } => format!("countermismatch {} {}", got, expected_sum),
                T::TooManySymbols { got } => format!("toomanysymbols {}", got),
                #[allow(unreachable_patterns)]
                _ => "other".to_string(),
            };
            format!("FSETableError {}", v)
        }
        E::SourceIsEmpty => "SourceIsEmpty".into(),
        E::NotEnoughBytesForWeights { got_bytes, expected_bytes } => format!("NotEnoughBytesForWeights {} {}", got_bytes, expected_bytes),
        E::ExtraPadding { skipped_bits } => format!("ExtraPadding {}", skipped_bits),
        E::TooManyWeights { got } => format!("TooManyWeights {}", got),
        E::MissingWeights => "MissingWeights".into(),
        E::LeftoverIsNotAPowerOf2 { got } => format!("LeftoverIsNotAPowerOf2 {}", got),
        E::NotEnoughBytesToDecompressWeights { have, need } => format!("NotEnoughBytesToDecompressWeights {} {}", have, need),
        E::FSETableUsedTooManyBytes { used, available_bytes } => format!("FSETableUsedTooManyBytes {} {}", used, available_bytes),
        E::NotEnoughBytesInSource { got, need } => format!("NotEnoughBytesInSource {} {}", got, need),
        E::WeightBiggerThanMaxNumBits { got } => format!("WeightBiggerThanMaxNumBits {}", got),
        E::MaxBitsTooHigh { got } => format!("MaxBitsTooHigh {}", got),
        #[allow(unreachable_patterns)]
        _ => "Other".into(),
    }
}

fn lit_err(e: &DecompressLiteralsError) -> String {
    use DecompressLiteralsError as E;
    match e {
        E::MissingCompressedSize => "MissingCompressedSize".into(),
        E::MissingNumStreams => "MissingNumStreams".into(),
        E::GetBitsError(_) => "GetBitsError".into(),
        E::HuffmanTableError(h) => format!("Huf.{}", huf_err(h)),
        E::HuffmanDecoderError(_) => "HuffmanDecoderError".into(),
        E::UninitializedHuffmanTable => "UninitializedHuffmanTable".into(),
        E::MissingBytesForJumpHeader { got } => format!("MissingBytesForJumpHeader {}", got),
        E::MissingBytesForLiterals { got, needed } => format!("MissingBytesForLiterals {} {}", got, needed),
        E::ExtraPadding { skipped_bits } => format!("ExtraPadding {}", skipped_bits),
        E::BitstreamReadMismatch { read_til, expected } => format!("BitstreamReadMismatch {} {}", read_til, expected),
        E::DecodedLiteralCountMismatch { decoded, expected } => format!("DecodedLiteralCountMismatch {} {}", decoded, expected),
        #[allow(unreachable_patterns)]
        _ => "Other".into(),
    }
}

fn show_state(t: &DecTable) -> String {
    let mut d = Vec::new();
    for (s, n) in t.verif_decode() {
        d.push(s);
        d.push(n);
    }
    format!("mb={} w={} b={} d={}", t.max_num_bits, csv(t.verif_weights()), csv(t.verif_bits()), digest(&d))
}

/// `huf build <hex>` answer; `t` carries the state
fn build_answer(t: &mut DecTable, src: &[u8]) -> String {
    let r = guarded(|| t.build_decoder(src));
    match r {
        Err(_) => "fault".into(),
        Ok(Ok(used)) => format!("ok {} {}", used, show_state(t)),
        Ok(Err(e)) => format!("err {} | {}", huf_err(&e), show_state(t)),
    }
}

#[derive(Clone)]
struct LitCase {
    ty: char, // c compressed, t treeless, r raw, l rle
    streams: u8,
    regen: u32,
    csize: Option<u32>,
    table: Vec<u8>, // description used to pre-build the table (treeless), may be empty
    src: Vec<u8>,
    pre: Vec<u8>,
}

fn lit_line(c: &LitCase) -> String {
    format!(
        "huf declit {} {} {} {} {} {} {}",
        c.ty,
        c.streams,
        c.regen,
        c.csize.map(|x| x.to_string()).unwrap_or("-".into()),
        hex(&c.table),
        hex(&c.src),
        hex(&c.pre)
    )
}

fn run_lit(c: &LitCase) -> (String, Option<Vec<u8>>) {
    let r = guarded(|| {
        let mut scratch = HuffmanScratch::new();
        if !c.table.is_empty() {
            let _ = scratch.table.build_decoder(&c.table);
        }
        let mut sec = LiteralsSection::new();
        sec.ls_type = match c.ty {
            'c' => LiteralsSectionType::Compressed,
            't' => LiteralsSectionType::Treeless,
            'r' => LiteralsSectionType::Raw,
            _ => LiteralsSectionType::RLE,
        };
        sec.regenerated_size = c.regen;
        sec.compressed_size = c.csize;
        sec.num_streams = if c.streams == 0 { None } else { Some(c.streams) };
        let mut target = c.pre.clone();
        let r = decode_literals(&sec, &mut scratch, &c.src, &mut target);
        (r, target, scratch.table.max_num_bits)
    });
    match r {
        Err(_) => ("fault".into(), None),
        Ok((Ok(used), target, mb)) => (format!("ok {} {} mb={}", used, show_bytes(&target), mb), Some(target)),
        Ok((Err(e), _, mb)) => (format!("err {} mb={}", lit_err(&e), mb), None),
    }
}

/// literals-section header written by an independent serialiser (RFC 8878 §3.1.1.3.1.1)
fn lit_header(ty: u8, streams: u8, regen: usize, comp: usize) -> Option<Vec<u8>> {
    let (sf, bits) = if streams == 1 {
        if regen >= 1024 || comp >= 1024 {
            return None;
        }
        (0u64, 10)
    } else if regen < 1024 && comp < 1024 {
        (1, 10)
    } else if regen < 16384 && comp < 16384 {
        (2, 14)
    } else if regen < 262144 && comp < 262144 {
        (3, 18)
    } else {
        return None;
    };
    let v: u64 = ty as u64 | (sf << 2) | ((regen as u64) << 4) | ((comp as u64) << (4 + bits));
    let n = (4 + 2 * bits) / 8;
    Some(v.to_le_bytes()[..n].to_vec())
}

/// a whole frame with one compressed block holding only literals (no sequences)
fn frame_with_literals(streams: u8, regen: usize, payload: &[u8]) -> Option<Vec<u8>> {
    let hdr = lit_header(2, streams, regen, payload.len())?;
    let mut block = hdr;
    block.extend_from_slice(payload);
    block.push(0); // zero sequences
    if block.len() >= 1 << 17 {
        return None;
    }
    let mut f = vec![0x28, 0xB5, 0x2F, 0xFD, 0x00, 0x38]; // magic, FHD 0, window descriptor: 128 KiB
    let bh: u32 = 1 | (2 << 1) | ((block.len() as u32) << 3);
    f.extend_from_slice(&bh.to_le_bytes()[..3]);
    f.extend_from_slice(&block);
    Some(f)
}

struct Ctx<'a> {
    run: &'a mut Run,
    rng: Rng,
    thorough: bool,
    lit_pool: Vec<LitCase>,
    desc_pool: Vec<Vec<u8>>,
}

impl Ctx<'_> {
    /// Everything about one histogram: table, description, decoder, streams, oracles.
    fn table_case(&mut self, counts: &[usize], tag: &str, lens: &[usize]) {
        let cs = csv(counts);
        let n = counts.iter().filter(|c| **c > 0).count();
        self.run.stat(&format!("tables_{}", tag), 1);
        let t = guarded(|| HufEncTable::build_from_counts(counts));
        let codes = t.as_ref().ok().map(huf_enc::codes);
        self.run.case(format!("huf counts {}", cs), ok_or_fault(codes.clone().ok_or(String::new()), |c| show_codes(&c)));
        let in_range = (2..=256).contains(&n) && counts.len() <= 256;
        let (t, codes) = match (t, codes) {
            (Ok(t), Some(c)) => (t, c),
            _ => {
                if in_range {
                    self.run.oracle_checks += 1;
                    self.run.fail("C13", "build_from_counts_panics", format!("build_from_counts panics for a histogram with {} distinct symbols", n), format!("huf counts {}", cs));
                }
                return;
            }
        };
        // ---- oracle: complete prefix-free code of depth <= 11
        self.run.oracle_checks += 1;
        let used: Vec<(usize, u32, u8)> = codes.iter().enumerate().filter(|(_, c)| c.1 > 0).map(|(i, c)| (i, c.0, c.1)).collect();
        let maxlen = used.iter().map(|c| c.2).max().unwrap_or(0);
        let kraft: u64 = used.iter().map(|c| 1u64 << (32 - c.2 as u32)).sum();
        let mut bad = None;
        if used.len() != n || counts.iter().zip(codes.iter()).any(|(c, k)| (*c > 0) != (k.1 > 0)) {
            bad = Some("symbols with a code are not exactly the symbols that occur".to_string());
        } else if kraft != 1u64 << 32 {
            bad = Some(format!("Kraft sum is {}/2^32, not 1", kraft));
        } else if maxlen > 11 {
            bad = Some(format!("depth {} > 11", maxlen));
        } else {
            'o: for a in &used {
                if (a.1 as u64) >= (1u64 << a.2) {
                    bad = Some(format!("code of symbol {} wider than its length", a.0));
                    break;
                }
                for b in &used {
                    if a.0 != b.0 && a.2 <= b.2 && (b.1 >> (b.2 - a.2)) == a.1 {
                        bad = Some(format!("code of symbol {} is a prefix of the code of symbol {}", a.0, b.0));
                        break 'o;
                    }
                }
            }
        }
        if let Some(b) = bad {
            self.run.fail("C13", "table_not_complete_prefix_code", format!("table for {} symbols: {}", n, b), format!("huf counts {}", cs));
        }
        // ---- rank monotonicity (more frequent => not longer)
        self.run.oracle_checks += 1;
        for a in 0..counts.len() {
            for b in 0..counts.len() {
                if counts[a] > 0 && counts[b] > counts[a] && codes[b].1 > codes[a].1 {
                    self.run.fail("C13", "rank_order", format!("symbol {} (count {}) has a longer code than symbol {} (count {})", b, counts[b], a, counts[a]), format!("huf counts {}", cs));
                    return;
                }
            }
        }
        // ---- description
        let desc = guarded(|| huf_enc::write_table(&t));
        let ws = guarded(|| huf_enc::weights(&t));
        let fse = match &desc {
            Ok(d) if !d.is_empty() && d[0] < 128 => hex(&d[1..]),
            Ok(_) => "-".into(),
            Err(_) => "!".into(),
        };
        let ans = match (&ws, &desc) {
            (Ok(w), Ok(d)) => format!("ok w={} d={}", csv(w), hex(d)),
            _ => "fault".into(),
        };
        self.run.case(format!("huf desc {} {}", cs, fse), ans);
        self.run.oracle_checks += 1;
        let desc = match desc {
            Ok(d) => d,
            Err(e) => {
                self.run.fail("C13", "write_table_panics", format!("write_table panics for a table with {} symbols ({} weights transmitted): {}", n, counts.len() - 1, e), format!("huf desc {} !", cs));
                return;
            }
        };
        self.run.stat(if desc[0] < 128 { "desc_fse" } else { "desc_direct" }, 1);
        if desc[0] < 128 {
            self.run.stat("desc_fse_maxlen", 0);
            let cur = self.run.stats.iter().find(|(k, _)| k == "desc_fse_maxlen").map(|x| x.1).unwrap_or(0);
            if (desc.len() as u64 - 1) > cur {
                self.run.stat("desc_fse_maxlen", desc.len() as u64 - 1 - cur);
            }
        }
        // ---- decoder on the description (+ trailing garbage that must not be touched)
        let mut src = desc.clone();
        src.extend_from_slice(&[0xAB, 0xCD, 0xEF]);
        let mut dt = DecTable::new();
        let ans = build_answer(&mut dt, &src);
        self.run.case(format!("huf build {}", hex(&src)), ans.clone());
        self.run.oracle_checks += 1;
        let lens_dec: Vec<u8> = dt.verif_bits().to_vec();
        let lens_enc: Vec<u8> = codes.iter().map(|c| c.1).collect();
        if !ans.starts_with(&format!("ok {} ", desc.len())) || lens_dec != lens_enc || dt.max_num_bits != maxlen {
            self.run.fail(
                "C13",
                "decoder_lengths_differ",
                format!("decoder built from the encoder's description ({} bytes) answers `{}`; encoder lengths {:?}, decoder lengths {:?}", desc.len(), &ans[..ans.len().min(60)], lens_enc, lens_dec),
                format!("huf desc {} {}\nhuf build {}", cs, fse, hex(&src)),
            );
        }
        if self.desc_pool.len() < 4000 {
            self.desc_pool.push(desc.clone());
        }
        // ---- streams
        let syms: Vec<u8> = used.iter().map(|c| c.0 as u8).collect();
        for &len in lens {
            let data: Vec<u8> = (0..len).map(|i| if i < syms.len() && self.rng.chance(1, 2) { syms[(i * 7 + 3) % syms.len()] } else { *self.rng.pick(&syms) }).collect();
            for (streams, with_table) in [(1u8, true), (4, true), (1, false), (4, false)] {
                if !with_table && !self.rng.chance(1, 4) {
                    continue;
                }
                let enc = guarded(|| if streams == 1 { huf_enc::encode(&t, &data, with_table) } else { huf_enc::encode4x(&t, &data, with_table) });
                let op = if streams == 1 { "enc1" } else { "enc4" };
                let line = format!("huf {} {} {} {} {}", op, cs, hex(&data), with_table as u8, if with_table { fse.clone() } else { "-".into() });
                self.run.case(line.clone(), ok_or_fault(enc.clone(), |e| show_bytes(&e)));
                self.run.stat(&format!("{}_len_mod4_{}", op, len % 4), 1);
                let enc = match enc {
                    Ok(e) => e,
                    Err(e) => {
                        let expected_panic = (streams == 4 && (len < 4 || len == 5)) || false;
                        if !expected_panic {
                            self.run.oracle_checks += 1;
                            self.run.fail("C13", "encode_panics", format!("{} panics on {} literals over {} symbols: {}", op, len, n, e), line);
                        }
                        continue;
                    }
                };
                // round trip through the real decode_literals
                let lc = LitCase {
                    ty: if with_table { 'c' } else { 't' },
                    streams,
                    regen: len as u32,
                    csize: Some(enc.len() as u32),
                    table: if with_table { vec![] } else { desc.clone() },
                    src: {
                        let mut s = enc.clone();
                        s.extend_from_slice(&[0x5A, 0xA5]);
                        s
                    },
                    pre: vec![],
                };
                let (ans, lits) = run_lit(&lc);
                self.run.case(lit_line(&lc), ans.clone());
                self.run.oracle_checks += 1;
                if lits.as_deref() != Some(&data[..]) || !ans.starts_with(&format!("ok {} ", enc.len())) {
                    self.run.fail(
                        "C13",
                        "literals_roundtrip",
                        format!("{} stream(s), {} literals over {} symbols: decode_literals(encode(x)) answers `{}`", streams, len, n, &ans[..ans.len().min(80)]),
                        format!("{}\n{}", line, lit_line(&lc)),
                    );
                }
                // libzstd on a frame built around the encoder's bytes
                if with_table && len > 0 && (streams == 1 || len >= 6) && (self.thorough || self.rng.chance(1, 3)) {
                    if let Some(f) = frame_with_literals(streams, len, &enc) {
                        self.run.oracle_checks += 1;
                        self.run.stat("libzstd_frames", 1);
                        match zstd::stream::decode_all(&f[..]) {
                            Ok(d) if d == data => {}
                            other => self.run.fail(
                                "C13",
                                "libzstd_rejects_literals",
                                format!("libzstd does not reproduce {} literals ({} streams, {} symbols) from the encoder's section: {:?}", len, streams, n, other.map(|d| d.len())),
                                line.clone(),
                            ),
                        }
                    }
                }
                if self.lit_pool.len() < 600 && len <= 400 {
                    self.lit_pool.push(lc);
                }
            }
        }
    }
}

fn gen_counts(rng: &mut Rng, n: usize, order: usize, placement: usize) -> Vec<usize> {
    // counts of the n used symbols
    let mut cs: Vec<usize> = match order {
        0 => (1..=n).collect(),                                  // ascending, all distinct
        1 => (1..=n).rev().collect(),                            // descending
        2 => (0..n).map(|_| rng.range(1, 40) as usize).collect(), // random with ties
        3 => vec![7; n],                                         // all equal
        _ => (0..n).map(|i| 1usize << (i % 20).min(rng.below(20) as usize)).collect(), // geometric-ish
    };
    if order == 2 && rng.chance(1, 2) {
        for c in cs.iter_mut() {
            *c = *c * 1000 + rng.below(1000) as usize;
        }
    }
    // placement of the unused symbols
    match placement {
        0 => cs,
        1 => {
            let z = rng.range(1, (256 - n).max(1) as u64) as usize;
            if n + z > 256 {
                return cs;
            }
            let mut v = vec![0; z];
            v.extend(cs);
            v
        }
        2 => {
            let mut v = Vec::new();
            for (i, c) in cs.iter().enumerate() {
                v.push(*c);
                if i + 1 < n && v.len() + (n - i - 1) < 256 {
                    v.push(0);
                }
            }
            v
        }
        _ => {
            // n-1 symbols at the bottom, the unused ones, then symbol 255
            let mut v = cs[..n - 1].to_vec();
            v.resize(255, 0);
            v.push(cs[n - 1]);
            v
        }
    }
}

pub fn run(opts: &Opts) -> Run {
    let mut run = Run::new("huf");
    let rng = Rng::new(opts.seed ^ 0x48_55_46);
    let mut cx = Ctx { run: &mut run, rng, thorough: opts.thorough, lit_pool: vec![], desc_pool: vec![] };

    // ---- corpus: F10 (single distinct value) and the degenerate inputs around it
    for d in [vec![7u8; 2000], vec![0u8; 3], vec![], vec![5u8], vec![1, 1, 1, 1, 2, 3], vec![1, 1, 1, 1, 2, 3, 5, 45, 12, 90]] {
        let r = guarded(|| huf_enc::codes(&HufEncTable::build_from_data(&d)));
        cx.run.case(format!("huf data {}", hex(&d)), ok_or_fault(r, |c| show_codes(&c)));
    }
    cx.run.samples.push("huf data <2000 x 07>: build_from_data with a single distinct value (F10, outside C13's quantifier): both sides fault".into());

    // ---- weight shapes: distribute for every amount (0, 1, 257, 258 fault), redistribute for every limit
    for n in 0..=258usize {
        let r = guarded(|| huf_enc::distribute_weights(n));
        cx.run.case(format!("huf dist {}", n), ok_or_fault(r.clone(), |w| csv(&w)));
        if let Ok(w) = r {
            let lo = (n.ilog2() as usize + 1).min(11);
            for limit in lo..=12 {
                if !cx.thorough && limit != n.ilog2() as usize + 2 && (n + limit) % 5 != 0 {
                    continue;
                }
                let mut w2 = w.clone();
                let r = guarded(move || {
                    huf_enc::redistribute_weights(&mut w2, limit);
                    w2
                });
                cx.run.case(format!("huf redist {} {}", limit, csv(&w)), ok_or_fault(r, |w| csv(&w)));
            }
        }
    }
    // arbitrary weight vectors (many of them make the real function panic: the model must fault too)
    let n_rand = if cx.thorough { 20000 } else { 1500 };
    for _ in 0..n_rand {
        let len = cx.rng.range(0, 12) as usize;
        let hi = *cx.rng.pick(&[3u64, 6, 12]);
        let mut w: Vec<usize> = (0..len).map(|_| cx.rng.range(0, hi) as usize).collect();
        if cx.rng.chance(2, 3) {
            w.sort();
        }
        let limit = cx.rng.range(0, 14) as usize;
        let mut w2 = w.clone();
        let r = guarded(move || {
            huf_enc::redistribute_weights(&mut w2, limit);
            w2
        });
        cx.run.stat(if r.is_ok() { "redist_random_ok" } else { "redist_random_fault" }, 1);
        cx.run.case(format!("huf redist {} {}", limit, csv(&w)), ok_or_fault(r, |w| csv(&w)));
        // build_from_weights on arbitrary weights
        let r = guarded(|| huf_enc::codes(&HufEncTable::build_from_weights(&w)));
        cx.run.stat(if r.is_ok() { "fromw_random_ok" } else { "fromw_random_fault" }, 1);
        cx.run.case(format!("huf fromw {}", csv(&w)), ok_or_fault(r, |c| show_codes(&c)));
    }

    // ---- every alphabet size x rank order x placement of unused symbols x literal lengths
    for n in 2..=256usize {
        for order in 0..5usize {
            for placement in 0..4usize {
                let pick = cx.thorough || (n + 2 * order + 3 * placement) % 7 == 0 || n <= 20 && (order + placement) % 3 == 0 || [16, 17, 18, 255, 256].contains(&n) && order < 3;
                if !pick {
                    continue;
                }
                let counts = gen_counts(&mut cx.rng, n, order, placement);
                let base = cx.rng.range(4, 9) as usize;
                let mut lens = vec![base, base + 1, base + 2, base + 3];
                lens.push(cx.rng.range(13, 300) as usize);
                if n == 2 || cx.rng.chance(1, 40) {
                    lens.extend_from_slice(&[0, 1, 2, 3, 4, 5, 6, 9]);
                }
                if cx.thorough && cx.rng.chance(1, 30) {
                    lens.push(cx.rng.range(1000, 70000) as usize);
                }
                cx.table_case(&counts, &format!("o{}p{}", order, placement), &lens);
            }
        }
    }
    // ---- fse_weights_lt_128: every alphabet size x every number of unused symbols through the real
    // encoder (implementation-only oracle; the model is not involved): the assertion must not fire,
    // the decoder must recover the lengths, and the largest description is recorded.
    {
        let mut max_desc = 0usize;
        let mut max_at = (0usize, 0usize);
        let mut swept = 0u64;
        for n in 2..=256usize {
            for z in 0..=(256 - n) {
                if !cx.thorough && !(z < 3 || z == 256 - n || (n + z) % 4 == 0) {
                    continue;
                }
                // n used symbols and z unused ones, the last symbol used; unused ones spread at random
                let len = n + z;
                let mut used = vec![true; len];
                let mut left = z;
                while left > 0 {
                    let i = cx.rng.below(len as u64 - 1) as usize;
                    if used[i] {
                        used[i] = false;
                        left -= 1;
                    }
                }
                let counts: Vec<usize> = used.iter().map(|u| if *u { cx.rng.range(1, 1000) as usize } else { 0 }).collect();
                swept += 1;
                cx.run.oracle_checks += 1;
                let r = guarded(|| {
                    let t = HufEncTable::build_from_counts(&counts);
                    let d = huf_enc::write_table(&t);
                    let lens: Vec<u8> = huf_enc::codes(&t).iter().map(|c| c.1).collect();
                    (d, lens)
                });
                match r {
                    Err(e) => cx.run.fail("C13", "write_table_panics", format!("{} used + {} unused symbols: table/description panics: {}", n, z, e), format!("huf desc {} !", csv(&counts))),
                    Ok((d, lens)) => {
                        if d[0] < 128 && d.len() - 1 > max_desc {
                            max_desc = d.len() - 1;
                            max_at = (n, z);
                        }
                        let mut dt = DecTable::new();
                        let ok = matches!(guarded(|| dt.build_decoder(&d)), Ok(Ok(u)) if u as usize == d.len()) && dt.verif_bits() == &lens[..];
                        if !ok {
                            cx.run.fail("C13", "decoder_lengths_differ", format!("{} used + {} unused symbols: the decoder does not recover the encoder's lengths from the {}-byte description", n, z, d.len()), format!("huf desc {} {}", csv(&counts), if d[0] < 128 { hex(&d[1..]) } else { "-".into() }));
                        }
                    }
                }
            }
        }
        cx.run.stat("fse_sweep_tables", swept);
        cx.run.stat("fse_sweep_max_payload_bytes", max_desc as u64);
        cx.run.notes.push(format!("fse_weights_lt_128 sweep: {} (used, unused) combinations, largest FSE payload {} bytes at n={} z={} (limit 127)", swept, max_desc, max_at.0, max_at.1));
    }
    // out-of-range histograms: 0, 1 used symbols, more than 256 entries
    for counts in [vec![], vec![0usize], vec![5], vec![0, 0, 9], vec![1; 257], vec![3, 0, 4, 1, 5]] {
        cx.table_case(&counts, "edge", &[6]);
    }
    // tables from data
    let n_data = if cx.thorough { 3000 } else { 200 };
    for i in 0..n_data {
        let kind = crate::gen::DATA_KINDS[i % crate::gen::DATA_KINDS.len()];
        let len = cx.rng.range(0, 600) as usize;
        let d = crate::gen::data(&mut cx.rng, kind, len);
        let r = guarded(|| huf_enc::codes(&HufEncTable::build_from_data(&d)));
        cx.run.stat(if r.is_ok() { "data_ok" } else { "data_fault" }, 1);
        cx.run.case(format!("huf data {}", hex(&d)), ok_or_fault(r, |c| show_codes(&c)));
    }
    // can_encode
    for _ in 0..(if cx.thorough { 3000 } else { 300 }) {
        let n1 = cx.rng.range(2, 12) as usize;
        let mut a = gen_counts(&mut cx.rng, n1, 2, 0);
        let mut b = a.clone();
        match cx.rng.below(5) {
            0 => {
                let i = cx.rng.below(b.len() as u64) as usize;
                b[i] = 0;
                if b.iter().filter(|c| **c > 0).count() < 2 {
                    b = a.clone();
                }
            }
            4 => {
                // the OLD table lacks a value the new literals use
                let i = cx.rng.below(a.len() as u64) as usize;
                let keep = a[i];
                a[i] = 0;
                if a.iter().filter(|c| **c > 0).count() < 2 || *a.last().unwrap() == 0 {
                    a[i] = keep;
                }
            }
            1 => b.push(3),
            2 => {
                a.push(2);
                b.swap(0, n1 - 1)
            }
            _ => b = gen_counts(&mut cx.rng, n1, 2, 0),
        }
        if *b.last().unwrap() == 0 {
            b.push(1);
        }
        let r = guarded(|| {
            let ta = HufEncTable::build_from_counts(&a);
            let tb = HufEncTable::build_from_counts(&b);
            ta.can_encode(&tb)
        });
        // oracle: a table declared reusable has a code for every value the new literals contain (otherwise the
        // literals cannot round-trip through it)
        cx.run.oracle_checks += 1;
        if let Ok(Some(_)) = &r {
            if let Some(i) = (0..b.len()).find(|&i| b[i] > 0 && a.get(i).copied().unwrap_or(0) == 0) {
                cx.run.fail("C13", "canenc_uncovered", format!("can_encode says the table built from counts {:?} can be reused for literals with counts {:?}, but it has no code for value {}", a, b, i), format!("huf canenc {} {}", csv(&a), csv(&b)));
            }
        }
        cx.run.case(format!("huf canenc {} {}", csv(&a), csv(&b)), ok_or_fault(r, |o| o.map(|n| n.to_string()).unwrap_or("none".into())));
    }

    // ---- decoder: all direct descriptions with few weights, exhaustively (valid and invalid)
    let full = if cx.thorough { 4 } else { 3 };
    let reduced: &[u8] = &[0, 1, 2, 3, 4, 5, 11, 12];
    for k in 1..=6usize {
        let alphabet: Vec<u8> = if k <= full { (0..16).collect() } else if cx.thorough || k <= 4 { reduced.to_vec() } else { vec![0, 1, 2, 3, 12] };
        let total = alphabet.len().pow(k as u32);
        for code in 0..total {
            let mut c = code;
            let mut w = vec![0u8; k];
            for x in w.iter_mut() {
                *x = alphabet[c % alphabet.len()];
                c /= alphabet.len();
            }
            let mut src = vec![127 + k as u8];
            for p in w.chunks(2) {
                src.push((p[0] << 4) | if p.len() > 1 { p[1] } else { 0 });
            }
            let mut t = DecTable::new();
            let ans = build_answer(&mut t, &src);
            cx.run.stat(if ans.starts_with("ok") { "direct_small_ok" } else { "direct_small_err" }, 1);
            // oracle: an accepted description is a complete code of depth <= 11; rejected ones are not
            cx.run.oracle_checks += 1;
            let sum: u64 = w.iter().map(|x| if *x > 0 { 1u64 << (*x - 1) } else { 0 }).sum();
            let valid = w.iter().all(|x| *x <= 11) && sum > 0 && {
                let mb = 64 - sum.leading_zeros();
                ((1u64 << mb) - sum).is_power_of_two() && mb <= 11
            };
            if valid != ans.starts_with("ok") || ans == "fault" {
                cx.run.fail("C13", "bad_weights_verdict", format!("direct description with weights {:?} (valid: {}) answered `{}`", w, valid, &ans[..ans.len().min(50)]), format!("huf build {}", hex(&src)));
            }
            cx.run.case(format!("huf build {}", hex(&src)), ans);
        }
    }
    // FSE-compressed descriptions at the edges of what the format allows, cut out of valid frames (corpus/dec/hufweights_*:
    // accuracy log 6 = the maximum; distributions that also give probability to weight symbols that never occur, 14 and
    // 42 symbols): the reference decoder and the RFC Spec accept them, so must `build_decoder`
    if let Ok(rd) = std::fs::read_dir("corpus/dec") {
        let mut files: Vec<_> = rd.filter_map(|e| e.ok()).map(|e| e.path()).filter(|p| p.file_name().map(|n| n.to_string_lossy().starts_with("hufweights_")).unwrap_or(false)).collect();
        files.sort();
        for f in files {
            if let Ok(b) = std::fs::read(&f) {
                // frame header 6 bytes (single segment, 1-byte content size), block header 3, literals header 3
                if b.len() > 13 && (b[12] as usize) < 128 && b.len() >= 13 + b[12] as usize {
                    let desc = b[12..13 + b[12] as usize].to_vec();
                    let mut t = DecTable::new();
                    let ans = build_answer(&mut t, &desc);
                    cx.run.oracle_checks += 1;
                    if !ans.starts_with("ok") {
                        cx.run.fail("C13", "valid_fse_description_rejected", format!("the weight description of {} (accepted by the reference decoder and the RFC Spec) answered `{}`", f.display(), &ans[..ans.len().min(60)]), format!("huf build {}", hex(&desc)));
                    }
                    cx.run.stat("corpus_fse_descriptions", 1);
                    cx.run.case(format!("huf build {}", hex(&desc)), ans);
                }
            }
        }
    }
    // longer direct descriptions: valid by construction, then broken
    for _ in 0..(if cx.thorough { 20000 } else { 1500 }) {
        let k = cx.rng.range(1, 128) as usize;
        let hi = *cx.rng.pick(&[2u64, 4, 8, 11, 12, 15]);
        let mut w: Vec<u8> = (0..k).map(|_| if cx.rng.chance(1, 5) { 0 } else { cx.rng.range(0, hi) as u8 }).collect();
        if cx.rng.chance(2, 3) {
            // repair: make the sum + 2^j a power of two by adjusting the tail with weight-1 symbols
            let sum: u64 = w.iter().map(|x| if *x > 0 { 1u64 << (*x - 1) } else { 0 }).sum();
            if sum > 0 && sum < 2048 {
                let target = sum.next_power_of_two();
                let mut missing = if target == sum { 0 } else { target - sum };
                // leave the highest set bit of `missing` to the implied last weight
                if missing > 0 {
                    missing -= 1 << (63 - missing.leading_zeros());
                }
                let mut j = 0;
                while missing > 0 && w.len() < 255 {
                    if missing & 1 == 1 {
                        w.push(j + 1);
                    }
                    missing >>= 1;
                    j += 1;
                }
            }
        }
        if w.len() > 128 {
            w.truncate(128);
        }
        let mut src = vec![127 + w.len() as u8];
        for p in w.chunks(2) {
            src.push((p[0] << 4) | if p.len() > 1 { p[1] } else { 0 });
        }
        match cx.rng.below(8) {
            0 => {
                src.pop();
            }
            1 => {
                let l = cx.rng.below(src.len() as u64) as usize;
                src.truncate(l)
            }
            2 => src.extend_from_slice(&[1, 2, 3]),
            _ => {}
        }
        let mut t = DecTable::new();
        let ans = build_answer(&mut t, &src);
        cx.run.stat(if ans.starts_with("ok") { "direct_long_ok" } else { "direct_long_err" }, 1);
        cx.run.case(format!("huf build {}", hex(&src)), ans);
    }
    // FSE-compressed descriptions from the real encoder: intact, truncated, mutated
    let pool = cx.desc_pool.clone();
    for d in pool.iter().filter(|d| d[0] < 128) {
        for _ in 0..(if cx.thorough { 6 } else { 2 }) {
            let mut src = d.clone();
            match cx.rng.below(6) {
                0 => {
                    let l = cx.rng.below(src.len() as u64) as usize;
                    src.truncate(l)
                }
                1 => src[0] = src[0].wrapping_sub(1).min(127),
                2 => src[0] = (src[0] + 1).min(127),
                3 => {
                    let i = cx.rng.below(src.len() as u64) as usize;
                    src[i] ^= 1 << cx.rng.below(8)
                }
                4 => {
                    let i = cx.rng.below(src.len() as u64) as usize;
                    src[i] = cx.rng.next() as u8
                }
                _ => {
                    let l = src.len();
                    src[l - 1] = 0
                }
            }
            let mut t = DecTable::new();
            let ans = build_answer(&mut t, &src);
            cx.run.stat(if ans.starts_with("ok") { "fse_mutated_ok" } else { "fse_mutated_err" }, 1);
            cx.run.case(format!("huf build {}", hex(&src)), ans);
        }
    }
    // random byte strings as descriptions
    for _ in 0..(if cx.thorough { 60000 } else { 4000 }) {
        let len = cx.rng.range(0, 40) as usize;
        let mut src = cx.rng.bytes(len);
        if len > 0 && cx.rng.chance(1, 2) {
            src[0] = cx.rng.range(0, (len as u64).min(127)) as u8; // plausible FSE header
        }
        if len > 1 && cx.rng.chance(1, 2) {
            src[1] = (src[1] & 0xF0) | cx.rng.below(2) as u8; // accuracy log 5 or 6
        }
        let mut t = DecTable::new();
        let ans = build_answer(&mut t, &src);
        cx.run.stat(if ans.starts_with("ok") { "random_desc_ok" } else { "random_desc_err" }, 1);
        cx.run.case(format!("huf build {}", hex(&src)), ans);
    }
    // state carried from one build_decoder call to the next (Vec::resize keeps old weights, ...)
    for _ in 0..(if cx.thorough { 5000 } else { 500 }) {
        let a = if !pool.is_empty() && cx.rng.chance(1, 2) { cx.rng.pick(&pool).clone() } else { let l = cx.rng.range(0, 12) as usize; let mut v = cx.rng.bytes(l); if l > 0 { v[0] |= 0x80; v[0] &= 0x8F; } v };
        let mut b = if !pool.is_empty() && cx.rng.chance(1, 2) { cx.rng.pick(&pool).clone() } else { let l = cx.rng.range(0, 12) as usize; let mut v = cx.rng.bytes(l); if l > 0 { v[0] |= 0x80; v[0] &= 0x9F; } v };
        if cx.rng.chance(1, 2) && !b.is_empty() {
            let l = cx.rng.range(1, b.len() as u64) as usize;
            b.truncate(l);
        }
        let mut t = DecTable::new();
        let _ = guarded(|| t.build_decoder(&a));
        let ans = build_answer(&mut t, &b);
        cx.run.case(format!("huf build2 {} {}", hex(&a), hex(&b)), ans);
    }

    // ---- decode_literals: malformed variants of valid sections
    let lits = cx.lit_pool.clone();
    for lc in lits.iter() {
        for _ in 0..(if cx.thorough { 8 } else { 2 }) {
            let mut c = lc.clone();
            match cx.rng.below(12) {
                0 => c.regen = c.regen.wrapping_add(1),
                1 => c.regen = c.regen.saturating_sub(1),
                2 => c.csize = c.csize.map(|x| x.saturating_sub(1)),
                3 => c.csize = c.csize.map(|x| x + 1),
                4 => c.csize = c.csize.map(|x| x + 3), // beyond the source: index panic in the real code
                5 => {
                    let i = cx.rng.below(c.src.len() as u64) as usize;
                    c.src[i] ^= 1 << cx.rng.below(8)
                }
                6 => {
                    let i = cx.rng.below(c.src.len() as u64) as usize;
                    c.src[i] = 0
                }
                7 => c.streams = if c.streams == 1 { 4 } else { 1 },
                8 => c.pre = cx.rng.bytes(3),
                9 => {
                    c.ty = 't';
                    c.table = vec![]
                }
                10 => {
                    c.csize = None;
                }
                _ => {
                    c.streams = *cx.rng.pick(&[0u8, 2, 3]);
                }
            }
            let (ans, _) = run_lit(&c);
            cx.run.stat(&format!("declit_mut_{}", ans.split(' ').take(2).collect::<Vec<_>>().join("_")), 1);
            cx.run.case(lit_line(&c), ans);
        }
    }
    // treeless after a failed build: the table keeps max_num_bits of the failed attempt
    for _ in 0..(if cx.thorough { 3000 } else { 300 }) {
        let l = cx.rng.range(1, 10) as usize;
        let mut table = cx.rng.bytes(l);
        table[0] = 0x80 | cx.rng.range(0, 8) as u8;
        for x in table.iter_mut().skip(1) {
            if cx.rng.chance(1, 2) {
                *x &= 0x33;
            }
        }
        let l = cx.rng.range(0, 12) as usize;
        let src = cx.rng.bytes(l);
        let c = LitCase { ty: 't', streams: *cx.rng.pick(&[1u8, 4]), regen: cx.rng.range(0, 20) as u32, csize: Some(l as u32), table, src, pre: vec![] };
        let (ans, _) = run_lit(&c);
        cx.run.stat(&format!("declit_treeless_{}", ans.split(' ').take(2).collect::<Vec<_>>().join("_")), 1);
        cx.run.case(lit_line(&c), ans);
    }
    // random sections, raw and RLE
    for _ in 0..(if cx.thorough { 20000 } else { 1500 }) {
        let l = cx.rng.range(0, 30) as usize;
        let mut src = cx.rng.bytes(l);
        if l > 0 && cx.rng.chance(2, 3) {
            src[0] = 0x80 | cx.rng.range(1, 6) as u8;
            for x in src.iter_mut().skip(1).take(3) {
                *x &= 0x33;
            }
        }
        let ty = *cx.rng.pick(&['c', 'c', 'c', 'r', 'l']);
        let c = LitCase {
            ty,
            streams: *cx.rng.pick(&[1u8, 4]),
            regen: cx.rng.range(0, 40) as u32,
            csize: Some(cx.rng.range(0, l as u64 + 1) as u32),
            table: vec![],
            src,
            pre: if cx.rng.chance(1, 5) { vec![9, 9] } else { vec![] },
        };
        let (ans, _) = run_lit(&c);
        cx.run.stat(&format!("declit_random_{}", ans.split(' ').take(2).collect::<Vec<_>>().join("_")), 1);
        cx.run.case(lit_line(&c), ans);
    }

    // ---- the reversed bit reader against the abstract reader of the model
    for _ in 0..(if cx.thorough { 20000 } else { 2000 }) {
        let l = cx.rng.range(0, 24) as usize;
        let src = cx.rng.bytes(l);
        let k = cx.rng.range(1, 30) as usize;
        let hi = *cx.rng.pick(&[1u64, 6, 11, 32, 56]);
        let ns: Vec<u8> = (0..k).map(|_| cx.rng.range(0, hi) as u8).collect();
        let r = guarded(|| {
            let mut br = BitReaderReversed::new(&src);
            ns.iter().map(|n| { let v = br.get_bits(*n); format!("{}:{}", v, br.bits_remaining()) }).collect::<Vec<_>>().join(" ")
        });
        cx.run.case(format!("huf rev {} {}", hex(&src), csv(&ns)), ok_or_fault(r, |s| s));
    }

    let n_cases = cx.run.cases.len();
    cx.run.samples.push(format!("{} requests; e.g. `{}` -> `{}`", n_cases, &cx.run.cases[300.min(n_cases - 1)][..cx.run.cases[300.min(n_cases - 1)].len().min(120)], &cx.run.impl_out[300.min(n_cases - 1)][..cx.run.impl_out[300.min(n_cases - 1)].len().min(120)]));
    run
}

/// Re-execute one `huf canenc A B` / `huf build HEX` request on the real code (with the request's oracle).
pub fn replay_line(run: &mut Run, line: &str) -> Option<String> {
    let t: Vec<&str> = line.split(' ').collect();
    match t.as_slice() {
        ["huf", "canenc", a, b] => {
            let a: Vec<usize> = a.split(',').filter_map(|x| x.parse().ok()).collect();
            let b: Vec<usize> = b.split(',').filter_map(|x| x.parse().ok()).collect();
            let (a2, b2) = (a.clone(), b.clone());
            let r = guarded(move || {
                let ta = HufEncTable::build_from_counts(&a2);
                let tb = HufEncTable::build_from_counts(&b2);
                ta.can_encode(&tb)
            });
            run.oracle_checks += 1;
            if let Ok(Some(_)) = &r {
                if let Some(i) = (0..b.len()).find(|&i| b[i] > 0 && a.get(i).copied().unwrap_or(0) == 0) {
                    run.fail("C13", "canenc_uncovered", format!("can_encode says the table built from counts {:?} can be reused for literals with counts {:?}, but it has no code for value {}", a, b, i), line.to_string());
                }
            }
            Some(ok_or_fault(r, |o| o.map(|n| n.to_string()).unwrap_or("none".into())))
        }
        ["huf", "build", h] => {
            let src = unhex(h)?;
            let mut tb = DecTable::new();
            Some(build_answer(&mut tb, &src))
        }
        _ => None,
    }
}
