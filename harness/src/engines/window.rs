//! Engine `window` (C11): the window limit on the REAL `FrameDecoder` (`reset`/`init`), `decode_all`
//! and `StreamingDecoder`, for all 256 window descriptors and a grid of single-segment content sizes
//! × limits {w−1, w, w+1, default, format maximum, u64::MAX} × decoder histories (fresh, after a
//! rejected frame, after one frame, after two frames), with header-only / empty-body sources.
//! The harness's counting global allocator (`crate::alloc_count`) observes that a rejection happens before any allocation; the ring
//! buffer's own allocations are taken from the `verif_hooks` memory trace and compared with the model.
use crate::util::*;
use ruzstd::decoding::errors::{FrameDecoderError as E, FrameDescriptorError as D, FrameHeaderError as F, ReadFrameHeaderError as R};
use ruzstd::decoding::{FrameDecoder, StreamingDecoder};
use crate::alloc_count;

const MAGIC: [u8; 4] = [0x28, 0xB5, 0x2F, 0xFD];
const DEFAULT: u64 = 128 * 1024 * 1024;
const MAX: u64 = (1 << 41) + 7 * (1 << 38);
/// reuse-path acceptance allocates up to `next_power_of_two(window + 1) + 1` (≈ 2·window when the ring already
/// holds a small allocation and the window is a power of two): only exercised up to this window
const BUDGET_WINDOW: u64 = 1 << 27;

fn show_err(e: &E) -> String {
    match e {
        E::WindowSizeTooBig { requested, max } => format!("err window {} {}", requested, max),
        E::FrameHeaderError(F::WindowTooBig { got }) => format!("err toobig {}", got),
        E::FrameHeaderError(F::WindowTooSmall { got }) => format!("err toosmall {}", got),
        E::ReadFrameHeaderError(r) => format!(
            "err header {}",
            match r {
                R::MagicNumberReadError(_) => "magic".to_string(),
                R::FrameDescriptorReadError(_) => "desc".to_string(),
                R::WindowDescriptorReadError(_) => "window".to_string(),
                R::DictionaryIdReadError(_) => "dictid".to_string(),
                R::FrameContentSizeReadError(_) => "fcs".to_string(),
                R::SkipFrame { magic_number, length } => format!("skip:{}:{}", magic_number, length),
                R::BadMagicNumber(m) => format!("badmagic:{}", m),
                R::InvalidFrameDescriptor(D::InvalidFrameContentSizeFlag { got }) => format!("flag:{}", got),
                _ => "other".to_string(),
            }
        ),
        E::DictNotProvided { dict_id } => format!("err dict {}", dict_id),
        E::FailedToSkipFrame => "err skipfail".into(),
        other => format!("err other:{}", format!("{:?}", other).split(|c: char| !c.is_alphanumeric()).next().unwrap_or("")),
    }
}

#[derive(Clone, Debug)]
pub enum Op {
    Set(u64),
    Reset(Vec<u8>),
    All(Vec<u8>),
    SNew(Vec<u8>),
    SNewMax(u64, Vec<u8>),
    SWith(Vec<u8>),
}
impl Op {
    fn text(&self) -> String {
        match self {
            Op::Set(m) => format!("set:{}", m),
            Op::Reset(b) => format!("reset:{}", hex(b)),
            Op::All(b) => format!("all:{}", hex(b)),
            Op::SNew(b) => format!("snew:{}", hex(b)),
            Op::SNewMax(m, b) => format!("snewmax:{}:{}", m, hex(b)),
            Op::SWith(b) => format!("swith:{}", hex(b)),
        }
    }
}

pub struct Obs {
    pub text: String,
    pub outcome: String,
    pub alloc_bytes: usize,
    pub alloc_max: usize,
    pub ring: Vec<usize>,
    pub max_after: Option<u64>,
}

/// run a scenario on the real code; one observation per op
pub fn run_ops(ops: &[Op]) -> Vec<Obs> {
    let mut dec = FrameDecoder::new();
    let mut out = vec![];
    for op in ops {
        ruzstd::verif_hooks::trace_enable(true);
        let _ = ruzstd::verif_hooks::trace_take();
        let base = alloc_count::start();
        let mut max_after = None;
        // counters are read right after the real call returns, before any formatting of the result
        let snap = |x: Result<(), E>| -> (Result<(), E>, usize, usize) {
            let (p, b) = alloc_count::stop(base);
            (x, p, b)
        };
        let rr: Result<(Result<(), E>, usize, usize), String> = match op {
            Op::Set(m) => {
                dec.set_max_window_size(*m);
                Ok(snap(Ok(())))
            }
            Op::Reset(b) => guarded(|| snap(dec.reset(&b[..]))),
            Op::All(b) => guarded(|| {
                let mut target = [0u8; 64];
                snap(dec.decode_all(&b[..], &mut target).map(|_| ()))
            }),
            Op::SNew(b) => guarded(|| {
                let r = StreamingDecoder::new(&b[..]);
                let s = alloc_count::stop(base);
                match r {
                    Ok(sd) => {
                        max_after = Some(sd.decoder.max_window_size());
                        (Ok(()), s.0, s.1)
                    }
                    Err(e) => (Err(e), s.0, s.1),
                }
            }),
            Op::SNewMax(m, b) => guarded(|| {
                let r = StreamingDecoder::new_with_max_window_size(&b[..], *m);
                let s = alloc_count::stop(base);
                match r {
                    Ok(sd) => {
                        max_after = Some(sd.decoder.max_window_size());
                        (Ok(()), s.0, s.1)
                    }
                    Err(e) => (Err(e), s.0, s.1),
                }
            }),
            Op::SWith(b) => guarded(|| {
                let r = StreamingDecoder::new_with_decoder(&b[..], &mut dec).map(|_| ());
                snap(r)
            }),
        };
        let (alloc_bytes, alloc_max) = match &rr {
            Ok((_, b, m)) => (*b, *m),
            Err(_) => alloc_count::stop(base),
        };
        let r: Result<Result<(), String>, String> = rr.map(|(x, _, _)| x.map_err(|e| show_err(&e)));
        let (mem, _) = ruzstd::verif_hooks::trace_take();
        ruzstd::verif_hooks::trace_enable(false);
        let ring: Vec<usize> = mem.iter().filter(|m| m.kind == "alloc").map(|m| m.len).collect();
        let outcome = match &r {
            Err(_) => "fault".to_string(),
            Ok(Ok(())) => "ok".to_string(),
            Ok(Err(s)) => s.clone(),
        };
        let streaming = matches!(op, Op::SNew(_) | Op::SNewMax(_, _));
        if !streaming {
            max_after = Some(dec.max_window_size());
        }
        let text = format!(
            "{} max={} ring=[{}]",
            outcome,
            max_after.map(|m| m.to_string()).unwrap_or("-".into()),
            ring.iter().map(|x| x.to_string()).collect::<Vec<_>>().join(",")
        );
        out.push(Obs { text, outcome, alloc_bytes, alloc_max, ring, max_after });
        if r.is_err() {
            // a panic may leave the decoder in any state: start over
            dec = FrameDecoder::new();
        }
    }
    out
}

/// frame = header + one empty last raw block (+ 4 checksum bytes if the descriptor asks for them)
fn frame_of(header: &[u8]) -> Vec<u8> {
    let mut v = header.to_vec();
    v.extend_from_slice(&[1, 0, 0]);
    if header.len() > 4 && (header[4] >> 2) & 1 == 1 {
        v.extend_from_slice(&[0xde, 0xad, 0xbe, 0xef]);
    }
    v
}
fn header_wd(desc_low: u8, wd: u8) -> Vec<u8> {
    let mut v = MAGIC.to_vec();
    v.push(desc_low & 0x1f); // not single segment, no content size
    v.push(wd);
    for _ in 0..[0usize, 1, 2, 4][(desc_low & 3) as usize] {
        v.push(7); // dictionary id bytes
    }
    v
}
/// single-segment header for content size `fcs` in the field width `flag` (0: 1 byte … 3: 8 bytes)
fn header_ss(flag: u8, fcs_field: u64) -> Vec<u8> {
    let mut v = MAGIC.to_vec();
    v.push((flag << 6) | 0x20);
    let n = [1usize, 2, 4, 8][flag as usize];
    v.extend_from_slice(&fcs_field.to_le_bytes()[..n]);
    v
}
/// NOT single-segment, window descriptor `wd` AND a Frame_Content_Size field (flag 1..=3): the window is the descriptor's,
/// whatever the content size says
fn header_wd_fcs(wd: u8, flag: u8, fcs: u64) -> Vec<u8> {
    let mut v = MAGIC.to_vec();
    v.push(flag << 6);
    v.push(wd);
    let n = [0usize, 2, 4, 8][flag as usize];
    let field = if flag == 1 { fcs.saturating_sub(256) } else { fcs };
    v.extend_from_slice(&field.to_le_bytes()[..n]);
    v
}
fn spec_window(wd: u8) -> u64 {
    let base = 1u64 << (10 + (wd >> 3));
    base + (base / 8) * (wd & 7) as u64
}
fn npot_plus1(w: u64) -> u64 {
    w.next_power_of_two() + 1
}


/// answer of the real code to one `window seq …` request line (for `bin/check C11 --replay`)
pub fn replay_line(line: &str) -> Option<String> {
    let t: Vec<&str> = line.split(' ').collect();
    if t.get(1).copied()? != "seq" {
        return None;
    }
    let mut ops = vec![];
    for op in &t[2..] {
        let f: Vec<&str> = op.split(':').collect();
        ops.push(match f[..] {
            ["set", m] => Op::Set(m.parse().ok()?),
            ["reset", h] => Op::Reset(unhex(h)?),
            ["all", h] => Op::All(unhex(h)?),
            ["snew", h] => Op::SNew(unhex(h)?),
            ["snewmax", m, h] => Op::SNewMax(m.parse().ok()?, unhex(h)?),
            ["swith", h] => Op::SWith(unhex(h)?),
            _ => return None,
        });
    }
    Some(run_ops(&ops).iter().map(|o| o.text.clone()).collect::<Vec<_>>().join(" | "))
}

pub fn run(opts: &Opts) -> Run {
    let mut run = Run::new("window");
    let mut rng = Rng::new(opts.seed);
    let small = frame_of(&header_wd(0, 0)); // 1 KiB window, accepted by every limit ≥ 1024
    let small2 = frame_of(&header_wd(0, 8)); // 2 KiB
    let huge_header = header_wd(0, 0xF8); // 2 TiB: rejected by the default limit

    // (header, window, is the window legal for the format)
    let mut subjects: Vec<(Vec<u8>, u64, &'static str)> = vec![];
    for wd in 0u16..=255 {
        subjects.push((header_wd(0, wd as u8), spec_window(wd as u8), "descriptor"));
    }
    for wd in [0u8, 0x88, 0x89, 0xFF] {
        subjects.push((header_wd(4, wd), spec_window(wd), "descriptor+checksum"));
        subjects.push((header_wd(1, wd), spec_window(wd), "descriptor+dict"));
    }
    // a descriptor together with a content size that is much SMALLER (or larger) than the declared window
    for wd in [0x00u8, 0x50, 0x6F, 0x88, 0x89, 0x90, 0xA0] {
        for (flag, fcs) in [(1u8, 268u64), (1, 65_000), (2, 12), (2, 300_000), (3, 12), (3, 1 << 33)] {
            subjects.push((header_wd_fcs(wd, flag, fcs), spec_window(wd), "descriptor+content-size"));
        }
    }
    let sizes: [u64; 22] = [0, 1, 255, 256, 1023, 1024, 1025, 65535, 65536, 65791, 1 << 17, DEFAULT - 1, DEFAULT, DEFAULT + 1, (1 << 32) - 1, 1 << 32, MAX - 1, MAX, MAX + 1, 1 << 62, 1 << 63, u64::MAX];
    for &s in &sizes {
        for flag in 0u8..4 {
            let (lo, hi): (u64, u64) = match flag {
                0 => (0, 255),
                1 => (256, 65791),
                2 => (0, u32::MAX as u64),
                _ => (0, u64::MAX),
            };
            if s < lo || s > hi {
                continue;
            }
            let field = if flag == 1 { s - 256 } else { s };
            subjects.push((header_ss(flag, field), s, "single-segment"));
        }
    }

    let mut n_skipped = 0u64;
    let mut n_accept = 0u64;
    let mut n_reject = 0u64;
    let mut hist_stats = [0u64; 4];
    for (header, w, kind) in &subjects {
        let w = *w;
        let mut limits: Vec<Option<u64>> = vec![None, Some(MAX), Some(u64::MAX), Some(w), Some(w.saturating_add(1))];
        if w > 0 {
            limits.push(Some(w - 1));
        }
        if opts.thorough {
            limits.push(Some(0));
            limits.push(Some(rng.next() >> rng.below(40)));
            limits.push(Some(DEFAULT));
        }
        for limit in limits {
            let eff = limit.map(|l| l.min(MAX)).unwrap_or(DEFAULT);
            let legal = *kind == "single-segment" || (1024..=MAX).contains(&w);
            let accept = legal && w <= eff;
            for hist in 0..4usize {
                // 0 fresh, 1 after a rejected frame (still the first-use path), 2 after one frame (reuse, empty ring),
                // 3 after two frames (reuse, ring already allocated)
                let reuse = hist >= 2;
                if accept && reuse && w > BUDGET_WINDOW {
                    n_skipped += 1;
                    continue;
                }
                for front in 0..3usize {
                    let mut ops: Vec<Op> = vec![];
                    match hist {
                        1 => ops.push(Op::Reset(huge_header.clone())),
                        2 => ops.push(Op::All(small.clone())),
                        3 => {
                            ops.push(Op::Reset(small2.clone()));
                            ops.push(Op::All(small.clone()));
                        }
                        _ => {}
                    }
                    let subject_idx;
                    match front {
                        0 => {
                            if let Some(l) = limit {
                                ops.push(Op::Set(l));
                            }
                            subject_idx = ops.len();
                            ops.push(Op::Reset(header.clone()));
                        }
                        1 => {
                            if let Some(l) = limit {
                                ops.push(Op::Set(l));
                            }
                            // multi-frame call: a skippable frame, the subject, and (if accepted) one more frame on the reuse path
                            let mut input = vec![0x50, 0x2A, 0x4D, 0x18, 3, 0, 0, 0, 9, 9, 9];
                            input.extend_from_slice(&frame_of(header));
                            if header[4] & 3 == 0 && eff >= 1024 {
                                input.extend_from_slice(&small);
                            }
                            subject_idx = ops.len();
                            ops.push(Op::All(input));
                        }
                        _ => {
                            if hist == 0 {
                                subject_idx = 0;
                                ops.push(match limit {
                                    Some(l) => Op::SNewMax(l, header.clone()),
                                    None => Op::SNew(header.clone()),
                                });
                            } else {
                                if let Some(l) = limit {
                                    ops.push(Op::Set(l));
                                }
                                subject_idx = ops.len();
                                ops.push(Op::SWith(header.clone()));
                            }
                        }
                    }
                    let line = format!("window seq {}", ops.iter().map(|o| o.text()).collect::<Vec<_>>().join(" "));
                    let obs = run_ops(&ops);
                    let answer = obs.iter().map(|o| o.text.clone()).collect::<Vec<_>>().join(" | ");
                    hist_stats[hist] += 1;
                    // ---------------- oracles on the subject op (independent of the model)
                    let o = &obs[subject_idx];
                    let has_dict = header[4] & 0x20 == 0 && header[4] & 3 != 0;
                    let accepted = o.outcome == "ok" || o.outcome.starts_with("err dict");
                    run.oracle_checks += 1;
                    if accepted != accept {
                        run.fail("C11", "accept_iff", format!("{} frame, window {}, limit {:?} (effective {}), history {}, front {}: outcome `{}`, but the window is {}legal and {} the limit", kind, w, limit, eff, hist, front, o.outcome, if legal { "" } else { "il" }, if w <= eff { "within" } else { "above" }), line.clone());
                    }
                    if accept {
                        n_accept += 1;
                        run.oracle_checks += 1;
                        if has_dict != o.outcome.starts_with("err dict") {
                            run.fail("C11", "dict_after_accept", format!("outcome `{}` for a frame {} dictionary id", o.outcome, if has_dict { "with" } else { "without" }), line.clone());
                        }
                        // memory: nothing bigger than the ring buffer for this window
                        run.oracle_checks += 1;
                        if o.alloc_max as u64 > npot_plus1(w.max(1024) + 1).max(1 << 16) {
                            run.fail("C11", "accept_alloc_bound", format!("accepted window {} but a single allocation of {} bytes was made", w, o.alloc_max), line.clone());
                        }
                    } else {
                        n_reject += 1;
                        // rejected up front: NO allocation at all during the rejecting call (decode_all: the skippable frame and
                        // the rejection allocate nothing either)
                        run.oracle_checks += 1;
                        if o.alloc_max != 0 || o.alloc_bytes != 0 || !o.ring.is_empty() {
                            run.fail("C11", "reject_before_alloc", format!("rejected (`{}`) but memory was allocated during the call (peak {} bytes above the baseline, largest single allocation {} bytes, ring {:?})", o.outcome, o.alloc_bytes, o.alloc_max, o.ring), line.clone());
                        }
                        // the error reports the requested window and the effective limit
                        run.oracle_checks += 1;
                        let want = if legal { format!("err window {} {}", w, eff) } else if w < 1024 { format!("err toosmall {}", w) } else { format!("err toobig {}", w) };
                        if o.outcome != want {
                            run.fail("C11", "reject_reports", format!("expected `{}`, got `{}`", want, o.outcome), line.clone());
                        }
                    }
                    // the limit itself: default 128 MiB, setter clamps to the format maximum
                    if let Some(m) = o.max_after {
                        run.oracle_checks += 1;
                        if m != eff {
                            run.fail("C11", "setter_clamps", format!("limit {:?} gives max_window_size() = {}, expected {}", limit, m, eff), line.clone());
                        }
                    }
                    run.case(line, answer);
                }
            }
        }
    }
    // malformed / truncated headers through all fronts (rejected at the header, nothing allocated)
    for h in [&MAGIC[..], &[0x28, 0xB5, 0x2F][..], &[][..], &[0x28, 0xB5, 0x2F, 0xFD, 0x00][..], &[0x28, 0xB5, 0x2F, 0xFD, 0x21][..], &[0x28, 0xB5, 0x2F, 0xFD, 0xE0, 1, 2, 3][..], &[1, 2, 3, 4, 5, 6][..], &[0x50, 0x2A, 0x4D, 0x18, 200, 0, 0, 0, 1][..]] {
        for pre in 0..2 {
            for front in 0..3 {
                let mut ops = vec![];
                if pre == 1 {
                    ops.push(Op::All(small.clone()));
                }
                ops.push(match front {
                    0 => Op::Reset(h.to_vec()),
                    1 => Op::All(h.to_vec()),
                    _ => {
                        if pre == 1 {
                            Op::SWith(h.to_vec())
                        } else {
                            Op::SNew(h.to_vec())
                        }
                    }
                });
                let line = format!("window seq {}", ops.iter().map(|o| o.text()).collect::<Vec<_>>().join(" "));
                let obs = run_ops(&ops);
                let o = obs.last().unwrap();
                run.oracle_checks += 1;
                if o.outcome != "ok" && (o.alloc_max != 0 || o.alloc_bytes != 0 || !o.ring.is_empty()) {
                    run.fail("C11", "reject_before_alloc_malformed", format!("malformed header rejected (`{}`) after allocating {} bytes", o.outcome, o.alloc_bytes), line.clone());
                }
                run.case(line, obs.iter().map(|o| o.text.clone()).collect::<Vec<_>>().join(" | "));
            }
        }
    }
    run.stat("subjects", subjects.len() as u64);
    run.stat("accepted", n_accept);
    run.stat("rejected", n_reject);
    run.stat("skipped_for_memory_budget", n_skipped);
    run.stat("history_fresh", hist_stats[0]);
    run.stat("history_after_rejected", hist_stats[1]);
    run.stat("history_after_one_frame", hist_stats[2]);
    run.stat("history_after_two_frames", hist_stats[3]);
    run.notes.push(format!("reuse-path acceptance is only exercised for windows up to {} bytes (memory budget ~300 MiB)", BUDGET_WINDOW));
    let n = run.cases.len();
    run.samples = vec![run.cases[0].clone(), run.cases[n / 3].clone(), run.cases[n / 2].clone(), run.cases[n - 1].clone()];
    run
}
