//! `verif-harness replay --replay FILE --out DIR`: re-run the lines of a replay file on the real code
//! (with the implementation-only oracles) and emit the request lines for the model.
use crate::engines::{bits, dec, dictbuilder, enc, fse, headers, hostile, huf, io, matcher, reuse, ring, tables, window};
use crate::util::*;

fn dec_lines(run: &mut Run, lines: &[String]) {
    let mut i = 0;
    let mut p: Option<dec::Prog> = None;
    // Prog borrows `run`; process one program (from `dec new` to the next `dec new`) at a time
    let mut start = 0;
    while start < lines.len() {
        let mut end = start + 1;
        while end < lines.len() && lines[end] != "dec new" {
            end += 1;
        }
        {
            let mut prog = dec::Prog::new(run, "replay");
            let chunk = &lines[start..end];
            let mut k = if chunk.first().map(|l| l == "dec new").unwrap_or(false) { 1 } else { 0 };
            while k < chunk.len() {
                let t: Vec<&str> = chunk[k].split(' ').collect();
                match t[1..] {
                    ["setmax", n] => prog.set_max(n.parse().unwrap_or(0)),
                    ["adddict", h] => {
                        prog.add_dict(&unhex(h).unwrap_or_default());
                    }
                    ["forcedict", n] => {
                        prog.force_dict(n.parse().unwrap_or(0));
                    }
                    ["src", h] => prog.set_src(unhex(h).unwrap_or_default(), vec![], None),
                    ["reset"] => {
                        let streaming_next = chunk.get(k + 1).map(|l| l.starts_with("dec sread")).unwrap_or(false);
                        if streaming_next {
                            prog.stream_init();
                        } else {
                            prog.reset();
                        }
                    }
                    ["blocks", s] => prog.blocks(s),
                    ["collect"] => prog.collect(),
                    ["read", n] => prog.read(n.parse().unwrap_or(0)),
                    ["towriter", b, m] => prog.to_writer(4096, b.parse().unwrap_or(0), m == "f"),
                    ["sread", n] => prog.sread(n.parse().unwrap_or(0)),
                    ["fromto", h, n] => {
                        prog.from_to(&unhex(h).unwrap_or_default(), n.parse().unwrap_or(0));
                    }
                    ["all", h, n] => prog.decode_all(&unhex(h).unwrap_or_default(), n.parse().unwrap_or(0), None),
                    _ => {}
                }
                k += 1;
            }
        }
        start = end;
    }
    let _ = (&mut i, &mut p);
}

pub fn run(opts: &Opts) -> Run {
    let path = opts.replay.clone().expect("--replay FILE");
    let text = std::fs::read_to_string(&path).expect("read replay file");
    let lines: Vec<String> = text.lines().map(|l| l.trim_end().to_string()).filter(|l| !l.is_empty() && !l.starts_with('#')).collect();
    let mut run = Run::new("replay");
    // group by engine
    let dec_l: Vec<String> = lines.iter().filter(|l| l.starts_with("dec ")).cloned().collect();
    if !dec_l.is_empty() {
        dec_lines(&mut run, &dec_l);
    }
    let m_l: Vec<String> = lines.iter().filter(|l| l.starts_with("matcher ")).cloned().collect();
    if !m_l.is_empty() {
        matcher::replay_lines(&mut run, &m_l);
    }
    for l in lines.iter().filter(|l| l.starts_with("tables ") || l.starts_with("spec ")) {
        if let Some(a) = tables::replay_line(l) {
            run.case(l.clone(), a);
        } else {
            run.case(l.clone(), "(model only)".into());
        }
    }
    for l in lines.iter().filter(|l| l.starts_with("headers ") || l.starts_with("window ")) {
        let a = if l.starts_with("headers ") { headers::replay_line(l) } else { window::replay_line(l) };
        run.case(l.clone(), a.unwrap_or_else(|| "(model only)".into()));
    }
    let host: Vec<Vec<u8>> = lines.iter().filter(|l| l.starts_with("hostile input ")).filter_map(|l| unhex(l.split(' ').nth(2).unwrap_or(""))).collect();
    if !host.is_empty() {
        let r = hostile::run_inputs(opts, Some(host));
        for f in r.oracle_failures {
            run.oracle_failures.push(f);
        }
        for (c, a) in r.cases.into_iter().zip(r.impl_out.into_iter()) {
            run.case(c, a);
        }
    }
    let r_l: Vec<String> = lines.iter().filter(|l| l.starts_with("ring ")).cloned().collect();
    if !r_l.is_empty() {
        ring::replay(&r_l, &mut run);
    }
    for l in lines.iter().filter(|l| l.starts_with("reuse ")) {
        reuse::replay_line(&mut run, l);
    }
    // component engines: one request per line, re-executed on the real code (their implementation-only oracles run
    // again where the engine's replay entry point evaluates them); anything else is shown to the model only
    let mut rng = Rng::new(1);
    for l in lines.iter() {
        let eng = l.split(' ').next().unwrap_or("");
        match eng {
            "bits" => run.case(l.clone(), bits::replay_line(l).unwrap_or_else(|| "(model only)".into())),
            "dictbuilder" => run.case(l.clone(), dictbuilder::replay_line(l).unwrap_or_else(|| "(model only)".into())),
            "enc" => run.case(l.clone(), enc::replay_line(l).unwrap_or_else(|| "(model only)".into())),
            "io" => run.case(l.clone(), io::replay_line(l).unwrap_or_else(|| "(model only)".into())),
            "huf" => {
                let a = huf::replay_line(&mut run, l).unwrap_or_else(|| "(model only)".into());
                run.case(l.clone(), a)
            }
            "fse" => {
                if fse::replay_line(&mut run, &mut rng, l).is_none() {
                    run.case(l.clone(), "(model only)".into());
                }
            }
            "blk" | "cli" | "mem" => run.case(l.clone(), "(model only)".into()),
            _ => {}
        }
    }
    run
}
