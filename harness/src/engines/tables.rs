//! Engine `tables` (C14): the private pure functions of the sequence coder dumped over their whole
//! domain through the `verif_hooks` pass-through wrappers, plus implementation-only round-trip oracles.
use crate::util::*;
use ruzstd::verif_hooks::headers::SequencesHeader;
use ruzstd::verif_hooks::seqcodes as sc;

fn pair(r: Result<(u32, u8), String>) -> String {
    match r {
        Ok((a, b)) => format!("ok {} {}", a, b),
        Err(_) => "fault".into(),
    }
}
fn triple(r: &Result<(u8, u32, usize), String>) -> String {
    match r {
        Ok((a, b, c)) => format!("ok {} {} {}", a, b, c),
        Err(_) => "fault".into(),
    }
}

pub fn seqhdr(bytes: &[u8]) -> String {
    let r = guarded(|| {
        let mut h = SequencesHeader::new();
        let r = h.parse_from_header(bytes);
        (r, h.num_sequences, h.modes)
    });
    match r {
        Err(_) => "fault".into(),
        Ok((Ok(used), n, modes)) => {
            let m = match modes {
                Some(m) => {
                    // CompressionModes(u8) is a private tuple field; recover the byte from the three 2-bit modes
                    use ruzstd::verif_hooks::headers::ModeType as M;
                    let b = |m: M| match m {
                        M::Predefined => 0u8,
                        M::RLE => 1,
                        M::FSECompressed => 2,
                        M::Repeat => 3,
                    };
                    // the two low bits are reserved and not observable through the accessors
                    let v = (b(m.ll_mode()) << 6) | (b(m.of_mode()) << 4) | (b(m.ml_mode()) << 2);
                    format!("{}", v)
                }
                None => "-".into(),
            };
            format!("ok {} {} {}", n, m, used)
        }
        Ok((Err(e), _, _)) => {
            use ruzstd::decoding::errors::SequencesHeaderParseError as E;
            match e {
                E::NotEnoughBytes { need_at_least, got } => format!("err notenough {} {}", need_at_least, got),
                _ => "err other".into(),
            }
        }
    }
}

/// answer of the real code to one `tables …` request line
pub fn replay_line(line: &str) -> Option<String> {
    let t: Vec<&str> = line.split(' ').collect();
    let n = |i: usize| t.get(i).and_then(|x| x.parse::<u64>().ok());
    match t.get(1).copied()? {
        "ll_dec" => Some(pair(guarded(|| sc::lookup_ll_code(n(2).unwrap_or(255) as u8)))),
        "ml_dec" => Some(pair(guarded(|| sc::lookup_ml_code(n(2).unwrap_or(255) as u8)))),
        "ll_enc" => Some(triple(&guarded(|| sc::encode_literal_length(n(2).unwrap_or(0) as u32)))),
        "ml_enc" => Some(triple(&guarded(|| sc::encode_match_len(n(2).unwrap_or(0) as u32)))),
        "of_enc" => Some(triple(&guarded(|| sc::encode_offset(n(2).unwrap_or(0) as u32)))),
        "seqnum_enc" => Some(match guarded(|| sc::encode_seqnum(n(2).unwrap_or(0) as usize)) {
            Ok(b) => format!("ok {}", hex(&b)),
            Err(_) => "fault".into(),
        }),
        "seqhdr" => Some(seqhdr(&unhex(t.get(2)?)?)),
        "of_hist" => {
            let mut s = [n(4)? as u32, n(5)? as u32, n(6)? as u32];
            Some(match guarded(|| sc::do_offset_history(n(2).unwrap_or(0) as u32, n(3).unwrap_or(0) as u32, &mut s)) {
                Ok(a) => format!("ok {} {} {} {}", a, s[0], s[1], s[2]),
                Err(_) => "fault".into(),
            })
        }
        _ => None,
    }
}

pub fn run(opts: &Opts) -> Run {
    let mut run = Run::new("tables");
    let mut rng = Rng::new(opts.seed);

    // ---- decoder tables, all codes (+ a few illegal ones: the `unreachable!` arm)
    for c in 0u8..=40 {
        run.case(format!("tables ll_dec {}", c), pair(guarded(|| sc::lookup_ll_code(c))));
    }
    for c in 0u8..=56 {
        run.case(format!("tables ml_dec {}", c), pair(guarded(|| sc::lookup_ml_code(c))));
    }
    run.stat("dec_codes", 41 + 57);

    // ---- literal lengths: the whole range 0..=131071 (+ first illegal value)
    for v in 0u32..=131072 {
        let r = guarded(|| sc::encode_literal_length(v));
        run.case(format!("tables ll_enc {}", v), triple(&r));
        if v <= 131071 {
            run.oracle_checks += 1;
            let ok = match &r {
                Ok((code, extra, bits)) => match guarded(|| sc::lookup_ll_code(*code)) {
                    Ok((base, b)) => base + extra == v && b as usize == *bits && (*extra as u64) < (1u64 << bits) && *code <= 35,
                    Err(_) => false,
                },
                Err(_) => false,
            };
            if !ok {
                run.fail("C14", "ll_roundtrip", format!("literal length {} does not survive encode_literal_length -> lookup_ll_code: {:?}", v, r), format!("tables ll_enc {}", v));
            }
        }
    }
    // ---- match lengths: 0..=131075
    for v in 0u32..=131075 {
        let r = guarded(|| sc::encode_match_len(v));
        run.case(format!("tables ml_enc {}", v), triple(&r));
        if (3..=131074).contains(&v) {
            run.oracle_checks += 1;
            let ok = match &r {
                Ok((code, extra, bits)) => match guarded(|| sc::lookup_ml_code(*code)) {
                    Ok((base, b)) => base + extra == v && b as usize == *bits && (*extra as u64) < (1u64 << bits) && *code <= 52,
                    Err(_) => false,
                },
                Err(_) => false,
            };
            if !ok {
                run.fail("C14", "ml_roundtrip", format!("match length {} does not survive encode_match_len -> lookup_ml_code: {:?}", v, r), format!("tables ml_enc {}", v));
            }
        }
    }
    run.stat("ll_values", 131073);
    run.stat("ml_values", 131076);

    // ---- offsets: every code boundary, plus samples
    let mut offs: Vec<u32> = vec![0];
    for k in 0..32u32 {
        let p = 1u64 << k;
        for d in [-2i64, -1, 0, 1, 2] {
            let v = p as i64 + d;
            if v >= 1 && v <= u32::MAX as i64 {
                offs.push(v as u32);
            }
        }
    }
    offs.push(u32::MAX);
    let n_samples = if opts.thorough { 1 << 22 } else { 1 << 16 };
    for _ in 0..n_samples {
        let k = rng.below(32);
        let v = ((1u64 << k) + rng.below(1u64 << k)) as u32;
        offs.push(v);
    }
    for v in offs {
        let r = guarded(|| sc::encode_offset(v));
        run.case(format!("tables of_enc {}", v), triple(&r));
        if v >= 1 {
            run.oracle_checks += 1;
            let ok = match &r {
                Ok((code, extra, bits)) => *code <= 31 && (1u64 << code) + *extra as u64 == v as u64 && *bits == *code as usize && (*extra as u64) < (1u64 << bits),
                Err(_) => false,
            };
            if !ok {
                run.fail("C14", "of_roundtrip", format!("offset value {} does not survive encode_offset -> (1<<code)+extra: {:?}", v, r), format!("tables of_enc {}", v));
            }
        }
    }
    run.stat("of_values", (32 * 5 + n_samples) as u64);

    // ---- offset history: all small offset values x both literal-length cases x histories
    let hist_vals: [u32; 9] = [0, 1, 2, 3, 4, 8, 100, 65536, u32::MAX - 3];
    let mut n_hist = 0u64;
    let mut do_hist = |run: &mut Run, ov: u32, ll: u32, s: [u32; 3]| {
        let mut sc_ = s;
        let r = guarded(|| {
            let a = sc::do_offset_history(ov, ll, &mut sc_);
            (a, sc_)
        });
        let out = match r {
            Ok((a, t)) => format!("ok {} {} {} {}", a, t[0], t[1], t[2]),
            Err(_) => "fault".into(),
        };
        // oracle: RFC 8878 §3.1.1.5, written independently (skipped where the RFC declares the data corrupt: Repeated_Offset1 - 1 = 0 or below)
        if ov >= 1 && !(ov == 3 && ll == 0 && s[0] == 0) {
            run.oracle_checks += 1;
            let (a, t): (u32, [u32; 3]) = if ov > 3 {
                (ov - 3, [ov - 3, s[0], s[1]])
            } else if ll > 0 {
                match ov {
                    1 => (s[0], s),
                    2 => (s[1], [s[1], s[0], s[2]]),
                    _ => (s[2], [s[2], s[0], s[1]]),
                }
            } else {
                match ov {
                    1 => (s[1], [s[1], s[0], s[2]]),
                    2 => (s[2], [s[2], s[0], s[1]]),
                    _ => (s[0] - 1, [s[0] - 1, s[0], s[1]]),
                }
            };
            let want = format!("ok {} {} {} {}", a, t[0], t[1], t[2]);
            if out != want {
                run.fail("C14", "offsetHistory_eq_rfc", format!("do_offset_history({}, {}, {:?}) = `{}`, RFC 8878 says `{}`", ov, ll, s, out, want), format!("tables of_hist {} {} {} {} {}", ov, ll, s[0], s[1], s[2]));
            }
        }
        run.case(format!("tables of_hist {} {} {} {} {}", ov, ll, s[0], s[1], s[2]), out);
    };
    for ov in 0u32..=8 {
        for ll in [0u32, 1, 7] {
            for &a in &hist_vals {
                for &b in &[1u32, 4, 9] {
                    for &c in &[8u32, 2, 77] {
                        do_hist(&mut run, ov, ll, [a, b, c]);
                        n_hist += 1;
                    }
                }
            }
        }
    }
    for _ in 0..(if opts.thorough { 200000 } else { 20000 }) {
        let ov = if rng.chance(1, 2) { rng.below(6) as u32 } else { rng.next() as u32 };
        let ll = if rng.chance(1, 2) { 0 } else { rng.below(100000) as u32 };
        let s = [rng.next() as u32 >> rng.below(32), rng.next() as u32 >> rng.below(32), rng.next() as u32 >> rng.below(32)];
        do_hist(&mut run, ov, ll, s);
        n_hist += 1;
    }
    run.stat("of_hist_cases", n_hist);

    // ---- sequence counts: the whole writable range, and parse(write(n)) = n on the real code
    for n in 0usize..=98048 {
        let r = guarded(|| sc::encode_seqnum(n));
        let out = match &r {
            Ok(b) => format!("ok {}", hex(b)),
            Err(_) => "fault".into(),
        };
        run.case(format!("tables seqnum_enc {}", n), out);
        if (1..=98047).contains(&n) {
            run.oracle_checks += 1;
            let ok = match &r {
                Ok(b) => {
                    let mut bytes = b.clone();
                    bytes.push(0xA4); // a modes byte
                    let mut h = SequencesHeader::new();
                    match guarded(|| h.parse_from_header(&bytes).map(|u| (u, h.num_sequences))) {
                        Ok(Ok((used, parsed))) => parsed as usize == n && used as usize == bytes.len(),
                        _ => false,
                    }
                }
                Err(_) => false,
            };
            if !ok {
                run.fail("C14", "seqnum_roundtrip", format!("sequence count {} written as {:?} is not read back", n, r.as_ref().map(|b| hex(b))), format!("tables seqnum_enc {}", n));
            }
        }
    }
    run.stat("seqnum_values", 98049);

    // ---- sequence header parser: every first byte x following bytes x truncations
    let mut n_hdr = 0u64;
    for b0 in 0u16..=255 {
        for follow in [[0u8, 0, 0], [1, 2, 3], [0xff, 0xff, 0xff], [0, 1, 0x54], [0x80, 0, 0xa8]] {
            for len in 0..=4usize {
                let mut v = vec![b0 as u8];
                v.extend_from_slice(&follow);
                v.truncate(len);
                run.case(format!("tables seqhdr {}", hex(&v)), seqhdr(&v));
                n_hdr += 1;
            }
        }
    }
    for _ in 0..(if opts.thorough { 100000 } else { 5000 }) {
        let len = rng.below(6) as usize;
        let mut v = rng.bytes(len);
        if !v.is_empty() && rng.chance(1, 3) {
            v[0] = *rng.pick(&[0u8, 1, 127, 128, 129, 254, 255]);
        }
        run.case(format!("tables seqhdr {}", hex(&v)), seqhdr(&v));
        n_hdr += 1;
    }
    run.stat("seqhdr_cases", n_hdr);
    run.samples = vec![run.cases[50].clone(), run.cases[70000].clone(), run.cases[run.cases.len() - 1].clone()];
    run
}
