//! Engine `matcher_script` (C16): a scripted `Matcher` implemented HERE and passed through the
//! PUBLIC `FrameCompressor::new_with_matcher`.  Parses are generated from the data by an independent
//! greedy / lazy / random / dense parser (min match 3, zero-length literal runs, maximal lengths,
//! offsets across the whole window incl. previous blocks, up to one sequence per 3 bytes, blocks
//! forced raw by expensive parses, > 1024 literals so Huffman is used, spaces of varied sizes).
//!
//! Oracles: no panic; ruzstd (2 decoders) and libzstd decode to the input; structure / size bound;
//! strict Spec walker on small frames.  Correspondence: `enc mrun …` — the model checks the script
//! against `ValidMatcher` and predicts header, block split, RLE blocks, last flags, checksum (and
//! the exact bytes of blocks that need no entropy coder).
//!
//! F4 / F10 (panics inside the entropy coders, reachable only through a user matcher) are
//! classified by the exact block that was being encoded when the panic happened; any other panic
//! is a violation.
use super::enc::*;
use crate::gen;
use crate::util::*;
use ruzstd::encoding::{CompressionLevel, FrameCompressor, Matcher, Sequence};
use std::cell::RefCell;
use std::collections::HashMap;
use std::rc::Rc;

#[derive(Clone, Copy, Debug, PartialEq)]
pub enum Mode {
    Greedy,
    Lazy,
    Random,
    Dense,
    Far,
    LiteralsOnly,
}

#[derive(Clone, Debug)]
pub struct Plan {
    pub mode: Mode,
    /// explicit parse per block index (overrides the parser)
    pub fixed: HashMap<usize, Vec<(usize, usize, usize)>>,
    pub chain: usize,
}

#[derive(Clone, Debug, Default)]
pub struct BlockLog {
    pub space: usize,
    pub len: usize,
    /// `None`: `skip_matching` (or never matched)
    pub parse: Option<Vec<(usize, usize, usize)>>,
    pub committed: bool,
}

#[derive(Default, Debug)]
pub struct Log {
    pub blocks: Vec<BlockLog>,
    pub resets: usize,
    /// blocks in the situations that used to panic (F4, F10): counted, to show they are exercised
    pub all_ll_zero: usize,
    pub all_ml_three: usize,
    pub single_value_literals: usize,
}

pub struct ScriptMatcher {
    /// what `window_size()` answers BEFORE the first `reset` (a matcher may choose its window in `reset`, from the level)
    pub pre_reset_window: Option<u64>,
    window: u64,
    spaces: Vec<usize>,
    calls: usize,
    history: Vec<u8>,
    last_start: usize,
    plan: Plan,
    rng: Rng,
    log: Rc<RefCell<Log>>,
}

impl ScriptMatcher {
    pub fn new(window: u64, spaces: Vec<usize>, plan: Plan, seed: u64, log: Rc<RefCell<Log>>) -> Self {
        ScriptMatcher { pre_reset_window: None, window, spaces, calls: 0, history: vec![], last_start: 0, plan, rng: Rng::new(seed), log }
    }
}

fn match_len(h: &[u8], p: usize, pos: usize, end: usize) -> usize {
    let mut l = 0;
    while pos + l < end && h[p + l] == h[pos + l] {
        l += 1;
    }
    l
}

/// independent parser: triples (literal_len, offset, match_len); whatever is left is trailing literals
pub fn make_parse(h: &[u8], start: usize, window: usize, plan: &Plan, rng: &mut Rng) -> Vec<(usize, usize, usize)> {
    let end = h.len();
    let mut out = vec![];
    if plan.mode == Mode::LiteralsOnly {
        return out;
    }
    let lo = start.saturating_sub(window);
    let mut idx: HashMap<[u8; 3], Vec<usize>> = HashMap::new();
    let key = |p: usize| -> Option<[u8; 3]> { if p + 3 <= end { Some([h[p], h[p + 1], h[p + 2]]) } else { None } };
    let insert = |idx: &mut HashMap<[u8; 3], Vec<usize>>, p: usize| {
        if let Some(k) = key(p) {
            let v = idx.entry(k).or_default();
            if v.len() >= 64 {
                v.remove(1); // keep the oldest (farthest) candidate and the recent ones
            }
            v.push(p);
        }
    };
    // positions before the block (inside the window) are candidates too; index a bounded sample
    let pre_step = ((start - lo) / 60_000).max(1);
    let mut p = lo;
    while p < start {
        insert(&mut idx, p);
        p += pre_step;
    }
    let best = |idx: &HashMap<[u8; 3], Vec<usize>>, pos: usize, rng: &mut Rng| -> Option<(usize, usize)> {
        let k = key(pos)?;
        let c = idx.get(&k)?;
        let mut bestc: Option<(usize, usize)> = None;
        let cands: Vec<usize> = c.iter().rev().take(plan.chain.max(1)).cloned().chain(c.first().cloned()).collect();
        for &p in &cands {
            if p >= pos || pos - p > window {
                continue;
            }
            let l = match_len(h, p, pos, end);
            if l < 3 {
                continue;
            }
            let off = pos - p;
            let better = match (plan.mode, bestc) {
                (_, None) => true,
                (Mode::Far, Some((bo, _))) => off > bo,
                (Mode::Random, Some(_)) => rng.chance(1, 2),
                (_, Some((_, bl))) => l > bl,
            };
            if better {
                bestc = Some((off, l));
            }
        }
        bestc
    };
    let mut pos = start;
    let mut lit_start = start;
    while pos < end {
        let m = best(&idx, pos, rng);
        let mut take: Option<(usize, usize)> = None;
        if let Some((off, l)) = m {
            match plan.mode {
                Mode::Greedy | Mode::Far => take = Some((off, l)),
                Mode::Lazy => {
                    insert(&mut idx, pos);
                    let next = if pos + 1 < end { best(&idx, pos + 1, rng) } else { None };
                    if next.map(|(_, nl)| nl > l + 1).unwrap_or(false) {
                        pos += 1;
                        continue;
                    }
                    take = Some((off, l));
                }
                Mode::Random => {
                    if rng.chance(3, 4) {
                        let ml = if rng.chance(1, 3) { l } else { rng.range(3, l as u64) as usize };
                        take = Some((off, ml));
                    }
                }
                Mode::Dense => {
                    let ml = if rng.chance(1, 40) { l.min(4 + rng.below(30) as usize) } else { 3 };
                    take = Some((off, ml.max(3).min(l)));
                }
                Mode::LiteralsOnly => {}
            }
        }
        match take {
            Some((off, ml)) => {
                out.push((pos - lit_start, off, ml));
                let stop = pos + ml;
                let step = if ml > 4096 { 7 } else { 1 };
                while pos < stop {
                    insert(&mut idx, pos);
                    pos += step.min(stop - pos);
                }
                pos = stop;
                lit_start = pos;
            }
            None => {
                insert(&mut idx, pos);
                pos += 1;
            }
        }
    }
    out
}

fn f4_ll(parse: &[(usize, usize, usize)]) -> bool {
    !parse.is_empty() && parse.iter().all(|s| s.0 == 0)
}
fn f4_ml(parse: &[(usize, usize, usize)]) -> bool {
    !parse.is_empty() && parse.iter().all(|s| s.2 == 3)
}

/// literals of a parse of `blk`
fn literals_of(blk: &[u8], parse: &[(usize, usize, usize)]) -> Vec<u8> {
    let mut lits = vec![];
    let mut pos = 0;
    for &(ll, _, ml) in parse {
        lits.extend_from_slice(&blk[pos..(pos + ll).min(blk.len())]);
        pos = (pos + ll + ml).min(blk.len());
    }
    lits.extend_from_slice(&blk[pos..]);
    lits
}

fn f10(blk: &[u8], parse: &[(usize, usize, usize)]) -> bool {
    let lits = literals_of(blk, parse);
    lits.len() > 1024 && lits.iter().all(|b| *b == lits[0])
}

impl Matcher for ScriptMatcher {
    fn get_next_space(&mut self) -> Vec<u8> {
        let n = self.spaces[self.calls.min(self.spaces.len() - 1)];
        self.calls += 1;
        self.log.borrow_mut().blocks.push(BlockLog { space: n, len: 0, parse: None, committed: false });
        vec![0; n]
    }
    fn get_last_space(&mut self) -> &[u8] {
        &self.history[self.last_start..]
    }
    fn commit_space(&mut self, space: Vec<u8>) {
        self.last_start = self.history.len();
        self.history.extend_from_slice(&space);
        let mut log = self.log.borrow_mut();
        let b = log.blocks.last_mut().unwrap();
        b.len = space.len();
        b.committed = true;
    }
    fn skip_matching(&mut self) {}
    fn start_matching(&mut self, mut handle_sequence: impl for<'a> FnMut(Sequence<'a>)) {
        let bi = self.log.borrow().blocks.len() - 1;
        let mut parse = match self.plan.fixed.get(&bi) {
            Some(p) => p.clone(),
            None => make_parse(&self.history, self.last_start, self.window as usize, &self.plan, &mut self.rng),
        };
        // (F4 repaired: parses whose literal lengths are all 0 / match lengths all 3 are left alone)
        {
            let mut log = self.log.borrow_mut();
            if f4_ll(&parse) {
                log.all_ll_zero += 1;
            }
            if f4_ml(&parse) {
                log.all_ml_three += 1;
            }
            if f10(&self.history[self.last_start..], &parse) {
                log.single_value_literals += 1;
            }
        }
        self.log.borrow_mut().blocks[bi].parse = Some(parse.clone());
        let blk = &self.history[self.last_start..];
        let mut pos = 0;
        for &(ll, off, ml) in &parse {
            handle_sequence(Sequence::Triple { literals: &blk[pos..pos + ll], offset: off, match_len: ml });
            pos += ll + ml;
        }
        if pos < blk.len() || self.rng.chance(1, 2) {
            handle_sequence(Sequence::Literals { literals: &blk[pos..] });
        }
    }
    fn reset(&mut self, _level: CompressionLevel) {
        self.pre_reset_window = None;
        self.history.clear();
        self.calls = 0;
        self.last_start = 0;
        let mut log = self.log.borrow_mut();
        log.blocks.clear();
        log.resets += 1;
    }
    fn window_size(&self) -> u64 {
        self.pre_reset_window.unwrap_or(self.window)
    }
}

/// the window the header declares for `window_size() = w` (since the repair of F13: at least 128 KiB)
pub fn declared_window(w: u64) -> u64 {
    let w = w.max(BLOCK as u64);
    let log = if w <= 1 { 0 } else { 64 - (w - 1).leading_zeros() };
    let e = if log > 10 { log - 10 } else { 1 };
    1u64 << (10 + e)
}

/// the harness's own check that a logged script is a valid parse of the data (independent of the model)
fn script_valid(w: u64, data: &[u8], log: &Log) -> bool {
    if w > 1 << 41 {
        return false;
    }
    let maxs = BLOCK;
    let mut start = 0usize;
    for b in &log.blocks {
        if b.space == 0 || b.space > maxs {
            return false;
        }
        let blk = &data[start.min(data.len())..(start + b.space).min(data.len())];
        let constant = blk.iter().all(|x| *x == blk[0]);
        if !constant {
            // no `start_matching` call (Uncompressed level): the script entry has no sequences = all literals
            let empty = vec![];
            let parse = b.parse.as_ref().unwrap_or(&empty);
            let mut out: Vec<u8> = data[..start].to_vec();
            let mut pos = 0usize;
            for &(ll, off, ml) in parse {
                if pos + ll > blk.len() {
                    return false;
                }
                out.extend_from_slice(&blk[pos..pos + ll]);
                if ml < 3 || off == 0 || off as u64 > w || off > out.len() {
                    return false;
                }
                for _ in 0..ml {
                    let c = out[out.len() - off];
                    out.push(c);
                }
                pos += ll + ml;
                if pos > blk.len() {
                    return false;
                }
            }
            out.extend_from_slice(&blk[pos..]);
            if out[start..] != *blk {
                return false;
            }
        }
        start += b.space;
    }
    true
}

fn script_string(log: &Log) -> String {
    let mut parts = vec![];
    for b in &log.blocks {
        match &b.parse {
            Some(p) if !p.is_empty() => parts.push(format!("{}={}", b.space, p.iter().map(|(a, b, c)| format!("{}:{}:{}", a, b, c)).collect::<Vec<_>>().join(";"))),
            _ => parts.push(format!("{}", b.space)),
        }
    }
    if parts.is_empty() {
        parts.push("1".into());
    }
    parts.join("/")
}

pub struct Case {
    pub pre_reset_window: Option<u64>,
    pub label: String,
    pub w: u64,
    pub spaces: Vec<usize>,
    pub plan: Plan,
    pub data: Vec<u8>,
    pub lvl: Lvl,
    pub frags: Vec<usize>,
}

pub fn plan(mode: Mode) -> Plan {
    Plan { mode, fixed: HashMap::new(), chain: 8 }
}

/// one case through the public API; `rt_props` / `st_props`: the properties a failed round trip (or panic) /
/// a structural failure is reported under (`C16` here; `C02` / `C15` for the user-matcher cases of engine `enc`)
pub fn run_case(run: &mut Run, c: &Case, seed: u64, spec_limit: usize, spec_budget: &mut usize, rt_props: &[&str], st_props: &[&str]) {
    let log = Rc::new(RefCell::new(Log::default()));
    let mut m = ScriptMatcher::new(c.w, c.spaces.clone(), c.plan.clone(), seed, log.clone());
    m.pre_reset_window = c.pre_reset_window;
    let data = c.data.clone();
    let frags = c.frags.clone();
    let lvl = c.lvl.real();
    let r = guarded(move || {
        let mut out = Vec::new();
        let mut comp = FrameCompressor::new_with_matcher(m, lvl);
        comp.set_source(FragReader::new(&data, &frags));
        comp.set_drain(&mut out);
        comp.compress();
        drop(comp);
        out
    });
    let log = log.borrow();
    run.stat(&format!("mode_{:?}", c.plan.mode), 1);
    run.stat("blocks", log.blocks.len() as u64);
    let nseq: usize = log.blocks.iter().map(|b| b.parse.as_ref().map(|p| p.len()).unwrap_or(0)).sum();
    run.stat("sequences", nseq as u64);
    run.stat("blocks_all_ll_zero", log.all_ll_zero as u64);
    run.stat("blocks_all_ml_three", log.all_ml_three as u64);
    run.stat("blocks_single_value_literals_gt_1024", log.single_value_literals as u64);
    let maxseq = log.blocks.iter().map(|b| b.parse.as_ref().map(|p| p.len()).unwrap_or(0)).max().unwrap_or(0);
    if maxseq >= 32512 {
        run.stat("blocks_with_ge_32512_sequences", 1);
    }
    let script = script_string(&log);
    let line = format!("enc mrun {} 1 {} {} {} {}", c.lvl.tag(), c.w, script, hex(&c.data), frags_str(&c.frags));
    let replay = format!("# {} (seed {})\n{}", c.label, seed, if line.len() < 6000 { line.clone() } else { format!("{}… ({} chars)", &line[..300], line.len()) });
    match r {
        Err(p) => {
            run.oracle_checks += 1;
            // the block whose `start_matching` ran last is the one being encoded
            let bi = log.blocks.iter().rposition(|b| b.parse.is_some());
            let mut start = 0;
            let mut sig = format!("panic_{}", sig_of_panic(&p));
            // name the situation of the block that was being encoded (F4 / F10 are repaired: these are
            // plain violations now, the suffix only helps the reader)
            if let Some(bi) = bi {
                for b in &log.blocks[..bi] {
                    start += b.space;
                }
                let b = &log.blocks[bi];
                let blk = &c.data[start..(start + b.len).min(c.data.len())];
                let parse = b.parse.as_ref().unwrap();
                if f4_ll(parse) {
                    sig.push_str("_all_ll_zero");
                } else if f4_ml(parse) {
                    sig.push_str("_all_ml_three");
                } else if f10(blk, parse) {
                    sig.push_str("_single_literal_value");
                }
            }
            let sig = sig;
            run.stat(&format!("panic_{}", sig), 1);
            for pr in rt_props {
                run.fail(pr, &sig, format!("{}: compression with a well-behaved scripted matcher panics: {}", c.label, p), replay.clone());
            }
        }
        Ok(frame) => {
            let valid = script_valid(c.w, &c.data, &log);
            if !valid && c.lvl == Lvl::F {
                run.notes.push(format!("harness generated an invalid script for '{}'", c.label));
            }
            let blocks = &log.blocks;
            let exact = |i: usize| -> bool {
                match blocks.get(i) {
                    Some(b) => b.parse.as_ref().map(|p| p.is_empty()).unwrap_or(true) && b.len <= 1024,
                    None => false,
                }
            };
            let ans = describe(&frame, c.lvl, true, &Exact::Script(&exact), Some(valid));
            run.case(line, ans);
            run.stat("frames", 1);
            if let Ok(w) = walk_frame(&frame, true) {
                for b in &w.blocks {
                    run.stat(match b.ty { 0 => "blocks_raw", 1 => "blocks_rle", _ => "blocks_compressed" }, 1);
                    if b.ty == 2 {
                        let t = frame[b.body_start] & 3;
                        run.stat(match t { 0 => "lit_raw", 1 => "lit_rle", 2 => "lit_compressed", _ => "lit_treeless" }, 1);
                    }
                }
            }
            let spec_limit = if *spec_budget >= frame.len() { spec_limit } else { 0 };
            if frame.len() <= spec_limit {
                *spec_budget -= frame.len();
            }
            let fc = FrameCheck { rt_props, st_props, max_blocks: Some(blocks.len()), spec_limit, label: &c.label, replay: &replay };
            check_frame(run, &fc, &c.data, &frame);
            // the window the header declares covers every offset a valid script used (a decoder that keeps only
            // the declared window must still find the data)
            if valid && frame.len() > 5 && frame[4] & 0x20 == 0 {
                run.oracle_checks += 1;
                let wd = frame[5] as u64;
                let base = 1u64 << (10 + (wd >> 3));
                let declared = base + base / 8 * (wd & 7);
                let max_off = blocks.iter().filter_map(|b| b.parse.as_ref()).flat_map(|p| p.iter().map(|s| s.1)).max().unwrap_or(0) as u64;
                if max_off > declared {
                    for pr in st_props {
                        run.fail(pr, "offset_exceeds_declared_window", format!("{}: the script uses offset {} (<= window_size() = {}) but the frame header declares a window of {} bytes", c.label, max_off, c.w, declared), replay.clone());
                    }
                }
            }
        }
    }
}

fn matchy_data(rng: &mut Rng, len: usize) -> Vec<u8> {
    match rng.below(8) {
        0 => gen::data(rng, "text", len),
        1 => gen::data(rng, "periodic", len),
        2 => gen::data(rng, "lowalpha", len),
        3 => gen::data(rng, "runs", len),
        4 => gen::data(rng, "repeatfar", len),
        5 => {
            // period 3 with rare noise: one sequence per 3 bytes is possible
            let pat = rng.bytes(3);
            (0..len).map(|i| if rng.chance(1, 500) { rng.next() as u8 } else { pat[i % 3] }).collect()
        }
        6 => {
            // random data with planted short repeats (expensive parses: blocks end up raw)
            let mut v = rng.bytes(len);
            let mut i = 10;
            while i + 4 < len {
                let src = rng.below(i as u64 - 3) as usize;
                let n = rng.range(3, 4) as usize;
                for k in 0..n {
                    v[i + k] = v[src + k];
                }
                i += rng.range(4, 40) as usize;
            }
            v
        }
        _ => gen::data(rng, "mixed", len),
    }
}

/// corpus cases (`corpus/matcher_script/*.case`): `key=value` lines — label, w, spaces (comma list),
/// lvl (f|u), mode (greedy|lazy|random|dense|far|literals), fixed (`block:ll:off:ml;…`), data (hex)
fn load_corpus() -> Vec<Case> {
    let mut v = vec![];
    let mut names: Vec<_> = match std::fs::read_dir("corpus/matcher_script") {
        Ok(rd) => rd.filter_map(|e| e.ok()).map(|e| e.path()).filter(|p| p.extension().map(|x| x == "case").unwrap_or(false)).collect(),
        Err(_) => return v,
    };
    names.sort();
    for path in names {
        let text = match std::fs::read_to_string(&path) {
            Ok(t) => t,
            Err(_) => continue,
        };
        let mut kv: HashMap<String, String> = HashMap::new();
        for l in text.lines() {
            if l.starts_with('#') {
                continue;
            }
            if let Some((k, val)) = l.split_once('=') {
                kv.insert(k.trim().to_string(), val.trim().to_string());
            }
        }
        let get = |k: &str| kv.get(k).cloned().unwrap_or_default();
        let mode = match get("mode").as_str() {
            "lazy" => Mode::Lazy,
            "random" => Mode::Random,
            "dense" => Mode::Dense,
            "far" => Mode::Far,
            "literals" => Mode::LiteralsOnly,
            _ => Mode::Greedy,
        };
        let mut p = plan(mode);
        for item in get("fixed").split(';').filter(|x| !x.is_empty()) {
            let n: Vec<usize> = item.split(':').filter_map(|x| x.parse().ok()).collect();
            if n.len() == 4 {
                p.fixed.entry(n[0]).or_default().push((n[1], n[2], n[3]));
            }
        }
        let data = match unhex(&get("data")) {
            Some(d) => d,
            None => continue,
        };
        let spaces: Vec<usize> = get("spaces").split(',').filter_map(|x| x.parse().ok()).collect();
        if spaces.is_empty() {
            continue;
        }
        v.push(Case {
            pre_reset_window: None,
            label: format!("corpus {}: {}", path.file_name().unwrap().to_string_lossy(), get("label")),
            w: get("w").parse().unwrap_or(131072),
            spaces,
            plan: p,
            data,
            lvl: if get("lvl") == "u" { Lvl::U } else { Lvl::F },
            frags: vec![],
        });
    }
    v
}

/// `nb` literal-only blocks, then a block that starts with matches at offset = `window_size()` = `w` (a value the
/// one-byte window descriptor may not be able to express exactly)
pub fn window_edge_case(rng: &mut Rng, w: u64) -> Case {
    let nb = (w as usize).div_ceil(BLOCK) + 1;
    let mut d = rng.bytes(nb * BLOCK);
    let mut parse = vec![];
    for k in 0..40usize {
        let ll = if k == 0 { 0 } else { 2 };
        for _ in 0..ll {
            d.push(rng.next() as u8);
        }
        let off = w as usize - (k % 3);
        let ml = 5 + k % 7;
        for _ in 0..ml {
            let c = d[d.len() - off];
            d.push(c);
        }
        parse.push((ll, off, ml));
    }
    d.extend(rng.bytes(2));
    let mut p = plan(Mode::LiteralsOnly);
    for i in 0..nb {
        p.fixed.insert(i, vec![]);
    }
    p.fixed.insert(nb, parse);
    Case { pre_reset_window: None, label: format!("matches at offset = window_size() = {} (not representable) at the start of a block", w), w, spaces: vec![BLOCK], plan: p, data: d, lvl: Lvl::F, frags: vec![] }
}

pub fn run(opts: &Opts) -> Run {
    let mut run = Run::new("matcher_script");
    let mut rng = Rng::new(opts.seed ^ 0xc16);
    // ---- corpus first: witnesses of repaired findings (F4, F10, F13) must pass now
    let mut cases: Vec<Case> = load_corpus();
    run.stat("corpus_cases", cases.len() as u64);
    let spec_limit = if opts.thorough { 300_000 } else { 8_000 };
    let mut spec_budget: usize = if opts.thorough { 20_000_000 } else { 160_000 };

    // ---- directed cases -----------------------------------------------------------------------
    // (witnesses of F4, F10 and F13 live in corpus/matcher_script/ and run first)
    // sequence counts around the 2-byte / 3-byte boundary of the count field (F3, fixed) and the maximum
    for &nseq in &[127usize, 128, 32511, 32512, 32513, 43000] {
        if !opts.thorough && nseq == 32513 {
            continue;
        }
        let covered = 3 * nseq + 4;
        let n = (covered + 30).min(BLOCK);
        let pat = [7u8, 9, 11];
        let mut d: Vec<u8> = (0..n).map(|i| pat[i % 3]).collect();
        for k in covered..n {
            d[k] = 100 + (k - covered) as u8;
        }
        let mut parse = vec![(3usize, 3usize, 3usize)];
        while parse.len() < nseq - 1 {
            parse.push((0, 3, 3));
        }
        parse.push((0, 3, 4)); // one match length != 3, first literal length != 0: not F4
        let mut p = plan(Mode::Greedy);
        p.fixed.insert(0, parse);
        cases.push(Case { pre_reset_window: None, label: format!("{} sequences in one block", nseq), w: 131072, spaces: vec![BLOCK], plan: p, data: d, lvl: Lvl::F, frags: vec![] });
    }
    // maximal lengths: ml = 131071 after one literal; ll = 131069 then ml = 3
    {
        let a = rng.bytes(BLOCK);
        let mut d = a.clone();
        d.extend_from_slice(&a);
        let mut p = plan(Mode::Greedy);
        p.fixed.insert(1, vec![(1, BLOCK, BLOCK - 1)]);
        cases.push(Case { pre_reset_window: None, label: "match length 131071 at offset 131072".into(), w: 262144, spaces: vec![BLOCK], plan: p, data: d, lvl: Lvl::F, frags: vec![] });
        let mut d = gen::data(&mut rng, "text", BLOCK - 10);
        let t: Vec<u8> = d[10..13].to_vec();
        d.extend_from_slice(&t);
        d.extend_from_slice(b"pqrpqrp");
        let mut p = plan(Mode::Greedy);
        p.fixed.insert(0, vec![(BLOCK - 10, BLOCK - 10 - 10, 3), (3, 3, 4)]);
        cases.push(Case { pre_reset_window: None, label: "literal length 131062 then match length 3".into(), w: 131072, spaces: vec![BLOCK], plan: p, data: d, lvl: Lvl::F, frags: vec![] });
    }
    // offset exactly the window, match to the very first byte of the frame, overlapping match (offset 1)
    {
        let a = rng.bytes(1024);
        let mut d = a.clone();
        d.extend_from_slice(&a[..500]);
        d.extend(vec![d[1523]; 40]);
        d.extend(rng.bytes(5));
        let mut p = plan(Mode::Greedy);
        p.fixed.insert(0, vec![(1024, 1024, 500), (0, 1, 40)]);
        cases.push(Case { pre_reset_window: None, label: "offset = window = position, then offset 1 overlap".into(), w: 1024, spaces: vec![2048], plan: p, data: d, lvl: Lvl::F, frags: vec![1, 2, 3] });
    }
    // Huffman literals, treeless after a compressed block, and after a block forced raw (F5 scenario, scripted)
    {
        let blk: Vec<u8> = flattened_block(&mut rng, 3004, 40);
        let mut d = blk.clone();
        d.extend_from_slice(&blk);
        d.extend_from_slice(&blk);
        let mut p = plan(Mode::LiteralsOnly);
        p.fixed.insert(0, vec![(2999, 1999, 4)]);
        p.fixed.insert(1, vec![(2999, 1999, 4)]);
        p.fixed.insert(2, vec![(2999, 1999, 4)]);
        cases.push(Case { pre_reset_window: None, label: "three identical blocks of 3000 literals over 255 values + one 4-byte match".into(), w: 4096, spaces: vec![3004], plan: p, data: d, lvl: Lvl::F, frags: vec![] });
        // sweep of the same scenario: block sizes x flattening depths, so that some land in the narrow band
        // where Huffman gains a few bytes but the block is still stored raw (table remembered, F5)
        let sizes: &[usize] = if opts.thorough { &[1500, 2200, 3004, 5000, 9000, 20000] } else { &[2200, 3004, 9000] };
        for &n in sizes {
            let step = if opts.thorough { 4 } else { 16 };
            for m in (0..=n / 6).step_by(step * n / 3000 + 1) {
                let blk: Vec<u8> = flattened_block(&mut rng, n, m);
                let mut d = blk.clone();
                d.extend_from_slice(&blk);
                let mut p = plan(Mode::LiteralsOnly);
                p.fixed.insert(0, vec![(n - 5, n - 5 - 1000, 4)]);
                p.fixed.insert(1, vec![(n - 5, n - 5 - 1000, 4)]);
                cases.push(Case { pre_reset_window: None, label: format!("treeless-after-raw sweep n={} moves={}", n, m), w: 131072, spaces: vec![n], plan: p, data: d, lvl: Lvl::F, frags: vec![] });
                // the same two blocks behind a block that WAS kept compressed with another table (the decoder holds a table,
                // but not the one of the block stored raw)
                {
                    let text = gen::data(&mut rng, "text", 3000);
                    let mut d2 = text.clone();
                    d2.extend_from_slice(&blk);
                    d2.extend_from_slice(&blk);
                    let mut p2 = plan(Mode::LiteralsOnly);
                    p2.fixed.insert(0, vec![]);
                    p2.fixed.insert(1, vec![(n - 5, n - 5 - 1000, 4)]);
                    p2.fixed.insert(2, vec![(n - 5, n - 5 - 1000, 4)]);
                    cases.push(Case { pre_reset_window: None, label: format!("treeless-after-raw behind a compressed block n={} moves={}", n, m), w: 131072, spaces: vec![3000, n], plan: p2, data: d2, lvl: Lvl::F, frags: vec![] });
                }
            }
        }
        // full-size blocks (the band exists only where the Huffman table description is cheap relative to the block)
        let depths: Vec<usize> = if opts.thorough || opts.focus.is_some() { (100..2200).step_by(75).collect() } else { vec![171, 400, 1500] };
        for m in depths {
            let blk: Vec<u8> = flattened_block(&mut rng, BLOCK, m);
            let mut d = blk.clone();
            d.extend_from_slice(&blk[..*rng.pick(&[3000usize, 40_000, BLOCK])]);
            let mut p = plan(Mode::LiteralsOnly);
            p.fixed.insert(0, vec![(BLOCK - 5, BLOCK - 5 - 1000, 5)]);
            cases.push(Case { pre_reset_window: None, label: format!("treeless-after-raw full block moves={}", m), w: 131072, spaces: vec![BLOCK], plan: p, data: d, lvl: Lvl::F, frags: vec![] });
        }
        // … and behind a small block that WAS kept compressed with another table (own sweep: the band lies elsewhere)
        let depths2: Vec<usize> = if opts.thorough || opts.focus.is_some() { (100..2200).step_by(50).collect() } else { (100..2200).step_by(150).collect() };
        for m in depths2 {
            let blk: Vec<u8> = flattened_block(&mut rng, BLOCK, m);
            let text = gen::data(&mut rng, "text", 3000);
            let mut d2 = text.clone();
            d2.extend_from_slice(&blk);
            d2.extend_from_slice(&blk[..40_000]);
            let mut p2 = plan(Mode::LiteralsOnly);
            p2.fixed.insert(0, vec![]);
            p2.fixed.insert(1, vec![(BLOCK - 5, BLOCK - 5 - 1000, 5)]);
            cases.push(Case { pre_reset_window: None, label: format!("treeless-after-raw full block behind a compressed block moves={}", m), w: 131072, spaces: vec![3000, BLOCK], plan: p2, data: d2, lvl: Lvl::F, frags: vec![] });
        }
        let t = gen::data(&mut rng, "text", 12000);
        let mut p = plan(Mode::LiteralsOnly);
        p.chain = 1;
        cases.push(Case { pre_reset_window: None, label: "text, literals only, 3 blocks (Huffman, then treeless)".into(), w: 4096, spaces: vec![4000], plan: p, data: t, lvl: Lvl::F, frags: vec![] });
    }
    // a non-constant block whose literals all have ONE value, 1025 .. 70000 of them (RLE literals section: every
    // size format), the matches reaching into the previous block
    for &nl in &[1025usize, 4095, 4096, 4097, 5500, 65535, 65536, 70000] {
        if !opts.thorough && (nl == 4097 || nl == 65535) {
            continue;
        }
        let first = rng.bytes(8192);
        let mut d = first.clone();
        let b = rng.next() as u8;
        let head = nl - nl / 3;
        d.extend(vec![b; head]);
        d.extend_from_slice(&first[100..160]);
        d.extend(vec![b; nl - head]);
        let mut p = plan(Mode::LiteralsOnly);
        p.fixed.insert(0, vec![]);
        p.fixed.insert(1, vec![(head, 8192 + head - 100, 60)]);
        cases.push(Case { pre_reset_window: None, label: format!("{} literals of one value around a match into the previous block", nl), w: 131072, spaces: vec![8192, BLOCK], plan: p, data: d, lvl: Lvl::F, frags: vec![] });
    }
    // flat histogram over many offset codes (the offset table reaches its maximal accuracy log), with far offsets:
    // `nb` literal-only blocks, then one block of short sequences whose offsets have the codes lo..=hi `per` times each
    for &(nb, lo, hi, per) in &[(1usize, 3u32, 16u32, 33usize), (1, 5, 16, 30), (2, 3, 17, 28), (1, 2, 12, 60), (1, 7, 16, 24)] {
        let mut d = rng.bytes(nb * BLOCK);
        let mut parse = vec![];
        // one rare code first (otherwise the normalisation flattens everything to 1)
        let mut offs: Vec<usize> = vec![1];
        for c in lo..=hi {
            for k in 0..per {
                let base = (1usize << c) - 3;
                let span = 1usize << c;
                offs.push((base + (k * 7919) % span).max(1));
            }
        }
        // deterministic shuffle
        for i in (1..offs.len()).rev() {
            let j = rng.below(i as u64 + 1) as usize;
            offs.swap(i, j);
        }
        for off in offs {
            let ll = 2 + rng.below(2) as usize;
            let ml = 3 + rng.below(4) as usize;
            for _ in 0..ll {
                d.push(rng.next() as u8);
            }
            let off = off.min(d.len());
            for _ in 0..ml {
                let c = d[d.len() - off];
                d.push(c);
            }
            parse.push((ll, off, ml));
        }
        d.extend(rng.bytes(3));
        let mut p = plan(Mode::LiteralsOnly);
        for i in 0..nb {
            p.fixed.insert(i, vec![]);
        }
        p.fixed.insert(nb, parse);
        cases.push(Case { pre_reset_window: None, label: format!("flat offset-code histogram {}..={} x{} after {} blocks", lo, hi, per, nb), w: 1 << 20, spaces: vec![BLOCK], plan: p, data: d, lvl: Lvl::F, frags: vec![] });
    }
    // windows that the window descriptor cannot represent exactly, and a match at (nearly) the full window right at
    // the start of a block: the declared window must not be smaller than what the matcher uses
    for &w in &[131_073u64, 200_000, 150_000, 262_143, 229_377, 300_000] {
        cases.push(window_edge_case(&mut rng, w));
    }
    // a matcher that only knows its window after `reset` (before it: a much smaller one): the header must declare the
    // window the matcher has WHILE it produces the matches
    for &w in &[200_000u64, 1 << 20] {
        let mut c = window_edge_case(&mut rng, w);
        c.pre_reset_window = Some(1024);
        c.label = format!("{} [window_size() is 1024 until reset]", c.label);
        cases.push(c);
    }
    // thousands of short matches FAR back (offset codes 17 … 19: 17 … 19 extra bits per sequence, written in one piece):
    // 1 MiB window, five literal-only blocks, then one block of 4500 matches 384 … 640 KiB back
    {
        let nb = 5usize;
        let mut d = rng.bytes(nb * BLOCK);
        let mut parse = vec![];
        for k in 0..4500usize {
            let ll = 1 + (k % 3);
            for _ in 0..ll {
                d.push(rng.next() as u8);
            }
            let off = 384 * 1024 + ((k * 7919) % (256 * 1024));
            let ml = 3 + k % 5;
            for _ in 0..ml {
                let c = d[d.len() - off];
                d.push(c);
            }
            parse.push((ll, off, ml));
        }
        d.extend(rng.bytes(3));
        let mut p = plan(Mode::LiteralsOnly);
        for i in 0..nb {
            p.fixed.insert(i, vec![]);
        }
        p.fixed.insert(nb, parse);
        cases.push(Case { pre_reset_window: None, label: "4500 short matches 384-640 KiB back (1 MiB window)".into(), w: 1 << 20, spaces: vec![BLOCK], plan: p, data: d, lvl: Lvl::F, frags: vec![] });
    }
    // a whole block that is ONE match (match length 131072, the last row of the match length code table)
    {
        let a = rng.bytes(BLOCK);
        let mut d = a.clone();
        d.extend_from_slice(&a);
        d.extend_from_slice(&a[..77]);
        let mut p = plan(Mode::LiteralsOnly);
        p.fixed.insert(0, vec![]);
        p.fixed.insert(1, vec![(0, BLOCK, BLOCK)]);
        p.fixed.insert(2, vec![(0, BLOCK, 77)]);
        cases.push(Case { pre_reset_window: None, label: "a block that is one match of length 131072".into(), w: 262144, spaces: vec![BLOCK], plan: p, data: d, lvl: Lvl::F, frags: vec![] });
    }
    // F13 (repaired): window_size() far below the size of the spaces; the header must declare a window
    // that covers every block (these frames were rejected by libzstd before the repair)
    for (w, sp) in [(0u64, BLOCK), (1024, BLOCK), (1024, 2049), (5000, 70_000), (65_536, BLOCK)] {
        let t = gen::data(&mut rng, "text", sp * 2 + 900);
        for lvl in [Lvl::F, Lvl::U] {
            cases.push(Case { pre_reset_window: None, label: format!("F13 window_size {} with {} byte spaces", w, sp), w, spaces: vec![sp], plan: plan(Mode::Greedy), data: t.clone(), lvl, frags: vec![] });
        }
    }

    // ---- generated cases ----------------------------------------------------------------------
    let n = if opts.thorough { 3000 } else { 260 };
    for i in 0..n {
        let w = *rng.pick(&[1024u64, 1500, 2048, 4096, 10_000, 65_536, 131_072, 200_000, 262_144, 1 << 20, 1 << 22, 0, 1, 3000]);
        // spaces are limited by the trait's 128 KiB only, whatever the window (F13 repaired)
        let maxs = if rng.chance(1, 3) { BLOCK } else { (w.max(2048).next_power_of_two() as usize).min(BLOCK) };
        let nsp = rng.range(1, 6) as usize;
        let spaces: Vec<usize> = (0..nsp)
            .map(|_| match rng.below(5) {
                0 => maxs,
                1 => rng.range(1, 16) as usize,
                2 => rng.range(1, maxs as u64) as usize,
                3 => (maxs / 2).max(1),
                _ => rng.range(1, (maxs as u64).min(5000)) as usize,
            })
            .collect();
        let min_space = *spaces.last().unwrap();
        let cap = if opts.thorough { 600_000 } else if i % 10 == 0 { 280_000 } else { 30_000 };
        // small trailing spaces would make thousands of blocks
        let len = gen::pick_len(&mut rng, cap.min(min_space * 400 + 2000));
        let data = matchy_data(&mut rng, len);
        let mode = *rng.pick(&[Mode::Greedy, Mode::Lazy, Mode::Random, Mode::Random, Mode::Dense, Mode::Far, Mode::LiteralsOnly]);
        let mut p = plan(mode);
        p.chain = *rng.pick(&[1usize, 4, 16]);
        let lvl = if rng.chance(1, 6) { Lvl::U } else { Lvl::F };
        let frags = frag_scripts(&mut rng, data.len());
        cases.push(Case { pre_reset_window: None, label: format!("gen#{} w={} spaces={:?} mode={:?} len={} lvl={:?}", i, w, spaces, mode, data.len(), lvl), w, spaces, plan: p, data, lvl, frags });
    }

    for (i, c) in cases.iter().enumerate() {
        if i < 4 {
            run.samples.push(format!("{} ({} bytes, level {:?})", c.label, c.data.len(), c.lvl));
        }
        run_case(&mut run, c, opts.seed.wrapping_mul(1000) + i as u64, spec_limit, &mut spec_budget, &["C16"], &["C16"]);
    }
    run
}
