//! Engine `mem` (C05): allocator-measured peak memory of decode calls on VALID frames of many window
//! sizes, for every decode strategy and read size, against the bound the property states:
//! buffered data ≤ window + requested + one block (128 KiB).  The ring buffer doubles its capacity
//! when it grows and keeps the old allocation alive while copying, so the heap bound checked is
//! 3·(window + requested + 128 KiB) + slack, slack = the block-level scratch vectors.
//! Hostile frames (thousands of maximum-length matches, oversized literals, …) are covered by the
//! `hostile` engine with the same allocator.
use crate::alloc_count;
use crate::gen;
use crate::util::*;
use ruzstd::decoding::{BlockDecodingStrategy, FrameDecoder, StreamingDecoder};
use std::io::Read;

const SLACK: usize = 2 << 20;
const BLOCK: usize = 128 << 10;

fn bound(window: usize, requested: usize) -> usize {
    3 * (window + requested + BLOCK) + SLACK
}

pub fn run(opts: &Opts) -> Run {
    let mut run = Run::new("mem");
    let mut rng = Rng::new(opts.seed ^ 0x3e3);
    let sizes: &[usize] = if opts.thorough { &[300_000, 2_000_000, 9_000_000, 40_000_000] } else { &[300_000, 1_500_000, 5_000_000] };
    let mut distinct = 0u64;
    for (i, &len) in sizes.iter().enumerate() {
        for wlog in [10u32, 13, 17, 20, 22] {
            if !opts.thorough && (i + wlog as usize) % 2 == 1 {
                continue;
            }
            let kind = *rng.pick(&["text", "periodic", "mixed", "repeatfar", "lowalpha"]);
            let data = gen::data(&mut rng, kind, len);
            let p = gen::ZParams { level: *rng.pick(&[1, 3, 6]), window_log: Some(wlog), ldm: false, checksum: rng.chance(1, 2), content_size: false, flush_every: None, min_match: None, strategy_btultra: false };
            let frame = gen::zstd_frame(&data, &p, None);
            let window = 1usize << wlog;
            let label = format!("{} {} B, wlog {}, frame {} B", kind, len, wlog, frame.len());
            if run.samples.len() < 3 {
                run.samples.push(label.clone());
            }
            // (a) documented loop with UptoBytes(n) + collect
            for n in [1usize, 4096, 1 << 20] {
                run.oracle_checks += 1;
                crate::util::watchdog::beat(None);
                let base = alloc_count::start();
                let mut max_buffered = 0usize;
                let r = guarded(|| {
                    let mut d = FrameDecoder::new();
                    let mut src = &frame[..];
                    d.reset(&mut src).map_err(|e| format!("{:?}", e))?;
                    let mut total = 0usize;
                    while !d.is_finished() {
                        d.decode_blocks(&mut src, BlockDecodingStrategy::UptoBytes(n)).map_err(|e| format!("{:?}", e))?;
                        // can_collect() + retained window = what the decoder holds
                        max_buffered = max_buffered.max(d.can_collect());
                        if let Some(v) = d.collect() {
                            total += v.len();
                        }
                    }
                    if let Some(v) = d.collect() {
                        total += v.len();
                    }
                    Ok::<usize, String>(total)
                });
                let (peak, biggest) = alloc_count::stop(base);
                distinct += 1;
                // the collected vectors are the caller's: at most one is alive at a time (≤ n + block + window)
                let b = bound(window, n) + (n + BLOCK + window);
                match r {
                    Ok(Ok(total)) => {
                        if total != data.len() {
                            run.fail("C01", "wrong_length", format!("[{}] UptoBytes({}) loop delivered {} bytes of {}", label, n, total, data.len()), format!("mem frame wlog {} n {}", wlog, n));
                        }
                        if peak > b {
                            run.fail("C05", "peak_memory_valid_frame", format!("[{}] UptoBytes({}) loop: peak heap growth {} B (largest single allocation {} B) exceeds 3·(window {} + requested {} + 128 KiB) + slack = {}", label, n, peak, biggest, window, n, b), format!("hostile input {}", hex(&frame[..frame.len().min(200_000)])));
                        }
                        if max_buffered > n + BLOCK + window {
                            run.fail("C05", "buffered_beyond_request", format!("[{}] UptoBytes({}): {} bytes were collectable at once (> requested + one block + window)", label, n, max_buffered), String::new());
                        }
                    }
                    Ok(Err(e)) => run.fail("C01", "rejects_valid_frame", format!("[{}] {}", label, e), String::new()),
                    Err(p) => run.fail("C03", "panic_valid_frame", format!("[{}] {}", label, p), String::new()),
                }
                run.stat(&format!("peak_kib:wlog{}:n{}", wlog, n), (peak / 1024) as u64);
            }
            // (b) StreamingDecoder with a small and a large read buffer
            for n in [100usize, 65536] {
                run.oracle_checks += 1;
                crate::util::watchdog::beat(None);
                let base = alloc_count::start();
                let r = guarded(|| {
                    let mut s = StreamingDecoder::new(&frame[..]).map_err(|e| format!("{:?}", e))?;
                    let mut buf = vec![0u8; n];
                    let mut total = 0usize;
                    loop {
                        let k = s.read(&mut buf).map_err(|e| format!("{:?}", e))?;
                        if k == 0 {
                            break;
                        }
                        total += k;
                    }
                    Ok::<usize, String>(total)
                });
                let (peak, biggest) = alloc_count::stop(base);
                distinct += 1;
                let b = bound(window, n) + n;
                match r {
                    Ok(Ok(total)) => {
                        if total != data.len() {
                            run.fail("C01", "wrong_length", format!("[{}] streaming read({}) delivered {} of {}", label, n, total, data.len()), String::new());
                        }
                        if peak > b {
                            run.fail("C05", "peak_memory_valid_frame", format!("[{}] StreamingDecoder::read({}): peak heap growth {} B (largest single allocation {} B) exceeds 3·(window {} + requested {} + 128 KiB) + slack = {}", label, n, peak, biggest, window, n, b), format!("hostile input {}", hex(&frame[..frame.len().min(200_000)])));
                        }
                    }
                    Ok(Err(e)) => run.fail("C01", "rejects_valid_frame", format!("[{}] {}", label, e), String::new()),
                    Err(p) => run.fail("C03", "panic_valid_frame", format!("[{}] {}", label, p), String::new()),
                }
                run.stat(&format!("peak_kib:wlog{}:stream{}", wlog, n), (peak / 1024) as u64);
            }
        }
    }
    // (c) what a REUSED decoder holds: hand-made frames of raw blocks (so the number of bytes decoded after k blocks is
    // known exactly), decoded block by block with `collect()` after every block, on a decoder whose previous frame
    // declared a much larger (or smaller) window.  held = decoded - collected must stay <= window + one block.
    let raw_frame = |window_desc: u8, nblocks: usize, bsize: usize, rng: &mut Rng| -> (Vec<u8>, Vec<u8>) {
        let mut f = vec![0x28, 0xb5, 0x2f, 0xfd, 0x00, window_desc];
        let mut data = vec![];
        for k in 0..nblocks {
            let blk = rng.bytes(bsize);
            let h = ((bsize as u32) << 3) | if k + 1 == nblocks { 1 } else { 0 };
            f.extend_from_slice(&h.to_le_bytes()[..3]);
            f.extend_from_slice(&blk);
            data.extend_from_slice(&blk);
        }
        (f, data)
    };
    let wsize = |wd: u8| -> usize {
        let base = 1usize << (10 + (wd >> 3));
        base + base / 8 * (wd & 7) as usize
    };
    for &(prev_wd, wd, nblocks, bsize) in &[(13u8 << 3, 0u8, 600usize, 1000usize), (0, 0, 600, 1000), (13 << 3, 7 << 3, 40, 100_000), (0, 10 << 3, 30, 131_072), (10 << 3, 3, 900, 1024)] {
        let (prev, _) = raw_frame(prev_wd, 1, 10, &mut rng);
        let (frame, data) = raw_frame(wd, nblocks, bsize, &mut rng);
        let window = wsize(wd);
        for reused in [false, true] {
            run.oracle_checks += 1;
            crate::util::watchdog::beat(None);
            let label = format!("{} decoder (previous window {} B), frame of {} raw blocks of {} B, window {} B", if reused { "reused" } else { "fresh" }, wsize(prev_wd), nblocks, bsize, window);
            let r = guarded(|| {
                let mut d = FrameDecoder::new();
                if reused {
                    let mut src = &prev[..];
                    d.reset(&mut src).map_err(|e| format!("{:?}", e))?;
                    d.decode_blocks(&mut src, BlockDecodingStrategy::All).map_err(|e| format!("{:?}", e))?;
                    let _ = d.collect();
                }
                let mut src = &frame[..];
                d.reset(&mut src).map_err(|e| format!("{:?}", e))?;
                let mut collected = 0usize;
                let mut max_held = 0usize;
                let mut k = 0usize;
                while !d.is_finished() {
                    d.decode_blocks(&mut src, BlockDecodingStrategy::UptoBlocks(1)).map_err(|e| format!("{:?}", e))?;
                    k += 1;
                    if let Some(v) = d.collect() {
                        collected += v.len();
                    }
                    let decoded = (k * bsize).min(data.len());
                    if !d.is_finished() {
                        max_held = max_held.max(decoded - collected.min(decoded));
                    }
                }
                Ok::<(usize, usize), String>((max_held, collected))
            });
            distinct += 1;
            match r {
                Ok(Ok((max_held, collected))) => {
                    run.stat(&format!("held_after_collect:{}:{}", if reused { "reused" } else { "fresh" }, window), max_held as u64);
                    if collected != data.len() {
                        run.fail("C01", "wrong_length", format!("[{}] delivered {} of {}", label, collected, data.len()), String::new());
                    }
                    if max_held > window + BLOCK {
                        run.fail("C05", "held_beyond_window", format!("[{}] after collect() the decoder still held {} decoded bytes (> window {} + one block)", label, max_held, window), format!("# previous frame, then this frame, decoded with UptoBlocks(1) + collect() on one decoder\nhostile input {}\nhostile input {}", hex(&prev), hex(&frame[..frame.len().min(300_000)])));
                    }
                }
                Ok(Err(e)) => run.fail("C01", "rejects_valid_frame", format!("[{}] {}", label, e), String::new()),
                Err(p) => run.fail("C03", "panic_valid_frame", format!("[{}] {}", label, p), String::new()),
            }
        }
    }
    // (d) `decode_all` into a target that is far too small for a frame of many RLE blocks (a few hundred bytes of input,
    // tens of MiB of content): the call must fail WITHOUT first decoding and holding the rest of the frame
    for &(nblocks, room) in &[(200usize, 65_536usize), (120, 1), (60, 1 << 20)] {
        let mut f = vec![0x28, 0xb5, 0x2f, 0xfd, 0x00, 0x38]; // window 128 KiB
        for k in 0..nblocks {
            let h = ((BLOCK as u32) << 3) | (1 << 1) | if k + 1 == nblocks { 1 } else { 0 };
            f.extend_from_slice(&h.to_le_bytes()[..3]);
            f.push(k as u8);
        }
        let window = 128 << 10;
        run.oracle_checks += 1;
        crate::util::watchdog::beat(None);
        let base = alloc_count::start();
        let r = guarded(|| {
            let mut d = FrameDecoder::new();
            let mut target = vec![0u8; room];
            let res = d.decode_all(&f, &mut target).map_err(|e| format!("{:?}", e));
            (res, d.can_collect(), d.blocks_decoded())
        });
        let (peak, biggest) = alloc_count::stop(base);
        distinct += 1;
        // decode_all works in steps of 1 MiB: window + one step + one block, with the ring's growth factor
        let b = bound(window, 1 << 20) + room;
        match r {
            Ok((res, can, blocks)) => {
                run.stat(&format!("decode_all_small_target_peak_kib:{}", nblocks), (peak / 1024) as u64);
                if res.is_ok() {
                    run.fail("C10", "decode_all_silent_success", format!("decode_all of {} MiB of content into a {} byte target returned {:?}", nblocks * BLOCK >> 20, room, res), format!("hostile input {}", hex(&f)));
                }
                if peak > b || can > window + (1 << 20) + BLOCK {
                    run.fail("C05", "decode_all_small_target_buffers_frame", format!("decode_all into a {} byte target of a {}-block frame ({} bytes of input): the call failed only after decoding {} blocks, holding {} bytes (peak heap growth {} B, largest allocation {} B; bound {} B)", room, nblocks, f.len(), blocks, can, peak, biggest, b), format!("# decode_all(frame, &mut [0u8; {}])\nhostile input {}", room, hex(&f)));
                }
            }
            Err(p) => run.fail("C03", "panic_decode_all", format!("decode_all with a small target panicked: {}", p), format!("hostile input {}", hex(&f))),
        }
    }
    run.stat("distinct_nontrivial", distinct);
    run
}
