//! Engine `ring` (C04): the unsafe output window (`RingBuffer`) and the `DecodeBuffer` on top of it,
//! driven by request lines (`ring <op> <args>`), one real object of each kind living in an executor.
//! Every request is run on the REAL code with the memory-trace hooks enabled; the answer line is the
//! canonical form the Lean model (`Zstd/Driver/Ring.lean`) prints for the same request.
//! Implementation-only oracles: a `VecDeque` mirror of the contents, a shadow memory driven by the
//! real memory events (bounds + initialisation of every raw access), and the hash of delivered bytes.
use crate::util::*;
use core::hash::Hasher;
use ruzstd::decoding::errors::DecodeBufferError;
use ruzstd::verif_hooks::{trace_enable, trace_take, CboEvent, DecodeBuffer, MemEvent, RingBuffer};
use std::collections::{BTreeMap, VecDeque};
use std::io::{Read, Write};

/// `size_of::<CopyType>()` of `copy_bytes_overshooting` on this target (u128: SSE2 / NEON)
const C: usize = 16;

fn dangling() -> usize {
    core::ptr::NonNull::<u8>::dangling().as_ptr() as usize
}

// ---------------------------------------------------------------------------------------------
// canonical printing

fn fnv1a(b: &[u8]) -> u64 {
    let mut h: u64 = 0xcbf2_9ce4_8422_2325;
    for &x in b {
        h = (h ^ x as u64).wrapping_mul(0x0000_0100_0000_01b3);
    }
    h
}

/// `showBytes` of the driver: `-`, hex up to 48 bytes, else `<len>:<fnv1a64>`
fn show_bytes(b: &[u8]) -> String {
    if b.is_empty() {
        "-".to_string()
    } else if b.len() <= 48 {
        hex(b)
    } else {
        format!("{}:{:016x}", b.len(), fnv1a(b))
    }
}

fn show_hashed(b: &[u8]) -> String {
    format!("{}:{:016x}", b.len(), fnv1a(b))
}

fn num(s: &str) -> Option<usize> {
    if s.is_empty() || !s.bytes().all(|b| b.is_ascii_digit()) {
        return None;
    }
    s.parse().ok()
}

fn byte(s: &str) -> Option<u8> {
    num(s).filter(|v| *v < 256).map(|v| v as u8)
}

// ---------------------------------------------------------------------------------------------
// scripted reader / writer

/// A reader over exactly `data` that hands out at most `chunk` bytes per `read` call and does NOT
/// override `read_exact`, so the default `read_exact` of `std::io::Read` is what the ring buffer runs.
struct ChunkReader {
    data: Vec<u8>,
    pos: usize,
    chunk: usize,
}
/// bytes of a destination slice that a reader was handed and that were not blank: the ring buffer must not lend
/// never-written memory (fresh heap memory is poisoned with 0xA5 by the harness allocator while this engine runs) or
/// stale contents to a caller-supplied `Read`, which is free to read its destination
static READER_SAW_DIRTY: std::sync::atomic::AtomicUsize = std::sync::atomic::AtomicUsize::new(0);

impl Read for ChunkReader {
    fn read(&mut self, buf: &mut [u8]) -> std::io::Result<usize> {
        let dirty = buf.iter().filter(|b| **b != 0).count();
        if dirty > 0 {
            READER_SAW_DIRTY.fetch_add(dirty, std::sync::atomic::Ordering::Relaxed);
        }
        let n = buf.len().min(self.chunk).min(self.data.len() - self.pos);
        buf[..n].copy_from_slice(&self.data[self.pos..self.pos + n]);
        self.pos += n;
        Ok(n)
    }
}

#[derive(Clone, Copy, Debug)]
enum SinkResp {
    Take(usize),
    Fail(i32),
}

/// A scripted `Write`: one script entry per `write` call, an exhausted script takes everything.
struct ScriptSink {
    script: VecDeque<SinkResp>,
    got: Vec<u8>,
}
impl Write for ScriptSink {
    fn write(&mut self, buf: &[u8]) -> std::io::Result<usize> {
        match self.script.pop_front() {
            None => {
                self.got.extend_from_slice(buf);
                Ok(buf.len())
            }
            Some(SinkResp::Take(k)) => {
                let n = k.min(buf.len());
                self.got.extend_from_slice(&buf[..n]);
                Ok(n)
            }
            Some(SinkResp::Fail(kind)) => Err(std::io::Error::from_raw_os_error(kind)),
        }
    }
    fn flush(&mut self) -> std::io::Result<()> {
        Ok(())
    }
}

fn parse_sink(s: &str) -> Option<Vec<SinkResp>> {
    if s == "-" {
        return Some(vec![]);
    }
    s.split(',')
        .map(|tok| {
            if let Some(r) = tok.strip_prefix('t') {
                num(r).map(SinkResp::Take)
            } else if let Some(r) = tok.strip_prefix('e') {
                num(r).map(|k| SinkResp::Fail(k as i32))
            } else {
                None
            }
        })
        .collect()
}

// ---------------------------------------------------------------------------------------------
// address -> offset canonicalisation

/// The allocation the object currently owns, as reconstructed from the event stream alone.
struct Track {
    base: usize,
    cap: usize,
}
impl Track {
    fn fresh() -> Self {
        Track { base: dangling(), cap: 0 }
    }

    /// Turn the raw events of one operation into the two trace fields of the answer line.
    fn canon(&mut self, mem: &[MemEvent], cbo: &[CboEvent], problems: &mut Vec<String>) -> (String, String) {
        use std::fmt::Write as _;
        let mut pending: Option<(usize, usize)> = None;
        let mut m = String::new();
        for e in mem {
            if !m.is_empty() {
                m.push(',');
            }
            match e.kind {
                "alloc" => {
                    if self.cap == 0 && pending.is_none() {
                        // nothing to copy, no dealloc event: the new block is current at once
                        self.base = e.addr;
                        self.cap = e.len;
                    } else {
                        if pending.is_some() {
                            problems.push("second alloc event while a reallocation is pending".into());
                        }
                        pending = Some((e.addr, e.len));
                    }
                    let _ = write!(m, "a{}", e.len);
                }
                "dealloc" => {
                    match pending.take() {
                        Some((b, c)) => {
                            if e.addr != self.base || e.len != self.cap {
                                problems.push(format!("dealloc({:#x},{}) but tracked block is ({:#x},{})", e.addr, e.len, self.base, self.cap));
                            }
                            self.base = b;
                            self.cap = c;
                        }
                        None => problems.push("dealloc event without a pending allocation".into()),
                    }
                    let _ = write!(m, "d{}", e.len);
                }
                "r" => {
                    let _ = write!(m, "r{}:{}", e.addr.wrapping_sub(self.base), e.len);
                }
                "w" => {
                    let b = pending.map(|p| p.0).unwrap_or(self.base);
                    let _ = write!(m, "w{}:{}", e.addr.wrapping_sub(b), e.len);
                }
                k => {
                    problems.push(format!("unknown event kind {}", k));
                    let _ = write!(m, "?{}", k);
                }
            }
        }
        if pending.is_some() {
            problems.push("alloc event of a non-empty buffer without dealloc event".into());
        }
        if m.is_empty() {
            m.push('-');
        }
        let mut c = String::new();
        for e in cbo {
            if !c.is_empty() {
                c.push(',');
            }
            let _ = write!(c, "c{}:{}:{}:{}:{}", e.src.wrapping_sub(self.base), e.src_len, e.dst.wrapping_sub(self.base), e.dst_len, e.copy_at_least);
        }
        if c.is_empty() {
            c.push('-');
        }
        (m, c)
    }
}

// ---------------------------------------------------------------------------------------------
// shadow memory

struct Alloc {
    base: usize,
    cap: usize,
    init: Vec<bool>,
}

#[derive(Default)]
struct Shadow {
    allocs: Vec<Alloc>,
}

type Fails = Vec<(&'static str, String)>;

impl Shadow {
    fn find(&self, addr: usize, len: usize) -> Option<usize> {
        self.allocs.iter().position(|a| addr >= a.base && addr - a.base <= a.cap && len <= a.cap - (addr - a.base))
    }

    fn describe(&self, addr: usize, len: usize) -> String {
        // relative to the nearest live allocation, so that the text is reproducible
        let mut best: Option<(&Alloc, i128)> = None;
        for a in &self.allocs {
            let d = addr as i128 - a.base as i128;
            if best.map(|(_, bd)| d.abs() < bd.abs()).unwrap_or(true) {
                best = Some((a, d));
            }
        }
        match best {
            Some((a, d)) => format!("offset {} len {} (allocation of {} bytes)", d, len, a.cap),
            None => format!("address {:#x} len {} (no live allocation)", addr, len),
        }
    }

    /// Apply the events of one operation; `skip_mark` = index of a `w` event that is announced by the
    /// hook but not executed (second region of a failing `extend_from_reader`).  Returns #checks.
    fn apply(&mut self, mem: &[MemEvent], skip_mark: Option<usize>, fails: &mut Fails) -> u64 {
        let mut checks = 0;
        for (i, e) in mem.iter().enumerate() {
            match e.kind {
                "alloc" => self.allocs.push(Alloc { base: e.addr, cap: e.len, init: vec![false; e.len] }),
                "dealloc" => {
                    checks += 1;
                    match self.allocs.iter().position(|a| a.base == e.addr && a.cap == e.len) {
                        Some(p) => {
                            self.allocs.swap_remove(p);
                        }
                        None => fails.push(("shadow_dealloc", format!("dealloc of {} bytes at {}: no such live allocation", e.len, self.describe(e.addr, 0)))),
                    }
                }
                "w" if e.len > 0 => {
                    checks += 1;
                    match self.find(e.addr, e.len) {
                        Some(p) => {
                            if Some(i) != skip_mark {
                                let a = &mut self.allocs[p];
                                let o = e.addr - a.base;
                                for c in &mut a.init[o..o + e.len] {
                                    *c = true;
                                }
                            }
                        }
                        None => fails.push(("shadow_write_oob", format!("raw write outside the allocation: {}", self.describe(e.addr, e.len)))),
                    }
                }
                "r" if e.len > 0 => {
                    checks += 1;
                    match self.find(e.addr, e.len) {
                        Some(p) => {
                            let a = &self.allocs[p];
                            let o = e.addr - a.base;
                            if let Some(k) = a.init[o..o + e.len].iter().position(|b| !*b) {
                                fails.push((
                                    "shadow_read_uninit",
                                    format!("raw read of r{}:{} touches the never-written cell at offset {} (allocation of {} bytes)", o, e.len, o + k, a.cap),
                                ));
                            }
                        }
                        None => fails.push(("shadow_read_oob", format!("raw read outside the allocation: {}", self.describe(e.addr, e.len)))),
                    }
                }
                _ => {}
            }
        }
        checks
    }
}

fn cbo_path(e: &CboEvent) -> usize {
    let m = e.src_len.min(e.dst_len);
    if m >= C && e.copy_at_least <= C {
        1
    } else if m >= e.copy_at_least.next_multiple_of(C) {
        2
    } else {
        3
    }
}

// ---------------------------------------------------------------------------------------------
// requests

enum ROp {
    New,
    Clear,
    Reserve(usize),
    Extend(Vec<u8>),
    Push(u8),
    Fill(u8, usize),
    Efr(usize, Vec<u8>),
    Efw(usize, usize),
    Efwu(usize, usize),
    /// dead code, for completeness: reserve(len) + extend_from_within_unchecked_branchless
    Efwub(usize, usize),
    Drop(usize),
    Get(usize),
    Slices,
}

enum RExtra {
    None,
    Get(Option<u8>),
    Slices(Vec<u8>, Vec<u8>),
    Efr(bool, usize),
}

enum DOp {
    New(usize),
    Reset(usize),
    Dict(Vec<u8>),
    Push(Vec<u8>),
    Fill(u8, usize),
    Efr(usize, Vec<u8>),
    Repeat(usize, usize),
    Can,
    Drain,
    DrainWs,
    DrainW(Vec<SinkResp>),
    DrainWsW(Vec<SinkResp>),
    Read(usize),
    ReadAll(usize),
}

enum DExtra {
    None,
    Efr(bool, usize),
    Repeat(Option<String>),
    Can(Option<usize>, usize),
    Drain(Vec<u8>),
    DrainWs(Option<Vec<u8>>),
    Sink(Vec<u8>, Result<usize, i32>),
    Read(Vec<u8>, Result<usize, i32>),
}

fn parse_rop(op: &str, a: &[&str]) -> Option<ROp> {
    Some(match (op, a) {
        ("new", []) => ROp::New,
        ("clear", []) => ROp::Clear,
        ("reserve", [n]) => ROp::Reserve(num(n)?),
        ("extend", [h]) => ROp::Extend(unhex(h)?),
        ("push", [b]) => ROp::Push(byte(b)?),
        ("fill", [b, n]) => ROp::Fill(byte(b)?, num(n)?),
        ("efr", [n, h]) => ROp::Efr(num(n)?, unhex(h)?),
        ("efw", [s, l]) => ROp::Efw(num(s)?, num(l)?),
        ("efwu", [s, l]) => ROp::Efwu(num(s)?, num(l)?),
        ("efwub", [s, l]) => ROp::Efwub(num(s)?, num(l)?),
        ("drop", [n]) => ROp::Drop(num(n)?),
        ("get", [i]) => ROp::Get(num(i)?),
        ("slices", []) => ROp::Slices,
        _ => return None,
    })
}

fn parse_dop(op: &str, a: &[&str]) -> Option<DOp> {
    Some(match (op, a) {
        ("dnew", [ws]) => DOp::New(num(ws)?),
        ("dreset", [ws]) => DOp::Reset(num(ws)?),
        ("ddict", [h]) => DOp::Dict(unhex(h)?),
        ("dpush", [h]) => DOp::Push(unhex(h)?),
        ("dfill", [b, n]) => DOp::Fill(byte(b)?, num(n)?),
        ("defr", [n, h]) => DOp::Efr(num(n)?, unhex(h)?),
        ("drepeat", [o, m]) => DOp::Repeat(num(o)?, num(m)?),
        ("dcan", []) => DOp::Can,
        ("ddrain", []) => DOp::Drain,
        ("ddrainws", []) => DOp::DrainWs,
        ("ddrainw", [s]) => DOp::DrainW(parse_sink(s)?),
        ("ddrainwsw", [s]) => DOp::DrainWsW(parse_sink(s)?),
        ("dread", [n]) => DOp::Read(num(n)?),
        ("dreadall", [n]) => DOp::ReadAll(num(n)?),
        _ => return None,
    })
}

fn op_key(op: &str) -> &'static str {
    match op {
        "new" => "op_new",
        "clear" => "op_clear",
        "reserve" => "op_reserve",
        "extend" => "op_extend",
        "push" => "op_push",
        "fill" => "op_fill",
        "efr" => "op_efr",
        "efw" => "op_efw",
        "efwu" => "op_efwu",
        "efwub" => "op_efwub_deadcode",
        "drop" => "op_drop",
        "get" => "op_get",
        "slices" => "op_slices",
        "dnew" => "op_dnew",
        "dreset" => "op_dreset",
        "ddict" => "op_ddict",
        "dpush" => "op_dpush",
        "dfill" => "op_dfill",
        "defr" => "op_defr",
        "drepeat" => "op_drepeat",
        "dcan" => "op_dcan",
        "ddrain" => "op_ddrain",
        "ddrainws" => "op_ddrainws",
        "ddrainw" => "op_ddrainw",
        "ddrainwsw" => "op_ddrainwsw",
        "dread" => "op_dread",
        "dreadall" => "op_dreadall",
        _ => "op_other",
    }
}

// ---------------------------------------------------------------------------------------------
// the executor

/// pre/post state of the real ring buffer
#[derive(Clone, Copy, Debug)]
pub struct RSt {
    pub cap: usize,
    pub head: usize,
    pub tail: usize,
    pub len: usize,
    pub free: usize,
}

pub struct Exec {
    rb: RingBuffer,
    rq: VecDeque<u8>,
    rshadow: Shadow,
    rtrack: Track,
    rseq: Vec<String>,

    db: DecodeBuffer,
    dq: VecDeque<u8>,
    dshadow: Shadow,
    dtrack: Track,
    dseq: Vec<String>,
    ddict: Vec<u8>,
    dws: usize,
    dhashed: Vec<u8>,

    stats: BTreeMap<&'static str, u64>,
    /// set by `exec` when the last request is a nice specimen for `samples` (slot 0..4)
    pub note: Option<usize>,
}

impl Exec {
    pub fn new() -> Self {
        Exec {
            rb: RingBuffer::new(),
            rq: VecDeque::new(),
            rshadow: Shadow::default(),
            rtrack: Track::fresh(),
            rseq: vec![],
            db: DecodeBuffer::new(0),
            dq: VecDeque::new(),
            dshadow: Shadow::default(),
            dtrack: Track::fresh(),
            dseq: vec![],
            ddict: vec![],
            dws: 0,
            dhashed: vec![],
            stats: BTreeMap::new(),
            note: None,
        }
    }

    fn bump(&mut self, k: &'static str) {
        *self.stats.entry(k).or_insert(0) += 1;
    }
    fn bump_n(&mut self, k: &'static str, n: u64) {
        if n > 0 {
            *self.stats.entry(k).or_insert(0) += n;
        }
    }

    pub fn flush_stats(&mut self, run: &mut Run) {
        for (k, v) in std::mem::take(&mut self.stats) {
            run.stat(k, v);
        }
    }

    fn reset_ring(&mut self) {
        // dropping the old object frees its block without an event
        self.rb = RingBuffer::new();
        self.rq.clear();
        self.rshadow = Shadow::default();
        self.rtrack = Track::fresh();
    }

    fn reset_db(&mut self, ws: usize) {
        self.db = DecodeBuffer::new(ws);
        self.dq.clear();
        self.dshadow = Shadow::default();
        self.dtrack = Track::fresh();
        self.ddict.clear();
        self.dws = ws;
        self.dhashed.clear();
    }

    // read-only getters for the generators
    pub fn rb_state(&self) -> RSt {
        let (_, cap, head, tail) = self.rb.verif_raw_parts();
        RSt { cap, head, tail, len: self.rb.len(), free: self.rb.free() }
    }
    pub fn db_len(&self) -> usize {
        self.db.len()
    }
    /// capacity of the decode buffer's private ring, as reconstructed from its alloc events
    pub fn db_cap(&self) -> usize {
        self.dtrack.cap
    }
    pub fn dict_len(&self) -> usize {
        self.ddict.len()
    }
    pub fn ws(&self) -> usize {
        self.dws
    }

    fn trace_stats(&mut self, mem: &[MemEvent], cbo: &[CboEvent]) {
        self.bump_n("allocations", mem.iter().filter(|e| e.kind == "alloc").count() as u64);
        self.bump_n("reallocations", mem.iter().filter(|e| e.kind == "dealloc").count() as u64);
        for e in cbo {
            self.bump(match cbo_path(e) {
                1 => "cbo_path1_one_chunk",
                2 => "cbo_path2_chunks",
                _ => "cbo_path3_memcpy",
            });
            if e.copy_at_least == 0 {
                self.bump("cbo_n0");
            }
        }
    }

    /// Execute ONE request line on the real code; returns the canonical answer line.
    pub fn exec(&mut self, line: &str, run: &mut Run) -> String {
        self.note = None;
        let toks: Vec<&str> = line.split(' ').collect();
        if toks.len() < 2 || toks[0] != "ring" {
            return "bad-op".into();
        }
        let op = toks[1];
        if let Some(r) = parse_rop(op, &toks[2..]) {
            self.bump(op_key(op));
            self.exec_rb(r, line, run)
        } else if let Some(d) = parse_dop(op, &toks[2..]) {
            self.bump(op_key(op));
            self.exec_db(d, line, run)
        } else {
            "bad-op".into()
        }
    }

    fn report(run: &mut Run, fails: Fails, seq: &[String]) {
        if fails.is_empty() {
            return;
        }
        let replay = seq.join("\n");
        let fatal = fails.iter().any(|(sig, _)| *sig == "shadow_write_oob");
        for (sig, what) in fails {
            run.fail("C04", sig, what, replay.clone());
        }
        if fatal {
            // The real code has just written outside its allocation: the heap of this process can no
            // longer be trusted.  Save what we have (the failure with its replay) and stop, instead of
            // dying later inside malloc without a replay.
            run.notes.push("stopped at the first out-of-bounds raw write of the real code (heap of the harness process no longer trustworthy)".into());
            if let Some(dir) = OUT_DIR.get() {
                let _ = run.write(dir);
                println!("{} cases={} oracle_checks={} oracle_failures={} (stopped: out-of-bounds write)", run.engine, run.cases.len(), run.oracle_checks, run.oracle_failures.len());
                std::process::exit(0);
            }
        }
    }

    // ----------------------------------------------------------------------------- ring buffer
    fn exec_rb(&mut self, op: ROp, line: &str, run: &mut Run) -> String {
        if matches!(op, ROp::New) {
            self.reset_ring();
            self.rseq.clear();
        }
        self.rseq.push(line.to_string());
        let pre = self.rb_state();

        // which geometric case of extend_from_within_unchecked will run (state after its `reserve`)
        if let ROp::Efwu(s, l) | ROp::Efw(s, l) = &op {
            if s + l <= pre.len {
                let (cap, head, tail) = if *l > pre.free {
                    let amount = l - pre.free;
                    (pre.cap.next_power_of_two().max((pre.cap + amount).next_power_of_two()) + 1, 0, pre.len)
                } else {
                    (pre.cap, pre.head, pre.tail)
                };
                self.bump(if head < tail {
                    "efwu_case1_head_lt_tail"
                } else if head + s > cap {
                    "efwu_case2_src_below_tail"
                } else {
                    "efwu_case3_src_may_wrap"
                });
            }
        }

        let rb = &mut self.rb;
        trace_take();
        trace_enable(true);
        let res = guarded(|| -> RExtra {
            match &op {
                ROp::New => RExtra::None,
                ROp::Clear => {
                    rb.clear();
                    RExtra::None
                }
                ROp::Reserve(n) => {
                    rb.reserve(*n);
                    RExtra::None
                }
                ROp::Extend(d) => {
                    rb.extend(d);
                    RExtra::None
                }
                ROp::Push(b) => {
                    rb.push_back(*b);
                    RExtra::None
                }
                ROp::Fill(b, n) => {
                    rb.extend_and_fill(*b, *n);
                    RExtra::None
                }
                ROp::Efr(n, avail) => {
                    let mut rd = ChunkReader { data: avail.clone(), pos: 0, chunk: 3 };
                    let r = rb.extend_from_reader(&mut rd, *n);
                    RExtra::Efr(r.is_ok(), rd.data.len() - rd.pos)
                }
                ROp::Efw(s, l) => {
                    rb.extend_from_within(*s, *l);
                    RExtra::None
                }
                ROp::Efwu(s, l) => {
                    // as DecodeBuffer::repeat does: reserve, then the unchecked copy.
                    // start + len <= len() is the caller's obligation (the generator guarantees it;
                    // with debug assertions on a violation is caught before any raw access).
                    rb.reserve(*l);
                    unsafe { rb.extend_from_within_unchecked(*s, *l) };
                    RExtra::None
                }
                ROp::Efwub(s, l) => {
                    // #[allow(dead_code)] variant; same obligations as above
                    rb.reserve(*l);
                    unsafe { rb.extend_from_within_unchecked_branchless(*s, *l) };
                    RExtra::None
                }
                ROp::Drop(n) => {
                    rb.drop_first_n(*n);
                    RExtra::None
                }
                ROp::Get(i) => RExtra::Get(rb.get(*i)),
                ROp::Slices => {
                    let (a, b) = rb.as_slices();
                    RExtra::Slices(a.to_vec(), b.to_vec())
                }
            }
        });
        trace_enable(false);
        let (mem, cbo) = trace_take();

        let extra = match res {
            Ok(x) => x,
            Err(msg) => {
                self.bump("faults_ring");
                // oracle 0: a panic is only acceptable where the API documents one (the range of the
                // checked extend_from_within, amount > len of drop_first_n) or on a buffer that holds no
                // data (the `% cap` of a never-allocated buffer); everywhere else the queue says the
                // operation is legal, so a panic of the real code is a failure of the property.
                let qlen = self.rq.len();
                let in_contract = match &op {
                    ROp::Efw(s, l) | ROp::Efwu(s, l) => s + l <= qlen && qlen > 0,
                    // dead code with an over-strict debug_assert (panics when the copy ends exactly at
                    // the end of the allocation): only compared with the model, never an oracle failure
                    ROp::Efwub(..) => false,
                    ROp::Drop(n) => *n <= qlen && qlen > 0,
                    _ => true,
                };
                run.oracle_checks += 1;
                if in_contract {
                    let seq = self.rseq.clone();
                    Self::report(run, vec![("unexpected_panic", format!("the real code panicked on an operation inside its contract ({}): {}", line, msg))], &seq);
                }
                self.reset_ring();
                return format!("fault {}", msg);
            }
        };

        let mut fails: Fails = vec![];

        // ---- oracle 1: VecDeque mirror
        match &op {
            ROp::New | ROp::Reserve(_) | ROp::Get(_) | ROp::Slices => {}
            ROp::Clear => self.rq.clear(),
            ROp::Extend(d) => self.rq.extend(d.iter().copied()),
            ROp::Push(b) => self.rq.push_back(*b),
            ROp::Fill(b, n) => self.rq.extend(std::iter::repeat(*b).take(*n)),
            ROp::Efr(n, avail) => {
                if let RExtra::Efr(true, _) = extra {
                    self.rq.extend(avail[..*n].iter().copied());
                }
            }
            ROp::Efw(s, l) | ROp::Efwu(s, l) | ROp::Efwub(s, l) => {
                let copy: Vec<u8> = (*s..*s + *l).map(|i| self.rq.get(i).copied().unwrap_or(0)).collect();
                self.rq.extend(copy);
            }
            ROp::Drop(n) => {
                for _ in 0..(*n).min(self.rq.len()) {
                    self.rq.pop_front();
                }
            }
        }

        // ---- oracle 2: shadow memory
        let skip = match &op {
            ROp::Efr(n, avail) if *n > 0 && mem.len() >= 2 && avail.len() < mem[mem.len() - 2].len => Some(mem.len() - 1),
            _ => None,
        };
        run.oracle_checks += self.rshadow.apply(&mem, skip, &mut fails);

        // ---- canonical trace
        let mut problems = vec![];
        let (mtrace, ctrace) = self.rtrack.canon(&mem, &cbo, &mut problems);
        let (base, cap, head, tail) = self.rb.verif_raw_parts();
        if base != self.rtrack.base || cap != self.rtrack.cap {
            problems.push(format!("tracked block ({:#x},{}) but verif_raw_parts says ({:#x},{})", self.rtrack.base, self.rtrack.cap, base, cap));
        }
        run.oracle_checks += 1;
        for p in problems {
            fails.push(("base_tracking", p));
        }

        // ---- state (tracing is off: these reads are the harness's, not the operation's)
        let len = self.rb.len();
        let free = self.rb.free();
        let (s1, s2) = self.rb.as_slices();
        let mut contents = Vec::with_capacity(s1.len() + s2.len());
        contents.extend_from_slice(s1);
        contents.extend_from_slice(s2);

        run.oracle_checks += 2;
        if len != self.rq.len() {
            fails.push(("queue_len", format!("len() = {} but a VecDeque driven by the same operations holds {}", len, self.rq.len())));
        }
        if !contents.iter().copied().eq(self.rq.iter().copied()) {
            let at = contents.iter().copied().zip(self.rq.iter().copied()).position(|(a, b)| a != b);
            fails.push((
                "queue_contents",
                format!("as_slices() differs from a VecDeque driven by the same operations (first difference at {:?}; {} vs {} bytes)", at, contents.len(), self.rq.len()),
            ));
        }
        // the dead-code variant has no hooks: tell the shadow which cells it has appended
        if let ROp::Efwub(_, l) = &op {
            if cap > 0 {
                if let Some(a) = self.rshadow.allocs.iter_mut().find(|a| a.base == base && a.cap == cap) {
                    for i in 0..*l {
                        let p = (tail + cap - (*l % cap) + i) % cap;
                        a.init[p] = true;
                    }
                }
            }
        }
        // invariant 2 of the ring buffer against the shadow: the occupied cells have been written
        if cap > 0 {
            run.oracle_checks += 1;
            match self.rshadow.allocs.iter().find(|a| a.base == base && a.cap == cap) {
                Some(a) => {
                    let bad = if tail >= head {
                        a.init[head..tail].iter().position(|b| !*b).map(|k| head + k)
                    } else {
                        a.init[head..cap].iter().position(|b| !*b).map(|k| head + k).or_else(|| a.init[..tail].iter().position(|b| !*b))
                    };
                    if let Some(k) = bad {
                        fails.push(("shadow_data_uninit", format!("cell {} lies in the occupied region (head {} tail {} cap {}) but was never written", k, head, tail, cap)));
                    }
                }
                None => fails.push(("base_tracking", "the buffer's block is not a live allocation of the shadow".into())),
            }
        }

        let mut ans = format!("ok {} {} {} {} {} {} {} {}", cap, head, tail, len, free, show_bytes(&contents), mtrace, ctrace);
        match (&op, &extra) {
            (ROp::Get(i), RExtra::Get(v)) => {
                run.oracle_checks += 1;
                if *v != self.rq.get(*i).copied() {
                    fails.push(("queue_get", format!("get({}) = {:?}, VecDeque says {:?}", i, v, self.rq.get(*i))));
                }
                match v {
                    Some(b) => ans.push_str(&format!(" val={}", b)),
                    None => ans.push_str(" val=none"),
                }
            }
            (_, RExtra::Slices(a, b)) => {
                ans.push_str(&format!(" s1={} s2={}", show_bytes(a), show_bytes(b)));
            }
            (_, RExtra::Efr(ok, rest)) => {
                ans.push_str(&format!(" res={} rest={}", if *ok { "ok" } else { "err" }, rest));
            }
            _ => {}
        }

        // ---- statistics
        self.trace_stats(&mem, &cbo);
        if tail < head {
            self.bump("ring_wrapped_states");
        }
        if cap > 0 && free == 0 {
            self.bump("ring_full_states");
        }
        if matches!(op, ROp::Efwu(..)) && cbo.len() == 2 && tail < head {
            self.note = Some(0);
        }
        if pre.tail < pre.head && mem.iter().any(|e| e.kind == "dealloc") {
            self.bump("reallocations_of_wrapped_buffer");
            if pre.tail > 0 && pre.cap >= 9 {
                self.note = Some(1);
            }
        }

        let dirty = READER_SAW_DIRTY.swap(0, std::sync::atomic::Ordering::Relaxed);
        run.oracle_checks += 1;
        if dirty > 0 {
            fails.push(("reader_handed_unblanked_memory", format!("extend_from_reader handed the reader a destination slice with {} bytes that were never written / still held old contents", dirty)));
        }
        Self::report(run, fails, &self.rseq);
        ans
    }

    // --------------------------------------------------------------------------- decode buffer
    fn exec_db(&mut self, op: DOp, line: &str, run: &mut Run) -> String {
        if let DOp::New(ws) = op {
            self.reset_db(ws);
            self.dseq.clear();
        }
        self.dseq.push(line.to_string());

        if let DOp::Repeat(0, m) = op {
            if m > 0 {
                // `repeat_in_chunks` with chunk size 0 never terminates: not executed
                self.bump("faults_db");
                self.reset_db(0);
                return "fault hang decode_buffer.rs:repeat_in_chunks (not executed)".into();
            }
        }
        let pre_len = self.db.len();

        let db = &mut self.db;
        trace_take();
        trace_enable(true);
        let res = guarded(|| -> DExtra {
            let io_res = |r: Result<usize, std::io::Error>| r.map_err(|e| e.raw_os_error().unwrap_or(-1));
            match &op {
                DOp::New(_) => DExtra::None,
                DOp::Reset(ws) => {
                    db.reset(*ws);
                    DExtra::None
                }
                DOp::Dict(d) => {
                    db.dict_content = d.clone();
                    DExtra::None
                }
                DOp::Push(d) => {
                    db.push(d);
                    DExtra::None
                }
                DOp::Fill(b, n) => {
                    db.extend_and_fill(*b, *n);
                    DExtra::None
                }
                DOp::Efr(n, avail) => {
                    let mut rd = ChunkReader { data: avail.clone(), pos: 0, chunk: 3 };
                    let r = db.extend_from_reader(&mut rd, *n);
                    DExtra::Efr(r.is_ok(), rd.data.len() - rd.pos)
                }
                DOp::Repeat(o, m) => DExtra::Repeat(match db.repeat(*o, *m) {
                    Ok(()) => None,
                    Err(DecodeBufferError::NotEnoughBytesInDictionary { got, need }) => Some(format!("notenough:{}:{}", got, need)),
                    Err(DecodeBufferError::OffsetTooBig { offset, buf_len }) => Some(format!("toobig:{}:{}", offset, buf_len)),
                    #[allow(unreachable_patterns)]
                    Err(_) => Some("other".into()),
                }),
                DOp::Can => DExtra::Can(db.can_drain_to_window_size(), db.can_drain()),
                DOp::Drain => DExtra::Drain(db.drain()),
                DOp::DrainWs => DExtra::DrainWs(db.drain_to_window_size()),
                DOp::DrainW(script) => {
                    let mut sink = ScriptSink { script: script.iter().copied().collect(), got: vec![] };
                    let r = db.drain_to_writer(&mut sink);
                    DExtra::Sink(sink.got, io_res(r))
                }
                DOp::DrainWsW(script) => {
                    let mut sink = ScriptSink { script: script.iter().copied().collect(), got: vec![] };
                    let r = db.drain_to_window_size_writer(&mut sink);
                    DExtra::Sink(sink.got, io_res(r))
                }
                DOp::Read(n) => {
                    let mut target = vec![0u8; *n];
                    let r = io_res(Read::read(db, &mut target));
                    let k = *r.as_ref().unwrap_or(&0);
                    target.truncate(k.min(*n));
                    DExtra::Read(target, r)
                }
                DOp::ReadAll(n) => {
                    let mut target = vec![0u8; *n];
                    let r = io_res(db.read_all(&mut target));
                    let k = *r.as_ref().unwrap_or(&0);
                    target.truncate(k.min(*n));
                    DExtra::Read(target, r)
                }
            }
        });
        trace_enable(false);
        let (mem, cbo) = trace_take();

        let extra = match res {
            Ok(x) => x,
            Err(msg) => {
                self.bump("faults_db");
                // oracle 0: the only decode-buffer call allowed to panic is `repeat` with offset 0
                // (rejected by execute_sequences before it gets here)
                let in_contract = !matches!(&op, DOp::Repeat(0, _));
                run.oracle_checks += 1;
                if in_contract {
                    let seq = self.dseq.clone();
                    Self::report(run, vec![("unexpected_panic", format!("the real code panicked on an operation inside its contract ({}): {}", line, msg))], &seq);
                }
                self.reset_db(0);
                return format!("fault {}", msg);
            }
        };

        let mut fails: Fails = vec![];
        let len = self.db.len();

        // ---- oracle 1: mirror
        let mut delivered: Option<Vec<u8>> = None;
        let mut extra_s = String::new();
        match (&op, extra) {
            (DOp::New(_), _) => {}
            (DOp::Reset(ws), _) => {
                self.dq.clear();
                self.ddict.clear();
                self.dhashed.clear();
                self.dws = *ws;
                run.oracle_checks += 1;
                if !self.db.dict_content.is_empty() || self.db.window_size != *ws {
                    fails.push(("reset_state", "reset() left dict_content / window_size behind".into()));
                }
            }
            (DOp::Dict(d), _) => self.ddict = d.clone(),
            (DOp::Push(d), _) => self.dq.extend(d.iter().copied()),
            (DOp::Fill(b, n), _) => self.dq.extend(std::iter::repeat(*b).take(*n)),
            (DOp::Efr(n, avail), DExtra::Efr(ok, rest)) => {
                if ok {
                    self.dq.extend(avail[..*n].iter().copied());
                }
                extra_s = format!(" res={} rest={}", if ok { "ok" } else { "err" }, rest);
            }
            (DOp::Repeat(o, m), DExtra::Repeat(r)) => {
                let (o, m) = (*o, *m);
                if o <= self.dq.len() {
                    run.oracle_checks += 1;
                    if r.is_some() {
                        fails.push(("repeat_result", format!("repeat({}, {}) with {} bytes buffered returned an error", o, m, self.dq.len())));
                    } else {
                        for _ in 0..m {
                            let b = self.dq[self.dq.len() - o];
                            self.dq.push_back(b);
                        }
                    }
                } else if r.is_none() {
                    // logically a byte-by-byte copy over dict ++ buffer, source counted from the end
                    let from_dict = o - self.dq.len();
                    run.oracle_checks += 1;
                    if from_dict > self.ddict.len() {
                        fails.push(("repeat_result", format!("repeat({}, {}) reaches {} bytes into a dictionary of {} bytes and returned Ok", o, m, from_dict, self.ddict.len())));
                    } else {
                        let dl = self.ddict.len();
                        for j in 0..m {
                            let idx = dl - from_dict + j;
                            let b = if idx < dl { self.ddict[idx] } else { self.dq[idx - dl] };
                            self.dq.push_back(b);
                        }
                        self.bump("repeat_from_dict_ok");
                        if m > from_dict {
                            self.bump("repeat_from_dict_continued_in_buffer");
                            self.note = Some(2);
                        }
                    }
                } else {
                    self.bump(if r.as_deref().map(|s| s.starts_with("notenough")).unwrap_or(false) { "repeat_err_notenough" } else { "repeat_err_toobig" });
                }
                extra_s = match r {
                    None => " res=ok".into(),
                    Some(e) => format!(" res=err:{}", e),
                };
            }
            (DOp::Can, DExtra::Can(c, n)) => {
                run.oracle_checks += 1;
                let want = if self.dq.len() > self.dws { Some(self.dq.len() - self.dws) } else { None };
                if c != want || n != self.dq.len() {
                    fails.push(("can_drain", format!("can_drain_to_window_size() = {:?}, can_drain() = {} with {} bytes buffered and window {}", c, n, self.dq.len(), self.dws)));
                }
                extra_s = format!(" can_ws={} can={}", c.map(|k| k.to_string()).unwrap_or_else(|| "none".into()), n);
            }
            (DOp::Drain, DExtra::Drain(out)) => {
                extra_s = format!(" out={}", show_bytes(&out));
                delivered = Some(out);
            }
            (DOp::DrainWs, DExtra::DrainWs(out)) => {
                match out {
                    Some(o) => {
                        extra_s = format!(" out={}", show_bytes(&o));
                        delivered = Some(o);
                    }
                    None => {
                        extra_s = " out=none".into();
                        delivered = Some(vec![]);
                    }
                };
            }
            (DOp::DrainW(_) | DOp::DrainWsW(_), DExtra::Sink(got, r)) => {
                run.oracle_checks += 1;
                match r {
                    Ok(n) => {
                        if n != got.len() {
                            fails.push(("drain_count", format!("the writer variant returned Ok({}) but the sink received {} bytes", n, got.len())));
                        }
                        extra_s = format!(" out={} res=ok:{}", show_bytes(&got), n);
                    }
                    Err(k) => {
                        self.note = Some(3);
                        extra_s = format!(" out={} res=err:{}", show_bytes(&got), k);
                    }
                }
                delivered = Some(got);
            }
            (DOp::Read(_) | DOp::ReadAll(_), DExtra::Read(out, r)) => {
                extra_s = format!(
                    " out={} res={}",
                    show_bytes(&out),
                    match r {
                        Ok(n) => format!("ok:{}", n),
                        Err(k) => format!("err:{}", k),
                    }
                );
                delivered = Some(out);
            }
            _ => {}
        }

        if let Some(out) = delivered {
            // the delivered bytes are the front of the queue, in order, and leave it
            run.oracle_checks += 1;
            if out.len() > self.dq.len() || !out.iter().copied().eq(self.dq.iter().copied().take(out.len())) {
                fails.push(("drain_bytes", format!("the {} delivered bytes are not the first bytes of the buffered data ({} bytes)", out.len(), self.dq.len())));
            }
            for _ in 0..out.len().min(self.dq.len()) {
                self.dq.pop_front();
            }
            // ---- oracle 3: the hasher has seen exactly the delivered bytes
            self.dhashed.extend_from_slice(&out);
            run.oracle_checks += 1;
            if self.db.hash.finish() == xxh64(&self.dhashed, 0) {
                extra_s.push_str(&format!(" hashed={}", show_hashed(&self.dhashed)));
            } else {
                fails.push(("hash_of_delivered", format!("the frame hasher's state is not XXH64 of the {} bytes delivered so far", self.dhashed.len())));
                extra_s.push_str(" hashed=MISMATCH");
            }
        }

        run.oracle_checks += 1;
        if len != self.dq.len() {
            fails.push(("queue_len", format!("DecodeBuffer::len() = {} but the mirror holds {} bytes (before the call: {})", len, self.dq.len(), pre_len)));
        }

        // ---- oracle 2: shadow memory
        let skip = match &op {
            DOp::Efr(n, avail) if *n > 0 && mem.len() >= 2 && avail.len() < mem[mem.len() - 2].len => Some(mem.len() - 1),
            _ => None,
        };
        run.oracle_checks += self.dshadow.apply(&mem, skip, &mut fails);

        // ---- canonical trace
        let mut problems = vec![];
        let (mtrace, ctrace) = self.dtrack.canon(&mem, &cbo, &mut problems);
        for p in problems {
            fails.push(("base_tracking", p));
        }

        self.trace_stats(&mem, &cbo);
        if cbo.len() > 2 {
            self.bump("repeat_in_chunks_multi");
        }

        let dirty = READER_SAW_DIRTY.swap(0, std::sync::atomic::Ordering::Relaxed);
        run.oracle_checks += 1;
        if dirty > 0 {
            fails.push(("reader_handed_unblanked_memory", format!("extend_from_reader handed the reader a destination slice with {} bytes that were never written / still held old contents", dirty)));
        }
        Self::report(run, fails, &self.dseq);
        format!("ok {} {} {}{}", len, mtrace, ctrace, extra_s)
    }
}

/// Execute the given request lines on a fresh executor (used by the dispatcher for `--replay`).
pub fn replay(lines: &[String], run: &mut Run) {
    let mut ex = Exec::new();
    for l in lines {
        let l = l.trim();
        if l.is_empty() {
            continue;
        }
        let a = ex.exec(l, run);
        run.case(l.to_string(), a);
    }
    ex.flush_stats(run);
}

// ---------------------------------------------------------------------------------------------
// generators

struct Gen<'a> {
    ex: Exec,
    rng: Rng,
    run: &'a mut Run,
    thorough: bool,
    samples: [Option<String>; 4],
    /// the random ring sequences never let the capacity grow beyond this (per sequence)
    cap_limit: usize,
}

const SMALL_RESERVE: [usize; 12] = [0, 1, 2, 3, 7, 8, 15, 16, 31, 32, 33, 64];

impl Gen<'_> {
    /// run one request; true = the real code panicked (the object has been replaced)
    fn emit(&mut self, line: String) -> bool {
        let a = self.ex.exec(&line, self.run);
        let fault = a.starts_with("fault");
        if let Some(slot) = self.ex.note {
            if self.samples[slot].is_none() && line.len() < 160 && a.len() < 300 {
                self.samples[slot] = Some(format!("{} -> {}", line, a));
            }
        }
        self.run.case(line, a);
        fault
    }

    fn u(&mut self, lo: usize, hi_incl: usize) -> usize {
        self.rng.range(lo as u64, hi_incl as u64) as usize
    }

    /// a length from the list biased by the current geometry
    fn pick_len(&mut self, cap: usize, tail: usize, free: usize, max_operand: usize) -> usize {
        let ct = cap.saturating_sub(tail);
        let k = self.rng.below(if max_operand > 0 { 16 } else { 14 });
        match k {
            0 => 0,
            1 => 1,
            2 => C - 1,
            3 => C,
            4 => C + 1,
            5 => 2 * C,
            6 => 2 * C + 1,
            7 => free,
            8 => free + 1,
            9 => ct,
            10 => ct.saturating_sub(1),
            11 => ct + 1,
            12 => self.u(0, free.min(40)),
            13 => self.u(0, 3 * C),
            _ => self.u(0, max_operand),
        }
    }

    // ------------------------------------------------------------------------------ ring buffer
    fn ring_sequence(&mut self) {
        let r = self.rng.below(1000);
        let huge_p = if self.thorough { 2 } else { 10 };
        let class = if r < huge_p {
            2
        } else if r < huge_p + 50 {
            1
        } else {
            0
        };
        let nops = match class {
            0 => self.u(20, 150),
            1 => self.u(20, 40),
            _ => self.u(5, 14),
        };
        self.cap_limit = match class {
            0 => *self.rng.pick(&[17usize, 33, 33, 65, 65, 129]),
            1 => 8193,
            _ => 131073,
        };
        self.run.stat("sequences_ring", 1);
        self.run.stat(["sequences_ring_small", "sequences_ring_upto5000", "sequences_ring_upto70000"][class], 1);
        if self.emit("ring new".into()) {
            return;
        }
        if self.rng.chance(85, 100) {
            let k = match class {
                0 => *self.rng.pick(&SMALL_RESERVE),
                1 => self.u(0, 5000),
                _ => self.u(30000, 70000),
            };
            if self.emit(format!("ring reserve {}", k)) {
                return;
            }
        }
        let mut refill: Option<usize> = None;
        for _ in 0..nops {
            let line = self.ring_op(class, &mut refill);
            if self.emit(line) {
                return;
            }
        }
    }

    fn ring_op(&mut self, class: usize, refill: &mut Option<usize>) -> String {
        let st = self.ex.rb_state();
        let max_operand = [0usize, 5000, 70000][class];
        let cap_limit = self.cap_limit;
        let mut op = match self.rng.below(100) {
            0..=19 => "extend",
            20..=39 => "drop",
            40..=59 => "efwu",
            60..=67 => "efw",
            68..=73 => "fill",
            74..=79 => "efr",
            80..=83 => "push",
            84..=87 => "reserve",
            88..=91 => "get",
            92..=95 => "slices",
            96..=97 => "clear",
            _ => "extend",
        };
        let mut l = self.pick_len(st.cap, st.tail, st.free, max_operand);
        // drop-then-refill by about the same amount keeps the buffer nearly full and wrapping
        if let Some(n) = refill.take() {
            if self.rng.chance(7, 10) {
                op = *self.rng.pick(&["extend", "efwu", "fill", "efr", "extend"]);
                l = match self.rng.below(5) {
                    0 => n + 1,
                    1 => n.saturating_sub(1),
                    2 => st.free,
                    _ => n,
                };
            }
        }
        if st.cap == 0 && op == "drop" && !self.rng.chance(1, 10) {
            // `% cap` with cap = 0 panics; keep that rare
            op = "extend";
        }
        // a full buffer makes every extending operation a no-op or a reallocation: mostly drop then
        let extending = matches!(op, "extend" | "efwu" | "efw" | "fill" | "efr" | "push" | "reserve");
        if st.cap > 0 && st.free == 0 && extending && self.rng.chance(6, 10) {
            op = "drop";
        }
        // bound growth so that capacities stay small within a class
        if l > st.free {
            let amount = l - st.free;
            let new_cap = st.cap.next_power_of_two().max((st.cap + amount).next_power_of_two()) + 1;
            if new_cap > cap_limit {
                l = st.free;
                if l == 0 && st.len > 0 && extending && self.rng.chance(7, 10) {
                    op = "drop";
                }
            }
        }
        if class > 0 && l > 512 && (op == "extend" || op == "efr") && self.rng.chance(8, 10) {
            op = "fill"; // same geometry without a long hex operand
        }
        match op {
            "extend" => {
                let b = self.rng.bytes(l);
                format!("ring extend {}", hex(&b))
            }
            "push" => format!("ring push {}", self.rng.below(256)),
            "fill" => format!("ring fill {} {}", self.rng.below(256), l),
            "reserve" => format!("ring reserve {}", l),
            "clear" => "ring clear".into(),
            "slices" => "ring slices".into(),
            "get" => {
                let w = st.cap - st.head;
                let i = match self.rng.below(7) {
                    0 => 0,
                    1 => st.len.saturating_sub(1),
                    2 => st.len,
                    3 => st.len + 1,
                    4 => w.saturating_sub(1),
                    5 => w,
                    _ => self.u(0, st.len),
                };
                format!("ring get {}", i)
            }
            "drop" => {
                let n = if self.rng.chance(2, 100) {
                    st.len + 1 // debug_assert -> fault
                } else {
                    match self.rng.below(5) {
                        0 => 0,
                        1 => 1.min(st.len),
                        2 => st.len,
                        3 => st.len.saturating_sub(1),
                        _ => self.u(0, st.len),
                    }
                };
                if n > 0 && n <= st.len {
                    *refill = Some(n);
                }
                format!("ring drop {}", n)
            }
            "efr" => {
                let fill1 = l.min(st.cap.saturating_sub(st.tail)).max(1);
                let have = match self.rng.below(10) {
                    0..=3 => l,
                    4..=5 => l + 3,
                    6 => 0,
                    7 => (fill1 + self.u(0, 2)).saturating_sub(1).min(l.saturating_sub(1)),
                    _ => self.u(0, l.saturating_sub(1)),
                };
                let b = self.rng.bytes(have);
                format!("ring efr {} {}", l, hex(&b))
            }
            "efw" | "efwu" => {
                let l = l.min(st.len);
                if op == "efw" && self.rng.chance(3, 100) {
                    // violate start + len <= len(): the checked variant must panic
                    let (s, l) = match self.rng.below(3) {
                        0 => (st.len - l + 1, l),
                        1 => (0, st.len + 1),
                        _ => (st.len + 1, 0),
                    };
                    return format!("ring efw {} {}", s, l);
                }
                let s = self.pick_start(&st, l);
                debug_assert!(s + l <= st.len);
                // the dead-code variant rides along on a fraction of the unchecked copies
                let op = if op == "efwu" && self.rng.chance(1, 12) { "efwub" } else { op };
                format!("ring {} {} {}", op, s, l)
            }
            _ => unreachable!(),
        }
    }

    /// a start index for a copy of `l ≤ len` bytes: the extremes, around the physical wrap point, uniform
    fn pick_start(&mut self, st: &RSt, l: usize) -> usize {
        let maxs = st.len - l;
        let w = (st.cap - st.head) as i64;
        match self.rng.below(4) {
            0 => 0,
            1 => maxs,
            2 => {
                let mut c: Vec<usize> = vec![];
                for d in [-1i64, 0, 1] {
                    for b in [w, w - l as i64] {
                        let v = b + d;
                        if v >= 0 && v as usize <= maxs {
                            c.push(v as usize);
                        }
                    }
                }
                if c.is_empty() {
                    self.u(0, maxs)
                } else {
                    *self.rng.pick(&c)
                }
            }
            _ => self.u(0, maxs),
        }
    }

    // ---------------------------------------------------------------------------- decode buffer
    fn db_sequence(&mut self) {
        const WS: [usize; 9] = [0, 1, 5, 16, 17, 32, 64, 100, 1000];
        self.run.stat("sequences_db", 1);
        let ws = *self.rng.pick(&WS);
        if self.emit(format!("ring dnew {}", ws)) {
            return;
        }
        if self.rng.chance(30, 100) {
            let ws2 = *self.rng.pick(&WS);
            if self.emit(format!("ring dreset {}", ws2)) {
                return;
            }
        }
        if self.rng.chance(40, 100) {
            let n = self.u(1, 40);
            let d = self.rng.bytes(n);
            if self.emit(format!("ring ddict {}", hex(&d))) {
                return;
            }
        }
        if self.ex.db_cap() == 0 && self.rng.chance(1, 50) {
            // efwu(0, 0) on a buffer without allocation: `% self.cap` with cap = 0
            if self.emit("ring drepeat 0 0".into()) {
                return;
            }
        }
        let large = self.rng.chance(3, 100);
        let nops = self.u(20, 150);
        for _ in 0..nops {
            let line = self.db_op(large);
            if self.emit(line) {
                return;
            }
        }
    }

    fn sink_script(&mut self, len: usize) -> String {
        match self.rng.below(10) {
            0 | 1 => "-".into(),
            2 => "t1".into(),
            3 => format!("t{}", len / 2),
            4 => "t3,t0".into(),
            5 => "t5,e7".into(),
            6 => "e3".into(),
            7 => "t1,t1,t1,t1000".into(),
            _ => {
                let n = self.u(1, 5);
                let v: Vec<String> = (0..n)
                    .map(|_| {
                        if self.rng.chance(1, 5) {
                            format!("e{}", self.u(1, 30))
                        } else if self.rng.chance(1, 6) {
                            "t1000".to_string()
                        } else {
                            format!("t{}", self.u(0, 20))
                        }
                    })
                    .collect();
                v.join(",")
            }
        }
    }

    fn db_op(&mut self, large: bool) -> String {
        let len = self.ex.db_len();
        let cap = self.ex.db_cap();
        let ws = self.ex.ws();
        let dict = self.ex.dict_len();
        let free = if cap > 0 { cap - 1 - len } else { 0 };
        let max_len = if large { 600 } else { 200 };
        let mut k = self.rng.below(100);
        if len > 3 * max_len {
            k = 52 + self.rng.below(30); // some drain
        }
        // biased operand length for the extending operations
        let mut l = match self.rng.below(13) {
            0 => 0,
            1 => 1,
            2 => C - 1,
            3 => C,
            4 => C + 1,
            5 => 2 * C,
            6 => 2 * C + 1,
            7 => free,
            8 => free + 1,
            9 => ws.saturating_sub(len),
            10 => (ws + 1).saturating_sub(len),
            11 => self.u(0, free.min(40)),
            _ => self.u(0, 3 * C),
        };
        if l > max_len {
            l = self.u(0, max_len);
        }
        match k {
            0..=21 => {
                let b = self.rng.bytes(l);
                format!("ring dpush {}", hex(&b))
            }
            22..=51 => {
                if self.rng.chance(1, 300) {
                    return "ring drepeat 0 0".into();
                }
                let beyond = self.rng.chance(15, 100);
                if !beyond && len == 0 {
                    let b = self.rng.bytes(l.max(1));
                    return format!("ring dpush {}", hex(&b));
                }
                // `o` = the distance that plays the role of "offset" in the match-length list
                let (offset, o) = if beyond {
                    let kk = self.u(1, dict + 2);
                    (len + kk, kk)
                } else {
                    let o = match self.rng.below(9) {
                        0 => 1,
                        1 => 2,
                        2 => 3,
                        3 => C - 1,
                        4 => C,
                        5 => C + 1,
                        6 => len,
                        7 => len.saturating_sub(1),
                        _ => self.u(1, len),
                    }
                    .clamp(1, len);
                    (o, o)
                };
                let mut ml = match self.rng.below(12) {
                    0 => 1,
                    1 => 2,
                    2 => o - 1,
                    3 => o,
                    4 => o + 1,
                    5 => 2 * o,
                    6 => 3 * o + 1,
                    7 => C - 1,
                    8 => C,
                    9 => C + 1,
                    10 => 2 * C,
                    _ => self.u(1, 50),
                };
                if ml > max_len + 100 {
                    ml = self.u(1, max_len + 100);
                }
                debug_assert!(offset >= 1);
                format!("ring drepeat {} {}", offset, ml)
            }
            52..=59 => "ring ddrainws".into(),
            60..=67 => format!("ring ddrainwsw {}", self.sink_script(len.saturating_sub(ws))),
            68..=75 => {
                let n = match self.rng.below(6) {
                    0 => 0,
                    1 => 1,
                    2 => 7,
                    3 => len,
                    4 => 1_000_000,
                    _ => self.u(0, len + 2),
                };
                format!("ring dread {}", n)
            }
            76..=77 => "ring ddrain".into(),
            78..=81 => format!("ring ddrainw {}", self.sink_script(len)),
            82..=84 => {
                let n = match self.rng.below(6) {
                    0 => 0,
                    1 => 1,
                    2 => 7,
                    3 => len,
                    4 => 1_000_000,
                    _ => self.u(0, len + 2),
                };
                format!("ring dreadall {}", n)
            }
            85..=87 => "ring dcan".into(),
            88..=91 => format!("ring dfill {} {}", self.rng.below(256), l),
            92..=96 => {
                let have = match self.rng.below(10) {
                    0..=3 => l,
                    4..=5 => l + 3,
                    6 => 0,
                    _ => self.u(0, l.saturating_sub(1)),
                };
                let b = self.rng.bytes(have);
                format!("ring defr {} {}", l, hex(&b))
            }
            97 => {
                let n = self.u(0, 40);
                let d = self.rng.bytes(n);
                format!("ring ddict {}", hex(&d))
            }
            98 => format!("ring dreset {}", *self.rng.pick(&[0usize, 1, 5, 16, 17, 32, 64, 100, 1000])),
            _ => "ring dcan".into(),
        }
    }

    // -------------------------------------------------- sweep of extend_from_within_unchecked
    /// one self-contained sequence: geometry (cap, head, len), then `efwu start n`
    fn sweep_case(&mut self, cap: usize, head: usize, len: usize, start: usize, n: usize) {
        debug_assert!(start + n <= len && len <= cap - 1 && head < cap);
        self.run.stat("sweep_cases", 1);
        let mut lines = vec!["ring new".to_string(), format!("ring reserve {}", cap - 1)];
        if head > 0 {
            let pre: Vec<u8> = (0..head).map(|i| 0xa0u8.wrapping_add(i as u8)).collect();
            lines.push(format!("ring extend {}", hex(&pre)));
            lines.push(format!("ring drop {}", head));
        }
        let data: Vec<u8> = (0..len).map(|i| (i * 7 + 1) as u8).collect();
        lines.push(format!("ring extend {}", hex(&data)));
        let dead = (cap + head * 3 + len * 5 + start * 7 + n * 11) % 16 == 0;
        lines.push(format!("ring {} {} {}", if dead { "efwub" } else { "efwu" }, start, n));
        for l in lines {
            if self.emit(l) {
                self.run.stat("sweep_faults", 1);
                return;
            }
        }
    }

    fn sweep_exhaustive(&mut self, cap: usize) {
        for head in 0..cap {
            for len in 0..cap {
                let free = cap - 1 - len;
                for n in 0..=len.min(free) {
                    for start in 0..=(len - n) {
                        self.sweep_case(cap, head, len, start, n);
                    }
                }
                // a few that make `reserve` grow (and linearise) first
                if len > free {
                    let n = free + 1;
                    self.sweep_case(cap, head, len, 0, n);
                    if len - n > 0 {
                        self.sweep_case(cap, head, len, len - n, n);
                    }
                    if len > n {
                        self.sweep_case(cap, head, len, 0, len);
                    }
                }
            }
        }
    }

    fn sweep_sampled(&mut self, cap: usize, samples: usize) {
        for _ in 0..samples {
            let head = match self.rng.below(6) {
                0 => 0,
                1 => cap - 1,
                _ => self.u(0, cap - 1),
            };
            let len = match self.rng.below(5) {
                0 => self.u((cap - 1) / 2, cap - 1),
                1 => self.u(cap.saturating_sub(2 * C + 2), cap - 1),
                _ => self.u(0, cap - 1),
            };
            let free = cap - 1 - len;
            let most = len.min(free);
            let n = if len > free && self.rng.chance(3, 100) {
                self.u(free + 1, len) // reserve grows
            } else {
                match self.rng.below(8) {
                    0 => C - 1,
                    1 => C,
                    2 => C + 1,
                    3 => 2 * C,
                    4 | 5 => most,
                    _ => self.u(0, most),
                }
                .min(most)
            };
            let start = match self.rng.below(4) {
                0 => 0,
                1 => len - n,
                _ => self.u(0, len - n),
            };
            self.sweep_case(cap, head, len, start, n);
        }
    }
}

/// output directory of the current run (for the emergency write in `Exec::report`)
static OUT_DIR: std::sync::OnceLock<String> = std::sync::OnceLock::new();

pub fn run(opts: &Opts) -> Run {
    crate::alloc_count::POISON.store(true, std::sync::atomic::Ordering::Relaxed);
    let _ = OUT_DIR.set(opts.out.clone());
    let mut run = Run::new("ring");
    let thorough = opts.thorough;
    {
        let mut g = Gen { ex: Exec::new(), rng: Rng::new(opts.seed), run: &mut run, thorough, samples: [None, None, None, None], cap_limit: 129 };

        // ---- corpus first: corpus/ring/*.case (unit-test traces of the repo, witnesses of past
        // disagreements and of the mutations tried when the check was built, out-of-contract calls)
        let before = g.run.cases.len();
        let mut files: Vec<std::path::PathBuf> = std::fs::read_dir("corpus/ring")
            .map(|d| d.filter_map(|e| e.ok().map(|e| e.path())).filter(|p| p.extension().map(|x| x == "case").unwrap_or(false)).collect())
            .unwrap_or_default();
        files.sort();
        let n_files = files.len() as u64;
        for f in files {
            if let Ok(text) = std::fs::read_to_string(&f) {
                for l in text.lines() {
                    let l = l.trim();
                    if l.is_empty() || l.starts_with('#') || !l.starts_with("ring ") {
                        continue;
                    }
                    g.emit(l.to_string());
                }
            }
        }
        let n = (g.run.cases.len() - before) as u64;
        g.run.stat("lines_corpus", n);
        g.run.stat("corpus_files", n_files);

        // ---- sweep of the historically buggy copy
        let before = g.run.cases.len();
        if thorough {
            for cap in [2usize, 3, 5, 9, 17, 33] {
                g.sweep_exhaustive(cap);
            }
            g.sweep_sampled(65, 150_000);
            g.sweep_sampled(129, 150_000);
        } else {
            for cap in [2usize, 3, 5, 9] {
                g.sweep_exhaustive(cap);
            }
            for cap in [17usize, 33, 65] {
                g.sweep_sampled(cap, 2000);
            }
        }
        let n = (g.run.cases.len() - before) as u64;
        g.run.stat("lines_sweep", n);

        // ---- random ring-buffer sequences
        let target = if thorough { 2_000_000 } else { 40_000 };
        let before = g.run.cases.len();
        while g.run.cases.len() - before < target {
            g.ring_sequence();
        }
        let n = (g.run.cases.len() - before) as u64;
        g.run.stat("lines_ring", n);

        // ---- random decode-buffer sequences
        let target = if thorough { 1_000_000 } else { 20_000 };
        let before = g.run.cases.len();
        while g.run.cases.len() - before < target {
            g.db_sequence();
        }
        let n = (g.run.cases.len() - before) as u64;
        g.run.stat("lines_db", n);

        let Gen { mut ex, run, samples, .. } = g;
        ex.flush_stats(run);
        run.notes.push("chunk size C = 16 (u128 copies); `drepeat 0 <ml>0>` is never generated and never executed: repeat_in_chunks does not terminate".into());
        run.notes.push("after a `fault` answer the real object is replaced and the generator restarts with `new` / `dnew` (the model keeps its old state until then)".into());
        run.samples = samples.into_iter().flatten().collect();
    }
    run
}
