//! Engine `matcher` (C17): the REAL built-in `MatchGeneratorDriver`, constructed through the hook
//! `MatchGeneratorDriver::verif_new(slice_size, max_slices)` and driven only through the public
//! `Matcher` trait.  Every operation is one request line for the Lean model (stateful, one driver
//! object at a time).  Independently of the model, an oracle re-checks on the code's own output what
//! C17 says: the reported sequences tile the block, every match is true at its distance in the
//! concatenation of the committed blocks, distance <= advertised window, distance <= bytes still
//! retained (shadow of the eviction rule kept by the harness), distance >= 1, match_len >= 5.
//!
//! Lines (`-` = empty byte string):
//!   matcher new <slice> <slices>      -> ok
//!   matcher next                      -> ok <len> <fnv64>            (get_next_space)
//!   matcher commit <hex> <cap>        -> ok <verif_stats> | fault    (commit_space of a Vec with that content and capacity)
//!   matcher start                     -> ok <n> <seq>;<seq>…  | fault (seq = T:<lits>:<offset>:<match_len> | L:<lits>)
//!   matcher skip                      -> ok | fault
//!   matcher reset                     -> ok <verif_stats>
//!   matcher last                      -> ok <len> <fnv64> | fault     (get_last_space)
//!   matcher wsize                     -> ok <n>
//!   matcher stats                     -> ok <window_size> <max_window_size> <entries> <vec_pool> <suffix_pool>
use crate::util::*;
use ruzstd::encoding::{CompressionLevel, MatchGeneratorDriver, Matcher, Sequence};
use std::collections::VecDeque;

const MIN_MATCH_LEN: usize = 5;

#[derive(Clone, Debug, PartialEq, Eq)]
enum OSeq {
    T(Vec<u8>, usize, usize),
    L(Vec<u8>),
}

fn fnv(b: &[u8]) -> u64 {
    let mut h: u64 = 0xcbf29ce484222325;
    for &x in b {
        h ^= x as u64;
        h = h.wrapping_mul(0x100000001b3);
    }
    h
}

fn show_bytes(b: &[u8]) -> String {
    format!("{} {}", b.len(), fnv(b))
}

fn show_stats(s: (usize, usize, usize, usize, usize)) -> String {
    format!("{} {} {} {} {}", s.0, s.1, s.2, s.3, s.4)
}

/// The real hash, re-implemented ONLY to aim the collision generator (nothing is checked with it).
fn aim_key(k: &[u8], len_log: u32) -> usize {
    const POLY: u64 = 0xCF3BCCDCAB;
    let mut idx = 0u64;
    for (i, sh) in [24u32, 32, 40, 48, 56].iter().enumerate() {
        idx ^= ((k[i] as u64) << sh).wrapping_mul(POLY);
    }
    (idx >> (64 - len_log)) as usize
}

/// One driver object + the harness' own bookkeeping (the oracle side).
struct Session {
    m: Option<MatchGeneratorDriver>,
    held: Option<Vec<u8>>,
    /// everything committed since the last reset (what a decoder of the frame would have produced)
    frame: Vec<u8>,
    /// lengths of the blocks the matcher may still refer to (shadow of the eviction rule)
    retained: VecDeque<usize>,
    /// lengths of all blocks committed since the last reset
    block_lens: Vec<usize>,
    last_block_len: Option<usize>,
    /// the last committed block has been neither matched nor skipped yet
    pending: bool,
    /// request lines of the current scenario (replay text)
    lines: Vec<String>,
    dead: bool,
    slice: usize,
    slices: usize,
}

impl Session {
    fn new() -> Self {
        Session { m: None, held: None, frame: vec![], retained: VecDeque::new(), block_lens: vec![], last_block_len: None, pending: false, lines: vec![], dead: true, slice: 0, slices: 0 }
    }
    fn replay(&self) -> String {
        self.lines.join("\n")
    }
    fn push(&mut self, run: &mut Run, line: String, ans: String) {
        self.lines.push(line.clone());
        if ans.starts_with("fault") {
            self.dead = true;
            run.stat("faults", 1);
        }
        run.case(line, ans);
    }
    fn op_new(&mut self, run: &mut Run, slice: usize, slices: usize) {
        self.lines.clear();
        self.m = Some(MatchGeneratorDriver::verif_new(slice, slices));
        self.held = None;
        self.frame.clear();
        self.retained.clear();
        self.block_lens.clear();
        self.last_block_len = None;
        self.pending = false;
        self.dead = false;
        self.slice = slice;
        self.slices = slices;
        self.push(run, format!("matcher new {} {}", slice, slices), "ok".into());
        run.stat("scenarios", 1);
    }
    /// get_next_space; returns the length of the space now held
    fn op_next(&mut self, run: &mut Run) -> usize {
        if self.dead {
            return 0;
        }
        let m = self.m.as_mut().unwrap();
        match guarded(|| m.get_next_space()) {
            Ok(v) => {
                let ans = format!("ok {}", show_bytes(&v));
                let n = v.len();
                self.held = Some(v);
                self.push(run, "matcher next".into(), ans);
                n
            }
            Err(_) => {
                self.push(run, "matcher next".into(), "fault".into());
                0
            }
        }
    }
    /// commit_space.  If a space is held and `data` fits it is reused (truncated, like
    /// `FrameCompressor::compress` does); otherwise a foreign `Vec` with capacity `foreign_cap` is used.
    fn op_commit(&mut self, run: &mut Run, data: &[u8], foreign_cap: Option<usize>) {
        if self.dead {
            return;
        }
        let mut v = match (self.held.take(), foreign_cap) {
            (Some(mut h), None) if data.len() <= h.len() => {
                h.resize(data.len(), 0);
                h.copy_from_slice(data);
                h
            }
            (_, c) => {
                let mut f = Vec::with_capacity(c.unwrap_or(data.len()).max(data.len()));
                f.extend_from_slice(data);
                run.stat("foreign_commits", 1);
                f
            }
        };
        if v.capacity() < v.len() {
            v.shrink_to_fit();
        }
        let cap = v.capacity();
        let line = format!("matcher commit {} {}", hex(data), cap);
        let m = self.m.as_mut().unwrap();
        let adv = m.window_size() as usize;
        match guarded(|| {
            m.commit_space(v);
            m.verif_stats()
        }) {
            Ok(st) => {
                self.frame.extend_from_slice(data);
                self.block_lens.push(data.len());
                // What is retained is taken from the code's own accounting (entries, window_size) after
                // checking that it is consistent: the window must consist of the `entries` most recent
                // committed blocks, contain the new block, and not exceed the advertised window.  (The
                // eviction POLICY is not part of C17; it is compared with the model, not judged here.)
                self.retained.clear();
                let k = st.2.min(self.block_lens.len());
                for &l in &self.block_lens[self.block_lens.len() - k..] {
                    self.retained.push_back(l);
                }
                self.last_block_len = Some(data.len());
                self.pending = true;
                self.push(run, line, format!("ok {}", show_stats(st)));
                run.oracle_checks += 3;
                let tot: usize = self.retained.iter().sum();
                if st.0 != tot || st.2 != k || st.2 == 0 {
                    run.fail("C17", "retained_accounting", format!("after commit: window_size {} with {} entries, but the last {} committed blocks have {} bytes", st.0, st.2, k, tot), self.replay());
                }
                if st.0 > adv {
                    run.fail("C17", "window_size_gt_advertised", format!("window_size {} exceeds advertised window {}", st.0, adv), self.replay());
                }
                // documented intent (not a C17 violation, reported as a statistic): evict only when needed
                if self.block_lens.len() > k && tot + self.block_lens[self.block_lens.len() - k - 1] <= adv {
                    run.stat("evicted_more_than_needed", 1);
                }
            }
            Err(e) => {
                self.push(run, line, "fault".into());
                // the two assertions of add_data/reserve are the documented protocol; a panic although
                // the previous block was matched/skipped and the space fits the window is a violation
                run.oracle_checks += 1;
                if !self.pending && data.len() <= adv {
                    run.fail("C17", "commit_panics_under_protocol", format!("commit_space panicked under the documented call order: {}", e), self.replay());
                }
            }
        }
        run.stat("commits", 1);
    }
    fn op_skip(&mut self, run: &mut Run) {
        if self.dead {
            return;
        }
        let m = self.m.as_mut().unwrap();
        let ans = match guarded(|| m.skip_matching()) {
            Ok(()) => "ok".to_string(),
            Err(e) => {
                if self.last_block_len.is_some() {
                    run.oracle_checks += 1;
                    self.lines.push("matcher skip".into());
                    run.fail("C17", "skip_matching_panics", format!("skip_matching panicked on a committed block: {}", e), self.replay());
                    self.lines.pop();
                }
                "fault".into()
            }
        };
        self.pending = false;
        self.push(run, "matcher skip".into(), ans);
        run.stat("skips", 1);
    }
    fn op_reset(&mut self, run: &mut Run) {
        if self.dead {
            return;
        }
        let m = self.m.as_mut().unwrap();
        let ans = match guarded(|| {
            m.reset(CompressionLevel::Fastest);
            m.verif_stats()
        }) {
            Ok(st) => {
                run.oracle_checks += 1;
                if st.0 != 0 || st.2 != 0 {
                    run.fail("C17", "reset_not_empty", format!("after reset: window_size {} entries {}", st.0, st.2), self.replay());
                }
                format!("ok {}", show_stats(st))
            }
            Err(_) => "fault".into(),
        };
        self.frame.clear();
        self.retained.clear();
        self.block_lens.clear();
        self.last_block_len = None;
        self.pending = false;
        self.held = None;
        self.push(run, "matcher reset".into(), ans);
        run.stat("resets", 1);
    }
    fn op_last(&mut self, run: &mut Run) {
        if self.dead {
            return;
        }
        let m = self.m.as_mut().unwrap();
        let r = guarded(|| m.get_last_space().to_vec());
        let ans = match &r {
            Ok(v) => format!("ok {}", show_bytes(v)),
            Err(_) => "fault".into(),
        };
        self.push(run, "matcher last".into(), ans);
        if let (Ok(v), Some(n)) = (&r, self.last_block_len) {
            run.oracle_checks += 1;
            if v.as_slice() != &self.frame[self.frame.len() - n..] {
                run.fail("C17", "last_space_differs", "get_last_space is not the last committed block".into(), self.replay());
            }
        }
    }
    fn op_wsize(&mut self, run: &mut Run) {
        if self.dead {
            return;
        }
        let m = self.m.as_ref().unwrap();
        let w = m.window_size();
        self.push(run, "matcher wsize".into(), format!("ok {}", w));
        run.oracle_checks += 1;
        if w as usize != self.slice * self.slices {
            run.fail("C17", "advertised_window", format!("window_size() = {} for {} x {}", w, self.slice, self.slices), self.replay());
        }
    }
    fn op_stats(&mut self, run: &mut Run) {
        if self.dead {
            return;
        }
        let st = self.m.as_ref().unwrap().verif_stats();
        self.push(run, "matcher stats".into(), format!("ok {}", show_stats(st)));
    }
    /// start_matching + the oracle
    fn op_start(&mut self, run: &mut Run) {
        if self.dead {
            return;
        }
        let m = self.m.as_mut().unwrap();
        let adv = m.window_size() as usize;
        let r = guarded(|| {
            let mut seqs: Vec<OSeq> = vec![];
            m.start_matching(|s| match s {
                Sequence::Triple { literals, offset, match_len } => seqs.push(OSeq::T(literals.to_vec(), offset, match_len)),
                Sequence::Literals { literals } => seqs.push(OSeq::L(literals.to_vec())),
            });
            seqs
        });
        run.stat("starts", 1);
        let seqs = match r {
            Err(e) => {
                self.push(run, "matcher start".into(), "fault".into());
                // a panic on a committed, not yet matched block under the documented call order is a violation
                if self.pending {
                    run.oracle_checks += 1;
                    run.fail("C17", "start_matching_panics", format!("start_matching panicked: {}", e), self.replay());
                }
                return;
            }
            Ok(s) => s,
        };
        let txt: Vec<String> = seqs
            .iter()
            .map(|s| match s {
                OSeq::T(l, o, ml) => format!("T:{}:{}:{}", hex(l), o, ml),
                OSeq::L(l) => format!("L:{}", hex(l)),
            })
            .collect();
        self.push(run, "matcher start".into(), format!("ok {} {}", seqs.len(), txt.join(";")));
        run.stat("sequences", seqs.len() as u64);
        if !self.pending {
            // nothing committed since the last start/skip: nothing may be reported
            run.oracle_checks += 1;
            if !seqs.is_empty() {
                run.fail("C17", "sequences_without_block", format!("{} sequences reported although the last block was already consumed", seqs.len()), self.replay());
            }
            return;
        }
        let Some(n) = self.last_block_len else { return };
        // ---------------- oracle: what C17 says, on the code's own output
        let base = self.frame.len() - n;
        let retained_before: usize = self.retained.iter().sum::<usize>() - n;
        let block = &self.frame[base..];
        let mut pos = 0usize;
        let mut bad: Option<(&'static str, String)> = None;
        let mut seen_final = false;
        for (i, s) in seqs.iter().enumerate() {
            run.oracle_checks += 1;
            if seen_final {
                bad = Some(("sequence_after_literals", format!("sequence {} follows a Literals sequence", i)));
                break;
            }
            let (l, t) = match s {
                OSeq::T(l, o, ml) => (l, Some((*o, *ml))),
                OSeq::L(l) => {
                    seen_final = true;
                    (l, None)
                }
            };
            if pos + l.len() > n || &block[pos..pos + l.len()] != l.as_slice() {
                bad = Some(("tiling_literals", format!("sequence {}: literals are not the block bytes at {}", i, pos)));
                break;
            }
            pos += l.len();
            if let Some((o, ml)) = t {
                run.stat("matches", 1);
                if o > pos {
                    run.stat("matches_into_previous_block", 1);
                }
                if ml < MIN_MATCH_LEN {
                    bad = Some(("match_len_lt_min", format!("sequence {}: match_len {} < {}", i, ml, MIN_MATCH_LEN)));
                    break;
                }
                if o == 0 {
                    bad = Some(("offset_zero", format!("sequence {}: offset 0", i)));
                    break;
                }
                if o > adv {
                    bad = Some(("offset_gt_window", format!("sequence {}: offset {} > advertised window {}", i, o, adv)));
                    break;
                }
                if o > retained_before + pos {
                    bad = Some(("offset_gt_retained", format!("sequence {}: offset {} > {} bytes retained before position {}", i, o, retained_before + pos, pos)));
                    break;
                }
                if pos + ml > n {
                    bad = Some(("tiling_overrun", format!("sequence {}: match of {} at {} runs past the block ({})", i, ml, pos, n)));
                    break;
                }
                let p = base + pos;
                if (0..ml).any(|k| self.frame[p + k - o] != self.frame[p + k]) {
                    bad = Some(("untrue_match", format!("sequence {}: bytes at distance {} before position {} differ within {} bytes", i, o, pos, ml)));
                    break;
                }
                pos += ml;
            }
        }
        if bad.is_none() && pos != n {
            bad = Some(("tiling_short", format!("sequences cover {} of {} bytes", pos, n)));
        }
        if let Some((sig, what)) = bad {
            run.fail("C17", sig, what, self.replay());
        }
        // the block has been consumed: a second start_matching must report nothing (no double emission)
        self.pending = false;
    }

    /// interpret one request line (replay files, corpus)
    fn exec_line(&mut self, run: &mut Run, line: &str) -> bool {
        let t: Vec<&str> = line.split_whitespace().collect();
        if t.len() < 2 || t[0] != "matcher" {
            return false;
        }
        match (t[1], &t[2..]) {
            ("new", [a, b]) => match (a.parse(), b.parse()) {
                (Ok(a), Ok(b)) => self.op_new(run, a, b),
                _ => return false,
            },
            ("next", []) => {
                self.op_next(run);
            }
            ("commit", [h, c]) => match (unhex(h), c.parse::<usize>()) {
                (Some(d), Ok(c)) => {
                    let reuse = self.held.as_ref().map(|v| v.capacity() == c && d.len() <= v.len()).unwrap_or(false);
                    self.op_commit(run, &d, if reuse { None } else { Some(c) })
                }
                _ => return false,
            },
            ("start", []) => self.op_start(run),
            ("skip", []) => self.op_skip(run),
            ("reset", []) => self.op_reset(run),
            ("last", []) => self.op_last(run),
            ("wsize", []) => self.op_wsize(run),
            ("stats", []) => self.op_stats(run),
            _ => return false,
        }
        true
    }
}

pub fn replay_lines(run: &mut Run, lines: &[String]) {
    let mut s = Session::new();
    for l in lines {
        if l.starts_with("matcher new") || !s.dead {
            s.exec_line(run, l);
        }
    }
}

// ------------------------------------------------------------------------------------------ generators

/// block content generators aimed at the data-dependent branches
fn gen_block(rng: &mut Rng, n: usize, frame: &[u8]) -> Vec<u8> {
    let mut v = Vec::with_capacity(n);
    let style = rng.below(8);
    let alpha = *rng.pick(&[1u64, 2, 2, 2, 3, 3, 4, 16, 256]);
    let sym = |rng: &mut Rng| -> u8 {
        if alpha == 256 {
            rng.next() as u8
        } else {
            b'a' + rng.below(alpha) as u8
        }
    };
    match style {
        0 => {
            // periodic
            let p = rng.range(1, 9) as usize;
            let pat: Vec<u8> = (0..p).map(|_| sym(rng)).collect();
            for i in 0..n {
                v.push(pat[i % p]);
            }
        }
        1 | 2 | 3 => {
            // pieces copied from earlier data (this block or the frame) mixed with fresh symbols
            while v.len() < n {
                let src_len = frame.len() + v.len();
                if src_len >= 5 && rng.chance(2, 3) {
                    let l = rng.range(3, 14) as usize;
                    let st = rng.below(src_len as u64) as usize;
                    for k in 0..l {
                        if v.len() >= n {
                            break;
                        }
                        let i = st + k;
                        let b = if i < frame.len() {
                            frame[i]
                        } else if i - frame.len() < v.len() {
                            v[i - frame.len()]
                        } else {
                            break;
                        };
                        v.push(b);
                    }
                } else {
                    let l = rng.range(1, 6);
                    for _ in 0..l {
                        if v.len() < n {
                            v.push(sym(rng));
                        }
                    }
                }
            }
        }
        4 => {
            // constant (what the encoder would store RLE and skip)
            let b = sym(rng);
            v.resize(n, b);
        }
        5 => {
            // repeat the tail of the frame (long cross-entry matches, entry-end truncation)
            if frame.len() >= 5 {
                let back = rng.range(5, frame.len().min(80) as u64) as usize;
                let st = frame.len() - back;
                for i in 0..n {
                    v.push(frame[st + i % back]);
                }
            } else {
                for _ in 0..n {
                    v.push(sym(rng));
                }
            }
        }
        _ => {
            for _ in 0..n {
                v.push(sym(rng));
            }
        }
    }
    v.truncate(n);
    v
}

/// size log of the suffix store `commit_space` picks for a block of `n` bytes when the pool is empty
fn store_log(n: usize) -> u32 {
    n.next_power_of_two().max(1024).ilog2()
}

/// a block built around 5-byte keys that collide in the store the block will get (`len_log` bits of
/// the hash; the shift `64 - len_log` is part of what is compared): filler bytes in between, so that
/// larger stores (len_log 11..17) are probed as well.  Without a `SuffixStore::key` hook the hash is
/// compared through its collision behaviour: model and code must agree on which keys evict which.
fn gen_collision_block(rng: &mut Rng, n: usize) -> Vec<u8> {
    let len_log = store_log(n);
    let mut keys: Vec<[u8; 5]> = vec![];
    let first: [u8; 5] = [rng.next() as u8, rng.next() as u8, rng.next() as u8, rng.next() as u8, rng.next() as u8];
    let slot = aim_key(&first, len_log);
    keys.push(first);
    let mut tries = 0;
    while keys.len() < 3 && tries < 3_000_000 {
        tries += 1;
        let k: [u8; 5] = [rng.next() as u8, rng.next() as u8, rng.next() as u8, rng.next() as u8, rng.next() as u8];
        if aim_key(&k, len_log) == slot && !keys.contains(&k) {
            keys.push(k);
        }
    }
    let fill = if n > 200 { n / 40 } else { 0 };
    let mut v = vec![];
    while v.len() < n {
        let k = keys[rng.below(keys.len() as u64) as usize];
        v.extend_from_slice(&k);
        if rng.chance(1, 3) {
            v.push(rng.next() as u8);
        }
        for _ in 0..rng.below(fill as u64 + 1) {
            v.push(rng.next() as u8);
        }
    }
    v.truncate(n);
    v
}

fn block_ops(s: &mut Session, run: &mut Run, data: &[u8], do_match: bool) {
    let l = s.op_next(run);
    if data.len() <= l {
        s.op_commit(run, data, None);
    } else {
        s.op_commit(run, data, Some(data.len()));
    }
    if do_match {
        s.op_start(run);
    } else {
        s.op_skip(run);
    }
}

/// all byte strings of length `n` over `alpha` symbols, by index
fn nth_string(mut idx: u64, n: usize, alpha: u64) -> Vec<u8> {
    let mut v = Vec::with_capacity(n);
    for _ in 0..n {
        v.push(b'a' + (idx % alpha) as u8);
        idx /= alpha;
    }
    v
}

fn random_scenario(s: &mut Session, run: &mut Run, rng: &mut Rng, slice: usize, slices: usize, nblocks: usize) {
    s.op_new(run, slice, slices);
    if rng.chance(1, 2) {
        s.op_reset(run); // FrameCompressor::compress starts every frame with a reset
    }
    if rng.chance(1, 4) {
        s.op_wsize(run);
    }
    for _ in 0..nblocks {
        if s.dead {
            break;
        }
        let l = s.op_next(run);
        if l == 0 {
            // slice size 0: nothing can be committed through the protocol
            break;
        }
        let n = match rng.below(10) {
            0..=4 => l,
            5 => rng.range(1, 4.min(l as u64)) as usize,
            6 => rng.range(5.min(l as u64), 9.min(l as u64)) as usize,
            _ => rng.range(1, l as u64) as usize,
        };
        let frame = s.frame.clone();
        let data = if rng.chance(1, 10) && n >= 10 {
            run.stat(&format!("collision_blocks_lenlog_{}", store_log(n)), 1);
            gen_collision_block(rng, n)
        } else {
            gen_block(rng, n, &frame)
        };
        s.op_commit(run, &data, None);
        if rng.chance(1, 8) {
            s.op_last(run);
        }
        if rng.chance(4, 5) {
            s.op_start(run);
            if rng.chance(1, 12) {
                s.op_start(run); // nothing left: must report no sequence
            }
            if rng.chance(1, 12) {
                s.op_skip(run); // harmless after matching
            }
        } else {
            s.op_skip(run);
            if rng.chance(1, 12) {
                s.op_start(run); // after skip: nothing to report
            }
        }
        if rng.chance(1, 10) {
            s.op_stats(run);
        }
        if rng.chance(1, 7) {
            s.op_reset(run);
            if rng.chance(1, 3) {
                s.op_stats(run);
            }
        }
    }
}

fn misuse_scenario(s: &mut Session, run: &mut Run, rng: &mut Rng) {
    let slice = *rng.pick(&[8usize, 16, 32]);
    let slices = rng.range(0, 3) as usize;
    s.op_new(run, slice, slices);
    match rng.below(8) {
        0 => s.op_start(run), // empty window
        1 => s.op_skip(run),
        2 => s.op_last(run),
        3 => {
            // two commits without matching in between: the assert of add_data
            let d = gen_block(rng, slice, &[]);
            s.op_next(run);
            s.op_commit(run, &d, None);
            s.op_next(run);
            s.op_commit(run, &d, None);
        }
        4 => {
            // a space larger than the whole window: the assert of reserve
            let n = slice * slices + 1 + rng.below(4) as usize;
            let d = gen_block(rng, n, &[]);
            s.op_commit(run, &d, Some(n));
        }
        5 => {
            // foreign vectors of odd capacities enter the pool and come back through get_next_space
            for _ in 0..4 {
                if s.dead {
                    break;
                }
                let cap = rng.range(1, (slice * slices.max(1)) as u64) as usize;
                let n = rng.range(0, cap as u64) as usize;
                let d = gen_block(rng, n, &s.frame.clone());
                s.op_commit(run, &d, Some(cap));
                s.op_start(run);
            }
            s.op_reset(run);
            for _ in 0..3 {
                if s.dead {
                    break;
                }
                let l = s.op_next(run);
                let d = gen_block(rng, l, &s.frame.clone());
                s.op_commit(run, &d, None);
                s.op_start(run);
            }
        }
        6 => {
            // empty blocks
            s.op_next(run);
            s.op_commit(run, &[], None);
            s.op_start(run);
            let d = gen_block(rng, slice, &[]);
            block_ops(s, run, &d, true);
            s.op_next(run);
            s.op_commit(run, &[], None);
            s.op_skip(run);
            block_ops(s, run, &d, true);
        }
        _ => {
            // commit, partial processing is impossible through the trait; reset right after commit
            let d = gen_block(rng, slice, &[]);
            s.op_next(run);
            s.op_commit(run, &d, None);
            s.op_reset(run);
            block_ops(s, run, &d, true);
        }
    }
}

/// text-like data with planted repeats for the production-size runs
fn big_data(rng: &mut Rng, n: usize, style: u64) -> Vec<u8> {
    let mut v: Vec<u8> = Vec::with_capacity(n);
    let words: Vec<Vec<u8>> = (0..200)
        .map(|_| {
            let l = rng.range(2, 11) as usize;
            (0..l).map(|_| b'a' + rng.below(26) as u8).collect()
        })
        .collect();
    while v.len() < n {
        match style {
            0 => {
                let w = &words[rng.below(words.len() as u64) as usize];
                v.extend_from_slice(w);
                v.push(b' ');
            }
            1 => {
                // mostly random bytes with occasional long repeats
                if v.len() > 1000 && rng.chance(1, 50) {
                    let l = rng.range(5, 600) as usize;
                    let st = rng.below((v.len() - l.min(v.len() - 1)) as u64) as usize;
                    for k in 0..l {
                        let b = v[st + k];
                        v.push(b);
                    }
                } else {
                    v.push(rng.next() as u8);
                }
            }
            _ => {
                // small alphabet: dense matches, many collisions
                v.push(b'a' + (rng.below(3) as u8));
            }
        }
    }
    v.truncate(n);
    v
}

pub fn run(opts: &Opts) -> Run {
    let mut run = Run::new("matcher");
    let mut rng = Rng::new(opts.seed);
    let mut s = Session::new();

    if let Some(p) = &opts.replay {
        let lines: Vec<String> = std::fs::read_to_string(p).unwrap_or_default().lines().filter(|l| l.starts_with("matcher ")).map(|l| l.to_string()).collect();
        replay_lines(&mut run, &lines);
        return run;
    }

    // ---- corpus: the trace of the crate's own unit test (`matches`), through the driver
    {
        s.op_new(&mut run, 1000, 1);
        let blocks: [(&[u8], bool); 9] = [
            (&[0, 0, 0, 0, 0, 0, 0, 0, 0, 0], true),
            (&[1, 2, 3, 4, 5, 6, 1, 2, 3, 4, 5, 6, 1, 2, 3, 4, 5, 6, 0, 0, 0, 0, 0], true),
            (&[1, 2, 3, 4, 5, 6, 7, 8, 9, 10, 11, 0, 0, 0, 0, 0], true),
            (&[0, 0, 0, 0, 0], true),
            (&[7, 8, 9, 10, 11], true),
            (&[1, 3, 5, 7, 9], false),
            (&[1, 3, 5, 7, 9], true),
            (&[0, 0, 11, 13, 15, 17, 20, 11, 13, 15, 17, 20, 21, 23], true),
            (&[9, 9, 9], true),
        ];
        for (b, m) in blocks {
            block_ops(&mut s, &mut run, b, m);
        }
        s.op_stats(&mut run);
        s.op_reset(&mut run);
        for (b, m) in blocks {
            block_ops(&mut s, &mut run, b, m);
        }
    }
    // corpus files: corpus/matcher/*.case (request lines)
    if let Ok(rd) = std::fs::read_dir("corpus/matcher") {
        let mut files: Vec<_> = rd.filter_map(|e| e.ok()).map(|e| e.path()).filter(|p| p.extension().map(|x| x == "case").unwrap_or(false)).collect();
        files.sort();
        for f in files {
            let lines: Vec<String> = std::fs::read_to_string(&f).unwrap_or_default().lines().filter(|l| l.starts_with("matcher ")).map(|l| l.to_string()).collect();
            let mut s2 = Session::new();
            for l in &lines {
                if l.starts_with("matcher new") || !s2.dead {
                    s2.exec_line(&mut run, l);
                }
            }
            run.stat("corpus_files", 1);
        }
    }

    // ---- exhaustive families (small alphabets, short blocks, scaled-down windows)
    // family A: one block, every string of length 10..=L over 2 symbols (in-block matches need >= 10 bytes)
    let (a_max, b_lens, c_len3): (usize, std::ops::RangeInclusive<usize>, usize) = if opts.thorough { (15, 5..=7, 11) } else { (12, 5..=6, 10) };
    for n in 10..=a_max {
        for idx in 0..(1u64 << n) {
            s.op_new(&mut run, 16, 1);
            block_ops(&mut s, &mut run, &nth_string(idx, n, 2), true);
            run.stat("exh_single_2sym", 1);
        }
    }
    // family A3: one block over 3 symbols
    for n in 10..=c_len3 {
        let total = 3u64.pow(n as u32);
        let step = if opts.thorough { 1 } else { 7 };
        let mut idx = 0;
        while idx < total {
            s.op_new(&mut run, 16, 1);
            block_ops(&mut s, &mut run, &nth_string(idx, n, 3), true);
            run.stat("exh_single_3sym", 1);
            idx += step;
        }
    }
    // family B: two blocks over 2 symbols x (skip|match the first) x window of 1 or 2 slices (eviction or not)
    for n1 in b_lens.clone() {
        for n2 in b_lens.clone() {
            for i1 in 0..(1u64 << n1) {
                for i2 in 0..(1u64 << n2) {
                    for (slices, m1) in [(2usize, true), (2, false), (1, true)] {
                        if !opts.thorough && (i1 * 31 + i2 * 17 + slices as u64) % 5 != 0 {
                            continue;
                        }
                        s.op_new(&mut run, 8, slices);
                        block_ops(&mut s, &mut run, &nth_string(i1, n1, 2), m1);
                        block_ops(&mut s, &mut run, &nth_string(i2, n2, 2), true);
                        run.stat("exh_pair_2sym", 1);
                    }
                }
            }
        }
    }
    // family C: three blocks of length 5 over 2 symbols x reset point x window 2 slices of 5 (third block evicts the first)
    {
        let step = if opts.thorough { 1 } else { 11 };
        let mut idx = 0u64;
        while idx < (1 << 15) {
            let (i1, i2, i3) = (idx & 31, (idx >> 5) & 31, (idx >> 10) & 31);
            for reset_at in 0..3u32 {
                s.op_new(&mut run, 5, 2);
                block_ops(&mut s, &mut run, &nth_string(i1, 5, 2), true);
                if reset_at == 1 {
                    s.op_reset(&mut run);
                }
                block_ops(&mut s, &mut run, &nth_string(i2, 5, 2), reset_at != 2);
                block_ops(&mut s, &mut run, &nth_string(i3, 5, 2), true);
                run.stat("exh_triple_2sym", 1);
            }
            idx += step;
        }
    }
    // family D (thorough): pairs over 3 symbols, lengths 5 and 5..=6
    if opts.thorough {
        for i1 in 0..243u64 {
            for n2 in 5..=6usize {
                for i2 in 0..3u64.pow(n2 as u32) {
                    s.op_new(&mut run, 8, 2);
                    block_ops(&mut s, &mut run, &nth_string(i1, 5, 3), (i1 + i2) % 4 != 0);
                    block_ops(&mut s, &mut run, &nth_string(i2, n2, 3), true);
                    run.stat("exh_pair_3sym", 1);
                }
            }
        }
    }

    // ---- random scenarios on scaled-down windows
    let n_rand = if opts.thorough { 60000 } else { 12000 };
    for _ in 0..n_rand {
        let slice = *rng.pick(&[8usize, 8, 12, 16, 16, 24, 32, 48, 64, 64]);
        let slices = rng.range(1, 4) as usize;
        let nblocks = rng.range(2, 12) as usize;
        random_scenario(&mut s, &mut run, &mut rng, slice, slices, nblocks);
    }
    // larger slices: stores bigger than the 1024 minimum, pooled stores of different sizes
    for _ in 0..(if opts.thorough { 400 } else { 30 }) {
        let slice = *rng.pick(&[1500usize, 2048, 2049, 4096, 5000]);
        let slices = rng.range(1, 3) as usize;
        let nb = rng.range(2, 6) as usize;
        random_scenario(&mut s, &mut run, &mut rng, slice, slices, nb);
    }
    // ---- protocol misuse: the panic sites (model must fault at the same operation)
    for _ in 0..(if opts.thorough { 2000 } else { 200 }) {
        misuse_scenario(&mut s, &mut run, &mut rng);
    }

    // ---- production size (128 KiB x 1), the call order of FrameCompressor::compress
    let n_big = if opts.thorough { 12 } else { 3 };
    for i in 0..n_big {
        s.op_new(&mut run, 1024 * 128, 1);
        s.op_reset(&mut run);
        s.op_wsize(&mut run);
        let nblocks = 2 + (i % 2) as usize;
        for b in 0..nblocks {
            let l = s.op_next(&mut run);
            if s.dead || l == 0 {
                break;
            }
            let n = if b + 1 == nblocks { rng.range(1, l as u64) as usize } else { l };
            let mut d = if i % 3 == 1 && n > 70000 {
                run.stat(&format!("collision_blocks_lenlog_{}", store_log(n)), 1);
                gen_collision_block(&mut rng, n)
            } else {
                big_data(&mut rng, n, (i % 3) as u64)
            };
            if b > 0 && n > 4000 && s.frame.len() >= 3000 {
                // content of the previous block again: must NOT be matched at production size (window = one block)
                let f = s.frame.clone();
                let st = f.len() - 3000;
                d[..2000].copy_from_slice(&f[st..st + 2000]);
            }
            s.op_commit(&mut run, &d, None);
            if rng.chance(1, 6) {
                s.op_skip(&mut run);
            } else {
                s.op_start(&mut run);
            }
            run.stat("prod_blocks", 1);
        }
        s.op_reset(&mut run);
        s.op_stats(&mut run);
    }

    // ---- production size: the LONGEST matches the driver can produce (a full block whose second half, or all but a
    // short head, repeats its beginning: match lengths 65536 … 131067), and one-byte runs
    for (k, head) in [65536usize, 65535, 65537, 40000, 5, 1000].into_iter().enumerate() {
        s.op_new(&mut run, 1024 * 128, 1);
        s.op_reset(&mut run);
        let l = s.op_next(&mut run);
        if s.dead || l == 0 {
            break;
        }
        let mut d = rng.bytes(head.min(l));
        if k == 4 {
            d = vec![0x41; 5]; // a run: offset 1 … no: the matcher needs distinct 5-grams; keep the pattern short
        }
        let mut i = 0;
        while d.len() < l {
            let b = d[i];
            d.push(b);
            i += 1;
        }
        s.op_commit(&mut run, &d, None);
        s.op_start(&mut run);
        run.stat("prod_long_match_blocks", 1);
        s.op_reset(&mut run);
    }

    // samples: a few real request/answer pairs
    let idxs = [3usize, 4, 9, run.cases.len() / 2, run.cases.len() - 3];
    for i in idxs {
        if i < run.cases.len() {
            let c = &run.cases[i];
            let a = &run.impl_out[i];
            run.samples.push(format!("{} => {}", &c[..c.len().min(160)], &a[..a.len().min(160)]));
        }
    }
    run
}
