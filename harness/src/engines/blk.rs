//! Engine `blk` (C01, C03): block-level decoding on a caller-supplied `DecoderScratch` through the
//! hooks (`BlockDecoder::read_block_header` + `decode_block_content`), compared block by block with the
//! FAITHFUL Lean mirror (`Zstd.Model.Blk.decompressBlock`: real literals-header parser, Huffman decoder,
//! FSE tables, reversed bit reader, sequence loop, sequence execution) — on valid blocks and on blocks
//! with bytes broken on purpose, with the scratch state carried from block to block (also after errors).
//! Compared after every block: outcome (error variant family), decoded literals, decoded sequences,
//! buffered length, offset history, accuracy logs / RLE symbols of the three tables, Huffman max bits;
//! and the complete output at the end.
use crate::errmap::body_err;
use crate::gen;
use crate::synth;
use crate::util::*;
use ruzstd::verif_hooks::headers::new_block_decoder;
use ruzstd::verif_hooks::sections::DecoderScratch;

pub struct Blocks {
    pub window: usize,
    /// (3 header bytes, content)
    pub blocks: Vec<([u8; 3], Vec<u8>)>,
}

/// split a frame into its blocks (independent little walker; `None` if the frame structure is broken)
pub fn split(frame: &[u8]) -> Option<Blocks> {
    if frame.len() < 6 || frame[..4] != [0x28, 0xB5, 0x2F, 0xFD] {
        return None;
    }
    let d = frame[4];
    let single = d & 0x20 != 0;
    let did = [0usize, 1, 2, 4][(d & 3) as usize];
    let flen = match d >> 6 {
        0 => single as usize,
        1 => 2,
        2 => 4,
        _ => 8,
    };
    let mut pos = 5 + (!single) as usize + did;
    let mut fcs = 0u64;
    for i in 0..flen {
        fcs |= (*frame.get(pos + i)? as u64) << (8 * i);
    }
    if flen == 2 {
        fcs += 256;
    }
    let window = if single { fcs } else { synth::window_of(frame[5]) };
    pos += flen;
    let mut blocks = Vec::new();
    loop {
        let h = [*frame.get(pos)?, *frame.get(pos + 1)?, *frame.get(pos + 2)?];
        let v = h[0] as u32 | (h[1] as u32) << 8 | (h[2] as u32) << 16;
        let (last, t, size) = (v & 1 == 1, (v >> 1) & 3, (v >> 3) as usize);
        let clen = match t {
            1 => 1,
            3 => return None,
            _ => size,
        };
        let content = frame.get(pos + 3..pos + 3 + clen)?.to_vec();
        blocks.push((h, content));
        pos += 3 + clen;
        if last {
            break;
        }
    }
    Some(Blocks { window: window.min(1 << 27) as usize, blocks })
}

fn seq_digest(seqs: &[ruzstd::verif_hooks::sections::Sequence]) -> String {
    let mut s = String::new();
    for q in seqs {
        s.push_str(&format!("{},{},{};", q.ll, q.ml, q.of));
    }
    if s.is_empty() {
        "-".into()
    } else {
        digest(s.as_bytes())
    }
}

fn dg(b: &[u8]) -> String {
    if b.is_empty() {
        "-".into()
    } else {
        digest(b)
    }
}

fn observe(sc: &DecoderScratch) -> String {
    let o = |x: Option<u8>| x.map(|v| v.to_string()).unwrap_or_else(|| "-".into());
    format!(
        "len={} hist={},{},{} ll={}/{} of={}/{} ml={}/{} huf={}",
        sc.buffer.len(),
        sc.offset_hist[0],
        sc.offset_hist[1],
        sc.offset_hist[2],
        sc.fse.literal_lengths.accuracy_log,
        o(sc.fse.ll_rle),
        sc.fse.offsets.accuracy_log,
        o(sc.fse.of_rle),
        sc.fse.match_lengths.accuracy_log,
        o(sc.fse.ml_rle),
        sc.huf.table.max_num_bits
    )
}

/// run the blocks (possibly mutated) on a fresh scratch; emit one request per block
fn run_blocks(run: &mut Run, b: &Blocks, label: &str, stop_after_error: bool) {
    let mut sc = DecoderScratch::new(b.window);
    sc.reset(b.window);
    run.case(format!("blk new {}", b.window), format!("ok | {}", observe(&sc)));
    let mut lines: Vec<String> = vec![format!("blk new {}", b.window)];
    // a decode error was already returned in this run (the scratch is carried on regardless)
    let mut errored = false;
    for (h, content) in &b.blocks {
        let v = h[0] as u32 | (h[1] as u32) << 8 | (h[2] as u32) << 16;
        let (t, size) = ((v >> 1) & 3, (v >> 3) as usize);
        let mut src: Vec<u8> = h.to_vec();
        src.extend_from_slice(content);
        let res = guarded(|| {
            let mut bd = new_block_decoder();
            let mut s = &src[..];
            let (hdr, _) = bd.read_block_header(&mut s).map_err(|_| "err blockHeader".to_string())?;
            bd.decode_block_content(&hdr, &mut sc, &mut s).map(|_| ()).map_err(|e| body_err(&e))
        });
        let (line, ans) = match t {
            0 => (format!("blk raw {}", hex(content)), None),
            1 => (format!("blk rle {} {}", content.first().copied().unwrap_or(0), size), None),
            _ => (format!("blk block {}", hex(content)), Some(())),
        };
        lines.push(line.clone());
        let outcome = match &res {
            Ok(Ok(())) => "ok".to_string(),
            Ok(Err(e)) => e.clone(),
            Err(p) => {
                if errored {
                    // Continuing a frame after a decode error is not a legal call sequence (C03: "after a decode error
                    // the caller may drain, query and reset, but not continue that frame"): a failed FSE / Huffman
                    // table build leaves `accuracy_log` / `max_num_bits` set over a stale or empty table, and a later
                    // Repeat / Treeless block indexes it out of range.  The model reproduces the fault at the same
                    // site (compared below as outcome `fault`); theorem `decompressBlock_no_fault_any_history_false`
                    // has the two minimal witnesses.  Counted, not reported as a violation.
                    run.stat("panic_after_earlier_error(illegal_continuation)", 1);
                    if run.notes.len() < 3 {
                        run.notes.push(format!("[{}] panic after an earlier decode error in the same frame (illegal continuation): {}", label, p));
                    }
                } else {
                    let r = lines.join("\n");
                    run.fail("C03", &format!("panic_block:{}", p.rsplit(" @ ").next().unwrap_or("?")), format!("[{}] block decoding panicked: {}", label, p), r);
                }
                "fault".to_string()
            }
        };
        if outcome != "ok" {
            errored = true;
        }
        if outcome == "err blockHeader" {
            // an illegal block header (reserved type, size above 128 KiB): the frame level rejects it (engine `dec`/`hostile`)
            lines.pop();
            break;
        }
        let out = if ans.is_some() && outcome == "ok" {
            format!("{} lits={} seqs={}:{} | {}", outcome, dg(&sc.literals_buffer), sc.sequences.len(), seq_digest(&sc.sequences), observe(&sc))
        } else if ans.is_some() {
            // after an error the scratch vectors hold leftovers (stale sequences of the previous block, partially
            // decoded literals) that no API exposes: not compared
            format!("{} lits=? seqs=? | {}", outcome, observe(&sc))
        } else {
            format!("{} | {}", outcome, observe(&sc))
        };
        // on an error the Rust code leaves literals/sequences of the failed block in the scratch; the model reports
        // what IT decoded before the error — both are "as left", compared as is
        run.case(line, out);
        run.stat(&format!("outcome:{}", outcome.split(' ').take(2).collect::<Vec<_>>().join("_")), 1);
        if outcome != "ok" && stop_after_error {
            break;
        }
        if outcome == "fault" {
            break;
        }
    }
    let rest = sc.buffer.drain();
    run.case("blk drainall".into(), format!("ok {}", dg(&rest)));
}

pub fn run(opts: &Opts) -> Run {
    let mut run = Run::new("blk");
    let mut rng = Rng::new(opts.seed ^ 0xb10c);
    let mut frames: Vec<(Vec<u8>, String)> = Vec::new();
    for (name, f, _) in gen::repo_corpus(if opts.thorough { 120_000 } else { 8_000 }).into_iter().take(if opts.thorough { 200 } else { 25 }) {
        frames.push((f, format!("repo corpus {}", name)));
    }
    let n = if opts.thorough { 300 } else { 24 };
    for i in 0..n {
        let kind = gen::DATA_KINDS[i % gen::DATA_KINDS.len()];
        let len = gen::pick_len(&mut rng, if opts.thorough { 150_000 } else { 16_000 });
        let d = gen::data(&mut rng, kind, len);
        let p = gen::zparams(&mut rng);
        frames.push((gen::zstd_frame(&d, &p, None), format!("libzstd {} {}", kind, p.describe())));
    }
    for _ in 0..(if opts.thorough { 400 } else { 60 }) {
        let (f, label) = synth::valid_frame(&mut rng);
        if label.starts_with("far offset") {
            continue;
        }
        frames.push((synth::serialize(&f, &[]).0, format!("synthetic {}", label)));
    }
    for _ in 0..(if opts.thorough { 400 } else { 60 }) {
        let (b, label) = synth::hostile_frame(&mut rng);
        frames.push((b, format!("hostile {}", label)));
    }
    let mut shown = 0;
    // directed hostile frames (failing table builds, four-stream jump tables around the size of the stream area)
    for (b, label) in super::hostile::directed_hostile() {
        frames.push((b, format!("directed {}", label)));
    }
    for (f, label) in &frames {
        let Some(b) = split(f) else { continue };
        if b.blocks.iter().map(|x| x.1.len()).sum::<usize>() > 400_000 {
            continue;
        }
        run.stat("frames", 1);
        run.stat("blocks", b.blocks.len() as u64);
        // (a) as is
        run_blocks(&mut run, &b, label, false);
        // (b) with one or two compressed blocks broken on purpose, continuing after the error
        let comp: Vec<usize> = b.blocks.iter().enumerate().filter(|(_, x)| (x.0[0] >> 1) & 3 == 2 && !x.1.is_empty()).map(|(i, _)| i).collect();
        let rounds = if comp.is_empty() { 0 } else if opts.thorough { 6 } else { 2 };
        for _ in 0..rounds {
            let mut m = Blocks { window: b.window, blocks: b.blocks.clone() };
            let k = *rng.pick(&comp);
            let c = &mut m.blocks[k].1;
            let what = rng.below(6);
            match what {
                0 => {
                    let i = rng.below(c.len() as u64) as usize;
                    c[i] ^= 1 << rng.below(8);
                }
                1 => {
                    // the first bytes: literals header / Huffman description / sequence header
                    let i = rng.below(8.min(c.len() as u64)) as usize;
                    c[i] = rng.next() as u8;
                }
                2 => {
                    let i = rng.below(c.len() as u64) as usize;
                    c.truncate(i.max(1));
                }
                3 => {
                    // the last bytes: end of the sequence bitstream
                    let n_ = c.len();
                    let i = n_ - 1 - rng.below(3.min(n_ as u64)) as usize;
                    c[i] = rng.next() as u8;
                }
                4 => {
                    let i = rng.below(c.len() as u64) as usize;
                    let n_ = rng.range(1, 4) as usize;
                    let ins = rng.bytes(n_);
                    c.splice(i..i, ins);
                }
                _ => {
                    for _ in 0..3 {
                        let i = rng.below(c.len() as u64) as usize;
                        c[i] = rng.next() as u8;
                    }
                }
            }
            // keep the block header's size field consistent with the new content length
            let v = (m.blocks[k].0[0] as u32 & 7) | ((m.blocks[k].1.len() as u32) << 3);
            m.blocks[k].0 = [v as u8, (v >> 8) as u8, (v >> 16) as u8];
            run.stat("mutated_runs", 1);
            run_blocks(&mut run, &m, &format!("{} [block {} broken, kind {}]", label, k, what), rng.chance(1, 2));
        }
        if shown < 4 {
            run.samples.push(format!("{}: {} blocks, window {}", label, b.blocks.len(), b.window));
            shown += 1;
        }
    }
    // (c) directed boundary blocks for the guards the block-level no-fault theorems (C03) rest on:
    // an RLE-mode table whose symbol is the alphabet maximum, one above it, and 255, per channel
    // (`lookup_ll_code` / `lookup_ml_code` end in `unreachable!`, offset codes above 31 must be rejected),
    // followed by a Repeat-mode block that reuses the remembered RLE symbol
    for (chan, max) in [(0usize, 35u8), (1, 31), (2, 52)] {
        for sym in [max, max.wrapping_add(1), 255u8] {
            let mut syms = [0u8; 3];
            syms[chan] = sym;
            let mk = |modes: u8, with_syms: bool| {
                // 0 raw literals, 1 sequence, modes byte, (LL, OF, ML symbols), 64 stream bits + end mark
                let mut c = vec![0x00u8, 0x01, modes];
                if with_syms {
                    c.extend_from_slice(&syms);
                }
                c.extend_from_slice(&[0xFF; 8]);
                c.push(0x01);
                let v = (2u32 << 1) | ((c.len() as u32) << 3);
                ([v as u8, (v >> 8) as u8, (v >> 16) as u8], c)
            };
            let b = Blocks { window: 1 << 20, blocks: vec![([0x08 | 0x02, 0, 0], vec![7u8]), mk(0x54, true), mk(0xFC, false)] };
            run.stat("directed_rle_boundary", 1);
            run_blocks(&mut run, &b, &format!("directed RLE boundary chan {} sym {}", chan, sym), false);
        }
    }
    run
}
