//! Engine `io` (C18).  Built in four variants `{std, no_std} × {hash, no hash}` (cargo features of the
//! harness; `ruzstd::io` is `std::io` in the std variants and `io_nostd` in the others).
//!
//! Two kinds of output:
//!  * `io.cases` / `io.impl` — the I/O helpers (`read_exact`, `read_to_end`, `Take`, `write_all`, the
//!    slice / `Vec` impls) under reader/writer *scripts*; the Lean model (= the std contract) answers
//!    the same requests.  In the std variants this exercises the real `std::io`, i.e. it also
//!    validates the Spec against what std does.
//!  * `io.digests` — codec-level cases (compress through fragmenting readers, decode through
//!    fragmenting / interrupting / failing readers and short / failing writers): one line per case
//!    `<scope> <case-id> <canonical result>`; `tools/io_variants.py` compares every line across the four
//!    builds (`scope = all`: identical in all four; `scope = hash`: identical among builds with the same
//!    `hash` setting).  `io.frames`: small frames in hex for the model's hash-off prediction.
use crate::util::*;
use ruzstd::decoding::{BlockDecodingStrategy, FrameDecoder, StreamingDecoder};
use ruzstd::encoding::{compress, compress_to_vec, CompressionLevel, FrameCompressor};
use ruzstd::io::{Error, ErrorKind, Read, Write};

#[derive(Clone, Copy, Debug, PartialEq)]
pub enum Resp {
    Data(usize),
    Eof,
    Intr,
    ErrOther,
    ErrWouldBlock,
    ErrUnexpectedEof,
}

fn resp_str(r: &Resp) -> String {
    match r {
        Resp::Data(k) => format!("d{}", k),
        Resp::Eof => "z".into(),
        Resp::Intr => "i".into(),
        Resp::ErrOther => "eo".into(),
        Resp::ErrWouldBlock => "ew".into(),
        Resp::ErrUnexpectedEof => "eu".into(),
    }
}
fn script_str(s: &[Resp]) -> String {
    if s.is_empty() {
        "-".into()
    } else {
        s.iter().map(resp_str).collect::<Vec<_>>().join(",")
    }
}
fn parse_script(s: &str) -> Option<Vec<Resp>> {
    if s == "-" {
        return Some(vec![]);
    }
    s.split(',')
        .map(|t| match t {
            "z" => Some(Resp::Eof),
            "i" => Some(Resp::Intr),
            "eo" => Some(Resp::ErrOther),
            "ew" => Some(Resp::ErrWouldBlock),
            "eu" => Some(Resp::ErrUnexpectedEof),
            _ => t.strip_prefix('d').and_then(|k| k.parse().ok()).map(Resp::Data),
        })
        .collect()
}

fn kind_str(k: ErrorKind) -> &'static str {
    match k {
        ErrorKind::Interrupted => "interrupted",
        ErrorKind::UnexpectedEof => "unexpectedeof",
        ErrorKind::WouldBlock => "wouldblock",
        ErrorKind::Other => "other",
        #[cfg(feature = "std")]
        ErrorKind::WriteZero => "writezero",
        #[cfg(not(feature = "std"))]
        ErrorKind::WriteAllEof => "writezero",
        _ => "?",
    }
}

fn err_of(r: &Resp) -> Error {
    match r {
        Resp::Intr => Error::from(ErrorKind::Interrupted),
        Resp::ErrOther => Error::from(ErrorKind::Other),
        Resp::ErrWouldBlock => Error::from(ErrorKind::WouldBlock),
        Resp::ErrUnexpectedEof => Error::from(ErrorKind::UnexpectedEof),
        _ => unreachable!(),
    }
}

/// scripted reader: one script element per `read` call; exhausted script = `Ok(0)` for ever
pub struct SReader<'a> {
    pub src: &'a [u8],
    pub script: Vec<Resp>,
    pub idx: usize,
    /// after the script: keep delivering with this chunk size instead of `Ok(0)` (codec-level cases only)
    pub then_chunk: Option<usize>,
    pub calls: usize,
}
impl<'a> SReader<'a> {
    pub fn new(src: &'a [u8], script: Vec<Resp>) -> Self {
        SReader { src, script, idx: 0, then_chunk: None, calls: 0 }
    }
    fn give(&mut self, k: usize, buf: &mut [u8]) -> usize {
        let n = k.min(buf.len()).min(self.src.len());
        buf[..n].copy_from_slice(&self.src[..n]);
        self.src = &self.src[n..];
        n
    }
}
impl<'a> Read for SReader<'a> {
    fn read(&mut self, buf: &mut [u8]) -> Result<usize, Error> {
        self.calls += 1;
        match self.script.get(self.idx).copied() {
            None => match self.then_chunk {
                Some(c) => Ok(self.give(c, buf)),
                None => Ok(0),
            },
            Some(r) => {
                self.idx += 1;
                match r {
                    Resp::Data(k) => Ok(self.give(k, buf)),
                    Resp::Eof => Ok(0),
                    other => Err(err_of(&other)),
                }
            }
        }
    }
}

pub struct SWriter {
    pub sink: Vec<u8>,
    pub script: Vec<Resp>,
    pub idx: usize,
    pub then_chunk: Option<usize>,
}
impl SWriter {
    pub fn new(script: Vec<Resp>) -> Self {
        SWriter { sink: vec![], script, idx: 0, then_chunk: None }
    }
}
impl Write for SWriter {
    fn write(&mut self, buf: &[u8]) -> Result<usize, Error> {
        match self.script.get(self.idx).copied() {
            None => match self.then_chunk {
                Some(c) => {
                    let n = c.min(buf.len());
                    self.sink.extend_from_slice(&buf[..n]);
                    Ok(n)
                }
                None => Ok(0),
            },
            Some(r) => {
                self.idx += 1;
                match r {
                    Resp::Data(k) => {
                        let n = k.min(buf.len());
                        self.sink.extend_from_slice(&buf[..n]);
                        Ok(n)
                    }
                    Resp::Eof => Ok(0),
                    other => Err(err_of(&other)),
                }
            }
        }
    }
    fn flush(&mut self) -> Result<(), Error> {
        Ok(())
    }
}

// ------------------------------------------------------------------------------------------------
// helper-level operations (answered by the model too)

fn op_read_exact(script: &[Resp], src: &[u8], need: usize) -> String {
    let r = guarded(|| {
        let mut rd = SReader::new(src, script.to_vec());
        let mut buf = vec![0u8; need];
        let res = Read::read_exact(&mut rd, &mut buf);
        (res.map_err(|e| e.kind()), buf, rd.src.len(), rd.script.len() - rd.idx)
    });
    match r {
        Err(_) => "fault".into(),
        Ok((Ok(()), buf, rem, left)) => format!("ok {} rem={} left={}", hex(&buf), rem, left),
        Ok((Err(k), _, rem, left)) => format!("err {} rem={} left={}", kind_str(k), rem, left),
    }
}

fn op_read_to_end(script: &[Resp], src: &[u8]) -> String {
    let r = guarded(|| {
        let mut rd = SReader::new(src, script.to_vec());
        // spare capacity above std's probe size, so that std requests more than the (short) stream holds
        let mut out = Vec::with_capacity(64);
        let res = Read::read_to_end(&mut rd, &mut out).map(|_| ());
        (res.map_err(|e| e.kind()), out, rd.src.len(), rd.script.len() - rd.idx)
    });
    match r {
        Err(_) => "fault".into(),
        Ok((Ok(()), out, rem, left)) => format!("ok {} rem={} left={}", hex(&out), rem, left),
        Ok((Err(k), _, rem, left)) => format!("err {} rem={} left={}", kind_str(k), rem, left),
    }
}

fn op_take(limit: u64, script: &[Resp], src: &[u8], reqs: &[usize]) -> String {
    let r = guarded(|| {
        let rd = SReader::new(src, script.to_vec());
        let mut t = Read::take(rd, limit);
        let mut outs = vec![];
        for &q in reqs {
            let mut b = vec![0u8; q];
            match t.read(&mut b) {
                Ok(n) => outs.push(hex(&b[..n])),
                Err(e) => outs.push(format!("!{}", kind_str(e.kind()))),
            }
        }
        let lim = t.limit();
        let rd = t.into_inner();
        format!("ok {} limit={} rem={} left={}", if outs.is_empty() { "".to_string() } else { outs.join("|") }, lim, rd.src.len(), rd.script.len() - rd.idx)
    });
    r.unwrap_or_else(|_| "fault".into())
}

fn op_write_all(script: &[Resp], buf: &[u8]) -> String {
    let r = guarded(|| {
        let mut w = SWriter::new(script.to_vec());
        let res = Write::write_all(&mut w, buf);
        (res.map_err(|e| e.kind()), w.sink.clone(), w.script.len() - w.idx)
    });
    match r {
        Err(_) => "fault".into(),
        Ok((Ok(()), sink, left)) => format!("ok done sink={} left={}", hex(&sink), left),
        Ok((Err(k), sink, left)) => format!("err {} sink={} left={}", kind_str(k), hex(&sink), left),
    }
}

fn op_slice_read(slice: &[u8], req: usize) -> String {
    let mut s: &[u8] = slice;
    let mut buf = vec![0u8; req];
    match Read::read(&mut s, &mut buf) {
        Ok(n) => format!("ok {} rest={}", hex(&buf[..n]), s.len()),
        Err(e) => format!("err {}", kind_str(e.kind())),
    }
}

fn op_slice_read_exact(slice: &[u8], need: usize) -> String {
    let mut s: &[u8] = slice;
    let mut buf = vec![0u8; need];
    match Read::read_exact(&mut s, &mut buf) {
        Ok(()) => format!("ok {} rest={}", hex(&buf), s.len()),
        Err(e) => format!("err {} rest={}", kind_str(e.kind()), s.len()),
    }
}

fn op_slice_write(room: usize, data: &[u8]) -> String {
    let mut store = vec![0u8; room];
    let (n, left) = {
        let mut w: &mut [u8] = &mut store[..];
        let n = Write::write(&mut w, data);
        (n, w.len())
    };
    match n {
        Ok(n) => format!("ok {} n={} room={}", hex(&store[..room - left]), n, left),
        Err(e) => format!("err {}", kind_str(e.kind())),
    }
}

fn op_slice_write_all(room: usize, data: &[u8]) -> String {
    let mut store = vec![0u8; room];
    let (r, left) = {
        let mut w: &mut [u8] = &mut store[..];
        let r = Write::write_all(&mut w, data);
        (r, w.len())
    };
    match r {
        Ok(()) => format!("ok done sink={} room={}", hex(&store[..room - left]), left),
        Err(e) => format!("err {} sink={} room={}", kind_str(e.kind()), hex(&store[..room - left]), left),
    }
}

fn op_vec_write(v: &[u8], data: &[u8]) -> String {
    let mut vec = v.to_vec();
    match Write::write(&mut vec, data) {
        Ok(n) => format!("ok {} n={}", hex(&vec), n),
        Err(e) => format!("err {}", kind_str(e.kind())),
    }
}

fn gen_script(rng: &mut Rng, reader: bool, max_len: usize, span: usize) -> Vec<Resp> {
    let n = rng.below(max_len as u64 + 1) as usize;
    let mut v = vec![];
    for _ in 0..n {
        let r = match rng.below(20) {
            0..=10 => Resp::Data(rng.range(1, span.max(1) as u64) as usize),
            11 => Resp::Data(0),
            12 => Resp::Data(1 << 20),
            13 | 14 => Resp::Eof,
            15 | 16 | 17 => Resp::Intr,
            18 => {
                if reader {
                    *rng.pick(&[Resp::ErrOther, Resp::ErrWouldBlock, Resp::ErrUnexpectedEof])
                } else {
                    *rng.pick(&[Resp::ErrOther, Resp::ErrWouldBlock])
                }
            }
            _ => Resp::Data(1),
        };
        v.push(r);
    }
    v
}

/// In the std variants the operation names carry the prefix `std_`: the model side then answers with
/// the Spec (the std contract) instead of the model of `io_nostd.rs`.
pub const OP_PREFIX: &str = if cfg!(feature = "std") { "std_" } else { "" };

pub fn exec_line(line: &str) -> Option<String> {
    let t: Vec<&str> = line.split(' ').collect();
    if t.first() != Some(&"io") {
        return None;
    }
    let op = t.get(1).copied()?;
    let op = op.strip_prefix(OP_PREFIX).unwrap_or(op);
    Some(match (op, &t[2..]) {
        ("read_exact", [sc, src, need]) => op_read_exact(&parse_script(sc)?, &unhex(src)?, need.parse().ok()?),
        ("read_to_end", [sc, src]) => op_read_to_end(&parse_script(sc)?, &unhex(src)?),
        ("take", [limit, sc, src, reqs]) => {
            let reqs: Vec<usize> = if *reqs == "-" { vec![] } else { reqs.split(',').map(|x| x.parse().ok()).collect::<Option<_>>()? };
            op_take(limit.parse().ok()?, &parse_script(sc)?, &unhex(src)?, &reqs)
        }
        ("write_all", [sc, buf]) => op_write_all(&parse_script(sc)?, &unhex(buf)?),
        ("slice_read", [s, req]) => op_slice_read(&unhex(s)?, req.parse().ok()?),
        ("slice_read_exact", [s, need]) => op_slice_read_exact(&unhex(s)?, need.parse().ok()?),
        ("slice_write", [room, d]) => op_slice_write(room.parse().ok()?, &unhex(d)?),
        ("slice_write_all", [room, d]) => op_slice_write_all(room.parse().ok()?, &unhex(d)?),
        ("vec_write", [v, d]) => op_vec_write(&unhex(v)?, &unhex(d)?),
        _ => return None,
    })
}

fn helper_cases(run: &mut Run, rng: &mut Rng, n: usize) {
    let mut push = |run: &mut Run, line: String| {
        let line = format!("io {}{}", OP_PREFIX, &line[3..]);
        let a = exec_line(&line).unwrap_or_else(|| "bad-op".into());
        let key = line.split(' ').nth(1).unwrap_or("?").trim_start_matches("std_").to_string();
        run.stat(&format!("op:{}", key), 1);
        run.stat(&format!("answer:{}:{}", key, a.split(' ').take(if a.starts_with("err") { 2 } else { 1 }).collect::<Vec<_>>().join("_")), 1);
        run.case(line, a);
    };
    // corpus: the cases named in DESIGN.md / Props/C18.lean
    for l in [
        "io read_exact i,d2,z 010203 3",
        "io read_exact d2,i,d5 01020304 3",
        "io read_exact - 0102 0",
        "io read_exact - 0102 1",
        "io read_exact z,d2 0102 2",
        "io read_exact d0,d2 0102 2",
        "io read_exact eo,d2 0102 2",
        "io read_exact d1,ew,d1 0102 2",
        "io read_to_end i,d3 070809",
        "io read_to_end d2,z,d1 070809",
        "io read_to_end d2,eo 070809",
        "io take 3 d9 01020304 10,1",
        "io take 0 d9 01020304 4",
        "io take 4294967296 d3 010203 3,3",
        "io take 2 i,d1,eo,d5 01020304 2,2,2,2,2",
        "io write_all d1,i,z 0506",
        "io write_all - -",
        "io write_all - 01",
        "io write_all d1,d1,d1 010203",
        "io write_all d2,eo 010203",
        "io slice_read 010203 2",
        "io slice_read 010203 1",
        "io slice_read 01 5",
        "io slice_read - 3",
        "io slice_read_exact 010203 2",
        "io slice_read_exact 010203 4",
        "io slice_write 2 010203",
        "io slice_write 5 010203",
        "io slice_write 0 01",
        "io slice_write_all 2 010203",
        "io slice_write_all 3 010203",
        "io vec_write 0102 0304",
        "io vec_write - -",
    ] {
        push(run, l.to_string());
    }
    for _ in 0..n {
        let len = *rng.pick(&[0usize, 1, 2, 3, 5, 8, 17, 40]);
        let src = rng.bytes(len);
        match rng.below(9) {
            0 | 1 | 2 => {
                let need = *rng.pick(&[0usize, 1, 2, 3, len, len + 1, len.saturating_sub(1), 7]);
                let sc = gen_script(rng, true, 6, need.max(2));
                push(run, format!("io read_exact {} {} {}", script_str(&sc), hex(&src), need));
            }
            3 => {
                // at most 17 bytes: std's first probe asks for 32 bytes, the no_std helper for 16 KiB; with a
                // stream shorter than both, what a `data k` response delivers does not depend on the request
                let src = &src[..src.len().min(17)];
                let sc = gen_script(rng, true, 6, len.max(2));
                push(run, format!("io read_to_end {} {}", script_str(&sc), hex(src)));
            }
            4 | 5 => {
                let limit = *rng.pick(&[0u64, 1, 2, 3, len as u64, len as u64 + 1, 1 << 32, u64::MAX >> 1]);
                let sc = gen_script(rng, true, 6, len.max(2));
                let nreq = rng.range(1, 5) as usize;
                let reqs: Vec<String> = (0..nreq).map(|_| rng.pick(&[0usize, 1, 2, 3, 5, 64]).to_string()).collect();
                push(run, format!("io take {} {} {} {}", limit, script_str(&sc), hex(&src), reqs.join(",")));
            }
            6 | 7 => {
                let sc = gen_script(rng, false, 6, len.max(2));
                push(run, format!("io write_all {} {}", script_str(&sc), hex(&src)));
            }
            _ => {
                let k = *rng.pick(&[0usize, 1, 2, len, len + 3]);
                match rng.below(6) {
                    0 => push(run, format!("io slice_read {} {}", hex(&src), k)),
                    1 => push(run, format!("io slice_read_exact {} {}", hex(&src), k)),
                    2 => push(run, format!("io slice_write {} {}", k, hex(&src))),
                    3 => push(run, format!("io slice_write_all {} {}", k, hex(&src))),
                    _ => {
                        let v = rng.bytes(k.min(4));
                        push(run, format!("io vec_write {} {}", hex(&v), hex(&src)))
                    }
                }
            }
        }
    }
}

// ------------------------------------------------------------------------------------------------
// codec-level cases (compared across the four builds)

fn mixed_data(rng: &mut Rng, len: usize, kind: u64) -> Vec<u8> {
    match kind % 4 {
        0 => rng.bytes(len),
        1 => (0..len).map(|i| (i % 7) as u8 + b'a').collect(),
        2 => {
            // text-like: words from a small dictionary
            let words: [&[u8]; 6] = [b"alpha ", b"beta ", b"gamma-delta ", b"zstd ", b"0123456789 ", b"\n"];
            let mut v = Vec::with_capacity(len + 16);
            while v.len() < len {
                v.extend_from_slice(words[rng.below(6) as usize]);
            }
            v.truncate(len);
            v
        }
        _ => {
            // runs + noise
            let mut v = Vec::with_capacity(len + 300);
            while v.len() < len {
                if rng.chance(1, 2) {
                    let b = rng.next() as u8;
                    let n = rng.range(1, 300) as usize;
                    v.extend(std::iter::repeat(b).take(n));
                } else {
                    let n = rng.range(1, 60) as usize;
                    v.extend(rng.bytes(n));
                }
            }
            v.truncate(len);
            v
        }
    }
}

/// variant-independent name of a decode error: the chain of enum variant names, nothing from `io::Error`
fn canon_dbg(s: &str) -> String {
    let mut cut = s.len();
    for pat in ["source", "Error {", "Custom", "Os {", "Kind(", "kind:"] {
        if let Some(i) = s.find(pat) {
            cut = cut.min(i);
        }
    }
    let mut out = String::new();
    let mut last_sep = true;
    for c in s[..cut].chars() {
        if c.is_ascii_alphabetic() || c == '_' {
            out.push(c);
            last_sep = false;
        } else if !last_sep {
            out.push('.');
            last_sep = true;
        }
    }
    out.trim_end_matches('.').to_string()
}

fn level_name(l: CompressionLevel) -> &'static str {
    match l {
        CompressionLevel::Uncompressed => "L0",
        CompressionLevel::Fastest => "L1",
        _ => "L?",
    }
}

/// normal form of a frame for the hash-on / hash-off relation: checksum bit cleared, trailer dropped
fn normalise(frame: &[u8]) -> Vec<u8> {
    if cfg!(feature = "hash") && frame.len() >= 9 {
        let mut v = frame[..frame.len() - 4].to_vec();
        v[4] &= !4u8;
        v
    } else {
        frame.to_vec()
    }
}

struct Out {
    digests: Vec<String>,
    frames: Vec<String>,
}

fn compress_cases(run: &mut Run, rng: &mut Rng, out: &mut Out, thorough: bool) -> Vec<(String, Vec<u8>, Vec<u8>)> {
    let mut sizes: Vec<usize> = vec![0, 1, 2, 35, 100, 1000, 4096, 131071, 131072, 131073, 300_000];
    if thorough {
        sizes.extend([65536, 262144, 262145, 1 << 20]);
    }
    let mut produced = vec![];
    let mut id = 0;
    for &len in &sizes {
        for kind in 0..4u64 {
            if len > 200_000 && kind >= 2 && !thorough {
                continue;
            }
            let data = mixed_data(rng, len, kind);
            for level in [CompressionLevel::Uncompressed, CompressionLevel::Fastest] {
                id += 1;
                let cid = format!("c{}:{}:k{}:{}", id, len, kind, level_name(level));
                let r = guarded(|| compress_to_vec(&data[..], level));
                run.stat("codec:compress", 1);
                match r {
                    Err(e) => {
                        out.digests.push(format!("all {} vec fault", cid));
                        run.fail("C18", "compress_panics", format!("compress_to_vec panicked on {} bytes ({}): {}", len, level_name(level), e), format!("# {}", cid));
                    }
                    Ok(frame) => {
                        run.oracle_checks += 2;
                        // implementation-only oracle 1: the frame decodes back to the input in THIS build
                        let back = guarded(|| {
                            let mut dec = StreamingDecoder::new(&frame[..]).map_err(|e| format!("{:?}", e))?;
                            let mut v = Vec::new();
                            let mut buf = [0u8; 4096];
                            loop {
                                match dec.read(&mut buf) {
                                    Ok(0) => break,
                                    Ok(n) => v.extend_from_slice(&buf[..n]),
                                    Err(_) => return Err("read error".to_string()),
                                }
                            }
                            Ok::<Vec<u8>, String>(v)
                        });
                        if !matches!(&back, Ok(Ok(v)) if *v == data) {
                            run.fail("C18", "roundtrip_in_build", format!("{}: frame does not decode back to the input in this build", cid), format!("# {}", cid));
                        }
                        // oracle 2: checksum flag and trailer are present iff this build has the feature
                        let flag = frame.len() > 4 && frame[4] & 4 != 0;
                        if flag != cfg!(feature = "hash") {
                            run.fail("C18", "checksum_flag_vs_feature", format!("{}: checksum flag {} in a build with hash={}", cid, flag, cfg!(feature = "hash")), format!("# {}", cid));
                        }
                        if flag {
                            run.oracle_checks += 1;
                            let want = (xxh64(&data, 0) as u32).to_le_bytes();
                            if frame[frame.len() - 4..] != want {
                                run.fail("C18", "trailer_not_xxh64", format!("{}: trailer is not the low 32 bits of XXH64 of the input", cid), format!("# {}", cid));
                            }
                        }
                        out.digests.push(format!("hash {} vec frame={}", cid, digest(&frame)));
                        out.digests.push(format!("all {} vec norm={}", cid, digest(&normalise(&frame))));
                        if frame.len() <= 600 {
                            out.frames.push(format!("{} {}", cid, hex(&frame)));
                        }
                        // the same input through a fragmenting reader and a FrameCompressor: same frame
                        let chunk = *rng.pick(&[1usize, 3, 100, 4096, 70000, 131072]);
                        let r2 = guarded(|| {
                            let mut rd = SReader::new(&data, vec![]);
                            rd.then_chunk = Some(chunk);
                            let mut w = SWriter::new(vec![Resp::Data(1), Resp::Intr, Resp::Data(7)]);
                            w.then_chunk = Some(*[1usize << 20, 1000, 13].get((id % 3) as usize).unwrap());
                            let mut fc = FrameCompressor::new(level);
                            fc.set_source(&mut rd);
                            fc.set_drain(&mut w);
                            fc.compress();
                            drop(fc);
                            w.sink
                        });
                        run.stat("codec:compress_fragmented", 1);
                        match r2 {
                            Ok(f2) => {
                                run.oracle_checks += 1;
                                if f2 != frame {
                                    run.fail("C18", "fragmented_source_changes_frame", format!("{}: reading the input in chunks of {} changes the frame", cid, chunk), format!("# {}", cid));
                                }
                                out.digests.push(format!("hash {} frag{} frame={}", cid, chunk, digest(&f2)));
                            }
                            Err(_) => out.digests.push(format!("all {} frag{} fault", cid, chunk)),
                        }
                        if len <= 300_000 {
                            produced.push((cid, data.clone(), frame));
                        }
                    }
                }
            }
        }
    }
    // writers that fail / readers that fail: the compressor panics (`unwrap`) in every build alike
    let data = mixed_data(rng, 5000, 2);
    for (name, rs, ws) in [
        ("w_err", vec![], vec![Resp::Data(3), Resp::ErrOther]),
        ("w_zero", vec![], vec![Resp::Data(3), Resp::Eof]),
        ("w_intr", vec![], vec![Resp::Intr, Resp::Data(2), Resp::Intr]),
        ("r_intr", vec![Resp::Data(10), Resp::Intr], vec![]),
        ("r_err", vec![Resp::Data(10), Resp::ErrOther], vec![]),
        ("r_earlyeof", vec![Resp::Data(10), Resp::Eof, Resp::Data(10)], vec![]),
    ] {
        let r = guarded(|| {
            let mut rd = SReader::new(&data, rs.clone());
            rd.then_chunk = Some(1000);
            let mut w = SWriter::new(ws.clone());
            w.then_chunk = Some(1 << 20);
            compress(&mut rd, &mut w, CompressionLevel::Fastest);
            (w.sink, rd.src.len())
        });
        run.stat("codec:compress_failing_io", 1);
        match r {
            Ok((sink, rem)) => out.digests.push(format!("all cf:{} norm={} rem={}", name, digest(&normalise(&sink)), rem)),
            Err(_) => out.digests.push(format!("all cf:{} fault", name)),
        }
    }
    produced
}

fn reader_plan(rng: &mut Rng, flen: usize, which: u64) -> (String, Vec<Resp>, Option<usize>) {
    match which % 7 {
        0 => ("whole".into(), vec![], Some(1 << 30)),
        1 => ("bytewise".into(), vec![], Some(1)),
        2 => {
            let c = rng.range(2, 9) as usize;
            (format!("chunks{}", c), vec![], Some(c))
        }
        3 => {
            // interrupts sprinkled between small reads
            let mut s = vec![];
            for _ in 0..40 {
                if rng.chance(1, 3) {
                    s.push(Resp::Intr);
                } else {
                    s.push(Resp::Data(rng.range(1, 50) as usize));
                }
            }
            ("interrupts".into(), s, Some(977))
        }
        4 => {
            // a hard error after p bytes
            let p = rng.below(flen as u64 + 1) as usize;
            (format!("err@{}", p), vec![Resp::Data(p.max(1)), *rng.pick(&[Resp::ErrOther, Resp::ErrWouldBlock])], Some(1 << 30))
        }
        5 => {
            // early end of input after p bytes
            let p = rng.below(flen as u64 + 1) as usize;
            let mut s = vec![];
            let mut left = p;
            while left > 0 {
                let k = (rng.range(1, 64) as usize).min(left);
                s.push(Resp::Data(k));
                left -= k;
            }
            (format!("eof@{}", p), s, None)
        }
        _ => {
            // spurious Ok(0) in the middle, then more data
            let p = rng.below(flen as u64 + 1) as usize;
            (format!("zero@{}", p), vec![Resp::Data(p.max(1)), Resp::Eof], Some(1 << 30))
        }
    }
}

fn decode_streaming(frame: &[u8], script: Vec<Resp>, then: Option<usize>, bufsz: usize) -> String {
    let r = guarded(|| {
        let mut rd = SReader::new(frame, script);
        rd.then_chunk = then;
        let mut dec = match StreamingDecoder::new(&mut rd) {
            Ok(d) => d,
            Err(e) => return format!("err new {}", canon_dbg(&format!("{:?}", e))),
        };
        let mut out = Vec::new();
        let mut buf = vec![0u8; bufsz];
        loop {
            match dec.read(&mut buf) {
                Ok(0) => break,
                Ok(n) => out.extend_from_slice(&buf[..n]),
                Err(e) => return format!("err read {} after={}", kind_str(e.kind()), digest(&out)),
            }
        }
        let cks = dec.decoder.get_checksum_from_data();
        drop(dec);
        format!("ok {} cks={:?} rem={}", digest(&out), cks, rd.src.len())
    });
    r.unwrap_or_else(|_| "fault".into())
}

fn decode_manual(frame: &[u8], script: Vec<Resp>, then: Option<usize>, strat: u64, wscript: Vec<Resp>, wthen: Option<usize>) -> String {
    let r = guarded(|| {
        let mut rd = SReader::new(frame, script);
        rd.then_chunk = then;
        let mut dec = FrameDecoder::new();
        if let Err(e) = dec.init(&mut rd) {
            return format!("err init {}", canon_dbg(&format!("{:?}", e)));
        }
        let mut w = SWriter::new(wscript);
        w.then_chunk = wthen;
        let mut log = String::new();
        let mut rounds = 0;
        while !dec.is_finished() && rounds < 100_000 {
            rounds += 1;
            let s = match strat % 3 {
                0 => BlockDecodingStrategy::All,
                1 => BlockDecodingStrategy::UptoBlocks(1),
                _ => BlockDecodingStrategy::UptoBytes(1000),
            };
            if let Err(e) = dec.decode_blocks(&mut rd, s) {
                return format!("err decode {} out={} blocks={}", canon_dbg(&format!("{:?}", e)), digest(&w.sink), dec.blocks_decoded());
            }
            match dec.collect_to_writer(&mut w) {
                Ok(n) => {
                    if log.len() < 60 {
                        log.push_str(&format!("{},", n));
                    }
                }
                Err(e) => return format!("err collect {} out={} can={}", kind_str(e.kind()), digest(&w.sink), dec.can_collect()),
            }
        }
        // drain what is left (a short writer may need several calls)
        let mut spins = 0;
        while dec.can_collect() > 0 && spins < 1000 {
            spins += 1;
            match dec.collect_to_writer(&mut w) {
                Ok(0) => break,
                Ok(_) => {}
                Err(e) => return format!("err collect {} out={} can={}", kind_str(e.kind()), digest(&w.sink), dec.can_collect()),
            }
        }
        format!("ok {} left={} read={} cks={:?} first={}", digest(&w.sink), dec.can_collect(), dec.bytes_read_from_source(), dec.get_checksum_from_data(), log)
    });
    r.unwrap_or_else(|_| "fault".into())
}

fn decode_cases(run: &mut Run, seed: u64, out: &mut Out, frames: &[(String, String, Vec<u8>, Option<Vec<u8>>)], per_frame: usize) {
    for (scope, fid, frame, expect) in frames {
        for j in 0..per_frame {
            // one RNG stream per case: the cases of a frame do not depend on the other frames (whose
            // lengths differ between hash and no-hash builds)
            let rng = &mut Rng::new(seed ^ xxh64(fid.as_bytes(), j as u64));
            let which = j as u64 + rng.below(7);
            let (rname, script, then) = reader_plan(rng, frame.len(), which);
            let benign = rname == "whole" || rname == "bytewise" || rname.starts_with("chunks") || rname == "interrupts";
            if j % 2 == 0 {
                let bufsz = *rng.pick(&[1usize, 7, 100, 4096, 200_000]);
                let a = decode_streaming(frame, script, then, bufsz);
                run.stat("codec:decode_streaming", 1);
                run.stat(&format!("codec:reader:{}", rname.split('@').next().unwrap().trim_end_matches(char::is_numeric)), 1);
                if benign {
                    if let Some(exp) = expect {
                        run.oracle_checks += 1;
                        if !a.starts_with(&format!("ok {} ", digest(exp))) {
                            run.fail("C18", "decode_wrong_under_fragmentation", format!("{} {} buf={}: {}", fid, rname, bufsz, a), format!("# {} {}", fid, rname));
                        }
                    }
                }
                out.digests.push(format!("{} d{}:{}:{}:s{} {}", scope, j, fid, rname, bufsz, a));
            } else {
                let strat = rng.below(3);
                let (wname, wscript, wthen): (&str, Vec<Resp>, Option<usize>) = match rng.below(5) {
                    0 => ("wfull", vec![], Some(1 << 30)),
                    1 => ("wshort", vec![], Some(5)),
                    2 => ("wzero", vec![Resp::Data(10), Resp::Eof, Resp::Data(3), Resp::Eof], Some(1 << 30)),
                    3 => ("werr", vec![Resp::Data(10), Resp::ErrOther], Some(1 << 30)),
                    _ => ("wblock", vec![Resp::Data(100), Resp::ErrWouldBlock, Resp::Data(5), Resp::ErrWouldBlock], Some(1 << 30)),
                };
                let a = decode_manual(frame, script, then, strat, wscript, wthen);
                run.stat("codec:decode_manual", 1);
                run.stat(&format!("codec:writer:{}", wname), 1);
                if benign && (wname == "wfull" || wname == "wshort") {
                    if let Some(exp) = expect {
                        run.oracle_checks += 1;
                        if !a.starts_with(&format!("ok {} ", digest(exp))) {
                            run.fail("C18", "decode_wrong_under_fragmentation", format!("{} {} {} strat={}: {}", fid, rname, wname, strat, a), format!("# {} {}", fid, rname));
                        }
                    }
                }
                out.digests.push(format!("{} d{}:{}:{}:m{}:{} {}", scope, j, fid, rname, strat, wname, a));
            }
        }
    }
}

/// Two concatenated reference frames through the slice-to-slice call, the first call ending at every position of the last
/// 6 bytes of frame 1 (inside its checksum when it has one): the frame boundary must be found in every build — the caller
/// advances by the reported count and then starts frame 2 with `reset` on the rest.
fn from_to_boundary_cases(run: &mut Run, dir: &str, out: &mut Out) {
    let mut names: Vec<String> = std::fs::read_dir(dir).map(|d| d.filter_map(|e| e.ok()).map(|e| e.file_name().to_string_lossy().to_string()).collect()).unwrap_or_default();
    names.sort();
    let stems: Vec<String> = names.iter().filter_map(|n| n.strip_suffix(".zst").map(|s| s.to_string())).filter(|s| !s.starts_with("dict_")).collect();
    for pair in stems.windows(2).take(4) {
        let f1 = std::fs::read(format!("{}/{}.zst", dir, pair[0])).unwrap_or_default();
        let f2 = std::fs::read(format!("{}/{}.zst", dir, pair[1])).unwrap_or_default();
        let e1 = std::fs::read(format!("{}/{}.raw", dir, pair[0])).unwrap_or_default();
        let e2 = std::fs::read(format!("{}/{}.raw", dir, pair[1])).unwrap_or_default();
        if f1.len() < 8 || e1.len() > 400_000 || e2.len() > 400_000 {
            continue;
        }
        let mut both = f1.clone();
        both.extend_from_slice(&f2);
        for back in 0..=6usize {
            let cut = f1.len() - back;
            let a = guarded(|| {
                let mut dec = FrameDecoder::new();
                let mut outbuf = vec![0u8; e1.len() + 64];
                let mut pos = 0usize;
                let mut got: Vec<u8> = vec![];
                // first call sees the input up to `cut`, the following calls everything that is left
                let mut limit = cut;
                let mut rounds = 0;
                while rounds < 200 {
                    rounds += 1;
                    let (r, w) = match dec.decode_from_to(&both[pos..limit.max(pos)], &mut outbuf) {
                        Ok(x) => x,
                        Err(e) => return format!("err from_to {}", canon_dbg(&format!("{:?}", e))),
                    };
                    pos += r;
                    got.extend_from_slice(&outbuf[..w]);
                    limit = both.len();
                    if dec.is_finished() && dec.can_collect() == 0 && r == 0 && w == 0 {
                        break;
                    }
                }
                // frame 2 from where frame 1 ended, according to the counts the calls reported
                let mut src = &both[pos.min(both.len())..];
                let second = match dec.reset(&mut src) {
                    Err(e) => format!("err reset {}", canon_dbg(&format!("{:?}", e))),
                    Ok(()) => match dec.decode_blocks(&mut src, BlockDecodingStrategy::All) {
                        Err(e) => format!("err decode {}", canon_dbg(&format!("{:?}", e))),
                        Ok(_) => format!("ok {}", digest(&dec.collect().unwrap_or_default())),
                    },
                };
                format!("ok {} consumed={} second={}", digest(&got), pos, second)
            })
            .unwrap_or_else(|_| "fault".into());
            run.oracle_checks += 1;
            let want = format!("ok {} consumed={} second=ok {}", digest(&e1), f1.len(), digest(&e2));
            if a != want {
                run.fail("C18", "from_to_frame_boundary", format!("variant {}: frames {} + {} through decode_from_to with the first call ending {} bytes before the end of frame 1: `{}`, expected `{}`", variant(), pair[0], pair[1], back, a, want), format!("# frames {} + {} concatenated, first decode_from_to call sees {} of {} bytes of frame 1", pair[0], pair[1], cut, f1.len()));
            }
            out.digests.push(format!("all fromto:{}+{}:-{} {}", pair[0], pair[1], back, a));
            run.stat("codec:from_to_boundary_cases", 1);
        }
    }
}

/// ONE decoder (with the reference dictionary registered, when there is one) decoding all reference frames one after
/// the other, dictionary frames in between and at the end: per-frame state that a build resets only under one of the
/// features shows up as a digest line that differs between builds (scope `all`: identical in all four).
fn reuse_cases(run: &mut Run, dir: &str, out: &mut Out) {
    let mut names: Vec<String> = std::fs::read_dir(dir).map(|d| d.filter_map(|e| e.ok()).map(|e| e.file_name().to_string_lossy().to_string()).collect()).unwrap_or_default();
    names.sort();
    let stems: Vec<String> = names.iter().filter_map(|n| n.strip_suffix(".zst").map(|s| s.to_string())).collect();
    let (dicty, plain): (Vec<String>, Vec<String>) = stems.into_iter().partition(|s| s.starts_with("dict_"));
    // order: plain …, dict frame, plain (big) …, dict frame again, …
    let mut order: Vec<String> = vec![];
    for (k, p) in plain.iter().enumerate() {
        order.push(p.clone());
        if !dicty.is_empty() && (k % 3 == 2 || k + 1 == plain.len()) {
            order.push(dicty[(k / 3) % dicty.len()].clone());
        }
    }
    for strat in 0..2u64 {
        let mut dec = FrameDecoder::new();
        let mut have_dict = false;
        if let Ok(raw) = std::fs::read(format!("{}/reference.dict", dir)) {
            if let Ok(d) = ruzstd::decoding::Dictionary::decode_dict(&raw) {
                have_dict = dec.add_dict(d).is_ok();
            }
        }
        run.stat("codec:reuse_histories", 1);
        for (k, stem) in order.iter().enumerate() {
            if stem.starts_with("dict_") && !have_dict {
                continue;
            }
            let frame = std::fs::read(format!("{}/{}.zst", dir, stem)).unwrap_or_default();
            let expect = std::fs::read(format!("{}/{}.raw", dir, stem)).ok();
            let a = guarded(|| {
                let mut src = &frame[..];
                if let Err(e) = dec.reset(&mut src) {
                    return format!("err reset {}", canon_dbg(&format!("{:?}", e)));
                }
                let mut got: Vec<u8> = vec![];
                let mut rounds = 0;
                while !dec.is_finished() && rounds < 100_000 {
                    rounds += 1;
                    let s = if strat == 0 { BlockDecodingStrategy::All } else { BlockDecodingStrategy::UptoBlocks(1) };
                    if let Err(e) = dec.decode_blocks(&mut src, s) {
                        return format!("err decode {} out={}", canon_dbg(&format!("{:?}", e)), digest(&got));
                    }
                    if strat == 1 {
                        if let Some(v) = dec.collect() {
                            got.extend_from_slice(&v);
                        }
                    }
                }
                if let Some(v) = dec.collect() {
                    got.extend_from_slice(&v);
                }
                format!("ok {} read={}", digest(&got), dec.bytes_read_from_source())
            })
            .unwrap_or_else(|_| "fault".into());
            run.stat("codec:reuse_frames", 1);
            if stem.starts_with("dict_") {
                run.stat("codec:reuse_dict_frames", 1);
            }
            if let Some(exp) = &expect {
                run.oracle_checks += 1;
                if !a.starts_with(&format!("ok {} ", digest(exp))) {
                    run.fail("C18", "reused_decoder_wrong", format!("variant {}: frame {} as number {} on a reused decoder (strategy {}): {}", variant(), stem, k, strat, a), format!("# reference frames in order {:?}, one FrameDecoder, strategy {}", &order[..=k], strat));
                }
            }
            out.digests.push(format!("all reuse{}:{}:{} {}", strat, k, stem, a));
        }
    }
}

pub fn variant() -> String {
    format!("{}-{}", if cfg!(feature = "std") { "std" } else { "nostd" }, if cfg!(feature = "hash") { "hash" } else { "nohash" })
}

pub fn run(opts: &Opts) -> Run {
    let mut run = Run::new("io");
    let mut rng = Rng::new(opts.seed);
    run.notes.push(format!("variant {}", variant()));
    if let Some(p) = &opts.replay {
        for l in std::fs::read_to_string(p).unwrap_or_default().lines() {
            if let Some(a) = exec_line(l) {
                run.case(l.to_string(), a);
            }
        }
        return run;
    }
    helper_cases(&mut run, &mut rng, if opts.thorough { 40_000 } else { 4_000 });
    let mut out = Out { digests: vec![], frames: vec![] };
    // codec level: a separate RNG stream so that the helper cases do not shift it
    let mut rng2 = Rng::new(opts.seed ^ 0xC18);
    let produced = compress_cases(&mut run, &mut rng2, &mut out, opts.thorough);
    let mut frames: Vec<(String, String, Vec<u8>, Option<Vec<u8>>)> = vec![];
    for (cid, data, frame) in produced {
        // frames written by this build: they differ between hash / no-hash builds
        frames.push(("hash".into(), cid, frame, Some(data)));
    }
    // frames from the reference compressor, identical bytes in all four builds
    if let Ok(dir) = std::env::var("VERIF_IO_FRAMES") {
        let mut names: Vec<_> = std::fs::read_dir(&dir).map(|d| d.filter_map(|e| e.ok()).map(|e| e.file_name().to_string_lossy().to_string()).collect()).unwrap_or_default();
        names.sort();
        for n in names {
            if let Some(stem) = n.strip_suffix(".zst") {
                let frame = std::fs::read(format!("{}/{}", dir, n)).unwrap_or_default();
                let expect = std::fs::read(format!("{}/{}.raw", dir, stem)).ok();
                if stem.starts_with("dict_") {
                    continue; // needs the dictionary: used by `reuse_cases` only
                }
                frames.push(("all".into(), format!("ref:{}", stem), frame, expect));
            }
        }
        reuse_cases(&mut run, &dir, &mut out);
        from_to_boundary_cases(&mut run, &dir, &mut out);
        run.stat("codec:reference_frames", frames.iter().filter(|f| f.0 == "all").count() as u64);
    }
    decode_cases(&mut run, opts.seed, &mut out, &frames, if opts.thorough { 28 } else { 8 });
    run.stat("codec:digest_lines", out.digests.len() as u64);
    let _ = std::fs::create_dir_all(&opts.out);
    let _ = std::fs::write(format!("{}/io.digests", opts.out), out.digests.join("\n") + "\n");
    let _ = std::fs::write(format!("{}/io.frames", opts.out), out.frames.join("\n") + "\n");
    for s in run.cases.iter().zip(run.impl_out.iter()).take(400).filter(|(c, _)| c.len() < 90).step_by(97).take(4) {
        run.samples.push(format!("{} => {}", s.0, s.1));
    }
    for d in out.digests.iter().step_by(out.digests.len() / 3 + 1).take(3) {
        run.samples.push(d.chars().take(200).collect());
    }
    run
}

pub fn replay_line(line: &str) -> Option<String> {
    exec_line(line)
}
