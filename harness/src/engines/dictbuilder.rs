//! Engine `dictbuilder` (C20): `ruzstd::dictionary::create_raw_dict_from_source` over a grid of
//! (source length, size estimate, dictionary size) and fragmenting readers.
//! Observed: panic / no panic, output length, termination within a deadline.
//! Oracles (implementation only): no panic; output length <= dict_size (the documented bound);
//! returns within the deadline.  The model predicts the output length (it is determined by the lengths
//! alone unless the sample has a shorter last chunk, see Driver/DictBuilder.lean).
use crate::util::*;
use std::io::Read;
use std::sync::mpsc;
use std::time::Duration;

struct FragReader {
    data: Vec<u8>,
    pos: usize,
    script: Vec<usize>,
    idx: usize,
    tail: Option<usize>,
}
impl Read for FragReader {
    fn read(&mut self, buf: &mut [u8]) -> std::io::Result<usize> {
        let lim = match self.script.get(self.idx) {
            Some(&k) => {
                self.idx += 1;
                k.max(1)
            }
            None => self.tail.map(|k| k.max(1)).unwrap_or(usize::MAX),
        };
        let n = buf.len().min(lim).min(self.data.len() - self.pos);
        buf[..n].copy_from_slice(&self.data[self.pos..self.pos + n]);
        self.pos += n;
        Ok(n)
    }
}

fn parse_script(s: &str) -> Option<(Vec<usize>, Option<usize>)> {
    if s == "-" {
        return Some((vec![], None));
    }
    let mut v = vec![];
    let mut tail = None;
    for t in s.split(',') {
        if let Some(k) = t.strip_prefix('*') {
            tail = Some(k.parse().ok()?);
        } else {
            v.push(t.parse().ok()?);
        }
    }
    Some((v, tail))
}

fn source_bytes(len: usize, kind: u64, seed: u64) -> Vec<u8> {
    let mut rng = Rng::new(seed ^ (len as u64) ^ (kind << 40));
    match kind % 3 {
        0 => rng.bytes(len),
        1 => vec![b'A'; len],
        _ => {
            let words: [&[u8]; 5] = [b"GET /index.html HTTP/1.1\r\n", b"Host: example.com\r\n", b"Accept: */*\r\n", b"{\"id\": 12345, \"name\": \"", b"\"}\n"];
            let mut v = Vec::with_capacity(len + 32);
            while v.len() < len {
                v.extend_from_slice(words[rng.below(5) as usize]);
            }
            v.truncate(len);
            v
        }
    }
}

enum Obs {
    Ok(usize),
    Panic(String),
    Timeout,
}

fn observe(len: usize, est: usize, dict: usize, script: &str, kind: u64, seed: u64, deadline: Duration) -> Obs {
    let (sc, tail) = parse_script(script).unwrap_or((vec![], None));
    let data = source_bytes(len, kind, seed);
    let (tx, rx) = mpsc::channel();
    // a worker thread, so that a hang is observed instead of suffered
    std::thread::Builder::new()
        .stack_size(16 << 20)
        .spawn(move || {
            let r = guarded(move || {
                let mut out = Vec::new();
                let rd = FragReader { data, pos: 0, script: sc, idx: 0, tail };
                ruzstd::dictionary::create_raw_dict_from_source(rd, est, &mut out, dict);
                out.len()
            });
            let _ = tx.send(r);
        })
        .expect("spawn");
    // wait in slices and keep the process-wide watchdog informed: this engine has its own (longer) deadline
    let t0 = std::time::Instant::now();
    loop {
        match rx.recv_timeout(Duration::from_secs(2)) {
            Ok(Ok(n)) => return Obs::Ok(n),
            Ok(Err(p)) => return Obs::Panic(p),
            Err(mpsc::RecvTimeoutError::Timeout) if t0.elapsed() < deadline => crate::util::watchdog::beat(None),
            Err(_) => return Obs::Timeout,
        }
    }
}

fn classify_panic(len: usize, est: usize, msg: &str) -> String {
    if msg.contains("empty range") && len == 0 {
        "F9:panic:empty_source".into()
    } else if msg.contains("divide by zero") && (est as u64 % (1u64 << 32)) < 2 {
        "F11:panic:estimate_truncated_to_u32".into()
    } else {
        let loc = msg.rsplit(" @ ").next().unwrap_or("?");
        let loc = loc.rsplit('/').next().unwrap_or(loc);
        format!("dictbuilder_panic:{}", loc)
    }
}

pub fn run(opts: &Opts) -> Run {
    let mut run = Run::new("dictbuilder");
    let mut rng = Rng::new(opts.seed);
    let deadline = Duration::from_secs(if opts.thorough { 300 } else { 60 });
    let mut grid: Vec<(usize, usize, usize, String, u64)> = vec![];
    // corpus: the witnesses of F7, F9, F11 and the fragmenting-reader case
    for (l, e, d, s) in [
        (0usize, 100usize, 64usize, "-"),
        (0, 16, 0, "-"),
        (0, 0, 64, "-"),
        (20000, 20000, 64, "-"),
        (20000, 20000, 4096, "-"),
        (10, 10, 4, "-"),
        (5, 5, 0, "*1"),
        (1000, 1usize << 32, 64, "-"),
        (1000, (1usize << 32) + 1, 64, "-"),
        (20000, 20000, 64, "*10"),
        (20000, 20000, 100000, "-"),
        (40, 40, 64, "8,8,*100"),
        // the large-epoch branch of compute_epoch_info (epoch_size >= 10 000 with two or more epochs: declared
        // source size >= 320 000 and dict_size >= 4096), with k-mer counts that are / are not multiples of the
        // number of epochs; the declared size is what counts, the source itself may be short
        (20000, 480_016, 4096, "-"),
        (20000, 480_000, 4096, "-"),
        (20000, 400_000, 6144, "-"),
        (1000, 1_000_001, 8192, "*100"),
        (3000, 655_360 + 16, 10_000, "-"),
        // size estimates of 512 KiB and more for which the SAMPLE (estimate / 256 bytes) ends in a chunk of 1 … 15 bytes
        // (shorter than a k-mer), with a source longer than the sample — over-estimating is what the documentation recommends
        (2300, 525_568, 64, "-"),
        (2300, 524_288 + 256 * 15, 64, "-"),
        (5000, 525_568 + 256 * 2048, 4096, "-"),
        (2300, 524_288 + 256, 1000, "*100"),
        (2300, 524_288, 64, "-"),
    ] {
        grid.push((l, e, d, s.to_string(), 0));
    }
    let lens: &[usize] = &[0, 15, 16, 17, 99, 100, 101, 2047, 2048, 2049, 127_999, 128_000, 128_001];
    let dicts_small: &[usize] = &[0, 1, 64, 2048, 4096, 100_000];
    for &len in lens {
        let big = len > 100_000;
        let mut ests = vec![len / 2, len, len * 2];
        if len < 200 {
            ests.extend([0, 15, 16]);
        }
        ests.dedup();
        for &est in &ests {
            let dicts: Vec<usize> = if big && !opts.thorough { vec![64, 4096] } else { dicts_small.to_vec() };
            for &dict in &dicts {
                let mut scripts: Vec<String> = vec!["-".into()];
                if big {
                    scripts.push("*100000".into());
                    if opts.thorough {
                        scripts.push("*4096".into());
                    }
                } else {
                    scripts.push(format!("*{}", rng.pick(&[1u64, 7, 100])));
                    scripts.push(format!("{},{},*{}", rng.range(1, 20), rng.range(1, 200), rng.pick(&[16u64, 4096, 128_000])));
                    if len > 1000 && opts.thorough {
                        scripts.push("*1".into());
                    }
                }
                for s in scripts {
                    // the real scoring is quadratic in the sample and runs once per 100-byte read: on the big
                    // sources the quick tier uses random bytes only with the small (half) estimate
                    let kind = if big && !opts.thorough { if est < len { 0 } else if est == len { 2 } else { 1 } } else { rng.below(3) };
                    grid.push((len, est, dict, s, kind));
                }
            }
        }
    }
    // random points
    let extra = if opts.thorough { 600 } else { 150 };
    for _ in 0..extra {
        let len = match rng.below(4) {
            0 => rng.below(40) as usize,
            1 => rng.below(3000) as usize,
            2 => rng.range(3000, 20_000) as usize,
            _ => rng.range(20_000, if opts.thorough { 300_000 } else { 60_000 }) as usize,
        };
        let est = match rng.below(5) {
            0 => len / 2,
            1 => len * 2,
            2 => rng.below(2 * len as u64 + 20) as usize,
            _ => len,
        };
        let dict = *rng.pick(&[0usize, 1, 15, 16, 64, 100, 1000, 2048, 5000, 65536, 1 << 20]);
        let s = match rng.below(4) {
            0 => "-".to_string(),
            1 => format!("*{}", rng.pick(&[3u64, 16, 100, 1000, 128_000, 200_000])),
            2 => format!("{},{},{},*{}", rng.range(1, 50), rng.range(1, 50), rng.range(1, 5000), rng.pick(&[50u64, 5000])),
            _ => format!("{},*{}", rng.range(1, 100_000), 1 << 20),
        };
        // reads of a few bytes on a large source make the real code cubic (one best-segment search per read)
        let tiny = s.contains("*3") || s.contains("*16") || s.contains("*50");
        if tiny && len > 30_000 {
            continue;
        }
        grid.push((len, est, dict, s, rng.below(3)));
    }
    let mut stopped = false;
    for (len, est, dict, script, kind) in grid {
        if stopped {
            break;
        }
        let t0 = std::time::Instant::now();
        let obs = observe(len, est, dict, &script, kind, opts.seed, deadline);
        let ms = t0.elapsed().as_millis() as u64;
        run.stat("time_ms_total", ms);
        if ms > 500 {
            run.stat("cases_over_500ms", 1);
            if std::env::var("VERIF_DICT_TIMES").is_ok() {
                eprintln!("{} ms: {} {} {} {} kind{}", ms, len, est, dict, script, kind);
            }
        }
        let replay = format!("dictbuilder run {} {} {} {} -", len, est, dict, script);
        run.oracle_checks += 3;
        run.stat(if est < 16 { "path:small" } else { "path:sampled" }, 1);
        run.stat(if script == "-" { "reader:whole" } else { "reader:fragmenting" }, 1);
        let (obs_s, answer) = match &obs {
            Obs::Ok(n) => {
                run.stat("outcome:ok", 1);
                if *n > dict {
                    run.stat("outcome:ok_but_over_dict_size", 1);
                    let sig = if est < 16 { "F7:size_exceeded:small_path" } else { "F7:size_exceeded:pool" };
                    run.fail("C20", sig, format!("source {} bytes, estimate {}, dict_size {} ({}): {} bytes written, the documented bound is dict_size", len, est, dict, script, n), replay.clone());
                } else if *n == dict {
                    run.stat("outcome:exactly_dict_size", 1);
                } else if *n == 0 {
                    run.stat("outcome:empty_dictionary", 1);
                }
                (n.to_string(), format!("ok {}", n))
            }
            Obs::Panic(p) => {
                run.stat("outcome:panic", 1);
                run.fail("C20", &classify_panic(len, est, p), format!("source {} bytes, estimate {}, dict_size {} ({}): panic {}", len, est, dict, script, p), replay.clone());
                ("-".to_string(), "fault".to_string())
            }
            Obs::Timeout => {
                run.stat("outcome:timeout", 1);
                run.fail("C20", "dictbuilder_deadline", format!("source {} bytes, estimate {}, dict_size {} ({}): no result within {:?}", len, est, dict, script, deadline), replay.clone());
                stopped = true;
                ("-".to_string(), "hang".to_string())
            }
        };
        let line = format!("dictbuilder run {} {} {} {} {}", len, est, dict, script, obs_s);
        if run.samples.len() < 5 && (run.cases.len() % 97 == 3) {
            run.samples.push(format!("{} => {}", line, answer));
        }
        run.case(line, answer);
    }
    run
}

pub fn replay_line(line: &str) -> Option<String> {
    let t: Vec<&str> = line.split(' ').collect();
    if t.len() < 6 || t[0] != "dictbuilder" || t[1] != "run" {
        return None;
    }
    match observe(t[2].parse().ok()?, t[3].parse().ok()?, t[4].parse().ok()?, t[5], 0, 1, Duration::from_secs(120)) {
        Obs::Ok(n) => Some(format!("ok {}", n)),
        Obs::Panic(_) => Some("fault".into()),
        Obs::Timeout => Some("hang".into()),
    }
}
