//! Engine `bits` (C12/C13/C02): operation sequences on the three real bit-I/O types
//! (`BitReader`, `BitReaderReversed`, `BitWriter`) — one request line = one whole sequence on a
//! fresh object (line protocol: `lean/Zstd/Driver/BitIO.lean`) — plus implementation-only
//! round-trip oracles writer -> forward reader, writer -> reversed reader, triple == 3 x single.
use crate::util::*;
use ruzstd::verif_hooks::bits::{BitReader, BitReaderReversed, BitWriter};

/// `GetBitsError` lives in a private module and cannot be named from here, so its variant and
/// fields are taken from the *derived* `Debug` rendering (`Variant { field: n, .. }`), never from
/// the `Display` text.  Returns (variant name, numeric fields in declaration order).
pub fn getbits_err_parts(dbg: &str) -> (String, Vec<u64>) {
    let name: String = dbg.chars().take_while(|c| c.is_ascii_alphanumeric()).collect();
    let mut nums = vec![];
    let mut cur = String::new();
    let mut prev_alpha = false;
    for c in dbg.chars() {
        if c.is_ascii_digit() && !(cur.is_empty() && prev_alpha) {
            cur.push(c);
        } else {
            if !cur.is_empty() {
                nums.push(cur.parse().unwrap_or(u64::MAX));
                cur.clear();
            }
            prev_alpha = c.is_ascii_alphabetic() || c == '_';
        }
    }
    if !cur.is_empty() {
        nums.push(cur.parse().unwrap_or(u64::MAX));
    }
    (name, nums)
}

fn fwd_err_token<E: core::fmt::Debug>(e: &E) -> String {
    let (name, nums) = getbits_err_parts(&format!("{:?}", e));
    match (name.as_str(), nums.as_slice()) {
        ("TooManyBits", [q, l]) => format!("e1:{}:{}", q, l),
        ("NotEnoughRemainingBits", [q, m]) => format!("e2:{}:{}", q, m),
        _ => format!("e?:{}", name),
    }
}

fn finish(r: Result<Vec<String>, String>) -> String {
    match r {
        Err(_) => "fault".into(),
        Ok(toks) => {
            let mut s = String::from("ok");
            for t in toks {
                s.push(' ');
                s.push_str(&t);
            }
            s
        }
    }
}

fn ops_str(ops: &[String]) -> String {
    if ops.is_empty() {
        "-".into()
    } else {
        ops.join(",")
    }
}

// ---------------------------------------------------------------- forward reader

#[derive(Clone, Debug)]
enum FOp {
    G(usize),
    R(usize),
    L,
    I,
}
impl FOp {
    fn s(&self) -> String {
        match self {
            FOp::G(n) => format!("g{}", n),
            FOp::R(n) => format!("r{}", n),
            FOp::L => "l".into(),
            FOp::I => "i".into(),
        }
    }
}

fn exec_fwd(src: &[u8], ops: &[FOp]) -> String {
    finish(guarded(|| {
        let mut r = BitReader::new(src);
        let mut toks = vec![];
        for op in ops {
            match op {
                FOp::G(n) => match r.get_bits(*n) {
                    Ok(v) => toks.push(v.to_string()),
                    Err(e) => toks.push(fwd_err_token(&e)),
                },
                FOp::R(n) => r.return_bits(*n),
                FOp::L => toks.push(r.bits_left().to_string()),
                FOp::I => toks.push(r.bits_read().to_string()),
            }
        }
        toks
    }))
}

fn fwd_line(src: &[u8], ops: &[FOp]) -> String {
    format!("bits fwd {} {}", hex(src), ops_str(&ops.iter().map(|o| o.s()).collect::<Vec<_>>()))
}

fn gen_src(rng: &mut Rng, len: usize) -> Vec<u8> {
    match rng.below(10) {
        0 => vec![0xff; len],
        1 => vec![0x00; len],
        2 => (0..len).map(|i| if i % 2 == 0 { 0xaa } else { 0x55 }).collect(),
        3 => (0..len).map(|i| (i as u8).wrapping_mul(17).wrapping_add(1)).collect(),
        _ => rng.bytes(len),
    }
}

fn gen_fwd(rng: &mut Rng, run: &mut Run) -> (Vec<u8>, Vec<FOp>) {
    let len = rng.below(41) as usize;
    let src = gen_src(rng, len);
    let total = len * 8;
    let mut idx = 0usize; // predicted bits_read
    let nops = rng.range(1, 14) as usize;
    let mut ops = vec![];
    let mut alive = true; // false once the real code is predicted to have panicked
    let zero_at_end = rng.chance(1, 25); // the deliberate `get_bits(0)` exactly at the end
    // bookkeeping for one get_bits(n): returns false if it panics
    let get = |run: &mut Run, idx: &mut usize, n: usize| -> bool {
        let left = total - *idx;
        if n > 64 {
            run.stat("fwd_e1", 1);
        } else if n > left {
            run.stat("fwd_e2", 1);
        } else if left == 0 {
            // n == 0 at the very end: `source[idx / 8]` is out of bounds in the real code
            run.stat("fwd_get0_at_end_panic", 1);
            return false;
        } else {
            *idx += n;
            if n > 0 && *idx == total {
                run.stat("fwd_read_to_end", 1);
            }
        }
        true
    };
    for _ in 0..nops {
        let left = total - idx;
        let c = rng.below(100);
        if c < 58 {
            let n = match rng.below(100) {
                0..=4 => 0,
                5..=49 => rng.range(1, 8),
                50..=79 => rng.range(9, 32),
                80..=94 => rng.range(33, 64),
                _ => rng.range(65, 66),
            } as usize;
            ops.push(FOp::G(n));
            alive = get(run, &mut idx, n);
        } else if c < 68 {
            // exactly everything that is left, or one more
            let n = if rng.chance(2, 3) { left } else { left + 1 };
            ops.push(FOp::G(n));
            alive = get(run, &mut idx, n);
        } else if c < 82 {
            let n = if rng.chance(1, 12) { idx + 1 + rng.below(9) as usize } else { rng.below(idx as u64 + 1) as usize };
            ops.push(FOp::R(n));
            if n > idx {
                run.stat("fwd_return_too_many_panic", 1);
                alive = false;
            } else {
                idx -= n;
            }
        } else if c < 91 {
            ops.push(FOp::L);
        } else {
            ops.push(FOp::I);
        }
        if !alive {
            break;
        }
    }
    if zero_at_end && alive {
        // read up to the end in legal chunks, then ask for zero bits
        while idx < total {
            let n = (total - idx).min(rng.range(1, 64) as usize);
            ops.push(FOp::G(n));
            get(run, &mut idx, n);
        }
        ops.push(FOp::L);
        ops.push(FOp::G(0));
        get(run, &mut idx, 0);
    }
    (src, ops)
}

// ---------------------------------------------------------------- reversed reader

#[derive(Clone, Debug)]
enum ROp {
    G(u8),
    T(u8, u8, u8),
    B,
}
impl ROp {
    fn s(&self) -> String {
        match self {
            ROp::G(n) => format!("g{}", n),
            ROp::T(a, b, c) => format!("t{}:{}:{}", a, b, c),
            ROp::B => "b".into(),
        }
    }
}

fn exec_rev(src: &[u8], ops: &[ROp]) -> String {
    finish(guarded(|| {
        let mut r = BitReaderReversed::new(src);
        let mut toks = vec![];
        for op in ops {
            match op {
                ROp::G(n) => toks.push(r.get_bits(*n).to_string()),
                ROp::T(a, b, c) => {
                    let (x, y, z) = r.get_bits_triple(*a, *b, *c);
                    toks.push(format!("{}:{}:{}", x, y, z));
                }
                ROp::B => toks.push(r.bits_remaining().to_string()),
            }
        }
        toks
    }))
}

fn rev_line(src: &[u8], ops: &[ROp]) -> String {
    format!("bits rev {} {}", hex(src), ops_str(&ops.iter().map(|o| o.s()).collect::<Vec<_>>()))
}

fn small_n(rng: &mut Rng) -> u8 {
    (match rng.below(100) {
        0..=5 => 0,
        6..=54 => rng.range(1, 8),
        55..=74 => rng.range(9, 24),
        75..=89 => rng.range(25, 55),
        _ => 56,
    }) as u8
}

fn gen_triple(rng: &mut Rng, run: &mut Run) -> ROp {
    if rng.chance(2, 3) {
        // fast path: sum <= 56
        let sum = match rng.below(10) {
            0 => 0,
            1 => 56,
            _ => rng.range(1, 56),
        };
        let a = rng.below(sum + 1);
        let b = rng.below(sum - a + 1);
        let c = if rng.chance(3, 4) { sum - a - b } else { rng.below(sum - a - b + 1) };
        run.stat("rev_triple_fast", 1);
        ROp::T(a as u8, b as u8, c as u8)
    } else {
        // slow path: each <= 56, sum > 56
        run.stat("rev_triple_slow", 1);
        if rng.chance(1, 4) {
            return ROp::T(31, 16, 16);
        }
        loop {
            let a = rng.range(0, 56);
            let b = rng.range(0, 56);
            let c = rng.range(0, 56);
            if a + b + c > 56 {
                return ROp::T(a as u8, b as u8, c as u8);
            }
        }
    }
}

/// op sequence for a source of `len` bytes; `target_bits` = roughly how many bits to consume in total
fn gen_rev_ops(rng: &mut Rng, run: &mut Run, len: usize, big: bool) -> Vec<ROp> {
    let total = len as i64 * 8;
    // most sequences run past the start of the source (zero fill, negative bits_remaining)
    let target = match rng.below(4) {
        0 => total / 2,
        1 => total,
        2 => total + rng.range(1, 70) as i64,
        _ => total + rng.range(60, 300) as i64,
    };
    let mut consumed = 0i64;
    let mut ops = vec![];
    if rng.chance(1, 6) {
        ops.push(ROp::B);
    }
    let mode = rng.below(5); // 0: single bits mostly, 1: 56s mostly, else mixed
    while consumed <= target && ops.len() < 60 {
        let op = if big && rng.chance(1, 4) {
            // the separate stream: 57..=64 (value-or-fault must agree), rarely absurd widths
            let n = if rng.chance(1, 10) { rng.range(65, 255) } else { rng.range(57, 64) } as u8;
            run.stat("rev_get_gt56", 1);
            ROp::G(n)
        } else if big && rng.chance(1, 12) {
            run.stat("rev_triple_big", 1);
            match rng.below(3) {
                0 => ROp::T(rng.range(57, 64) as u8, rng.below(5) as u8, rng.below(5) as u8),
                1 => ROp::T(100, 100, rng.range(50, 100) as u8),
                _ => ROp::T(rng.below(30) as u8, rng.range(57, 70) as u8, rng.below(30) as u8),
            }
        } else if rng.chance(1, 5) {
            gen_triple(rng, run)
        } else {
            let n = match mode {
                0 => {
                    if rng.chance(4, 5) {
                        1
                    } else {
                        small_n(rng)
                    }
                }
                1 => {
                    if rng.chance(3, 5) {
                        56
                    } else {
                        small_n(rng)
                    }
                }
                _ => small_n(rng),
            };
            ROp::G(n)
        };
        consumed += match &op {
            ROp::G(n) => *n as i64,
            ROp::T(a, b, c) => *a as i64 + *b as i64 + *c as i64,
            ROp::B => 0,
        };
        ops.push(op);
        if rng.chance(3, 5) {
            ops.push(ROp::B);
        }
    }
    if !matches!(ops.last(), Some(ROp::B)) {
        ops.push(ROp::B);
    }
    if consumed > total {
        run.stat("rev_past_start", 1);
    }
    ops
}

// ---------------------------------------------------------------- writer

/// One generated-and-executed writer sequence: the ops as text and the real answer.
fn gen_wr(rng: &mut Rng, run: &mut Run) -> (String, String) {
    let init: Option<Vec<u8>> = if rng.chance(1, 4) { Some({ let k = rng.range(1, 10) as usize; rng.bytes(k) }) } else { None };
    let init_s = match &init {
        None => "-".to_string(),
        Some(v) => hex(v),
    };
    let mut w = Some(match &init {
        None => BitWriter::new(),
        Some(v) => BitWriter::from(v.clone()),
    });
    let mut ops: Vec<String> = vec![];
    let mut toks: Vec<String> = vec![];
    let mut faulted = false;
    let nops = rng.range(1, 22) as usize;
    let force_w64_first = rng.chance(1, 40);
    // predicted bits_in_partial is not observable; index()/misaligned() are
    macro_rules! step {
        ($name:expr, $body:expr) => {{
            let wr = w.as_mut().unwrap();
            #[allow(clippy::redundant_closure_call)]
            let r = guarded(|| ($body)(wr));
            match r {
                Ok(()) => {}
                Err(_) => {
                    run.stat(concat!("wr_fault_", $name), 1);
                    faulted = true;
                }
            }
        }};
    }
    let value_for = |rng: &mut Rng, n: usize| -> u64 {
        let full = rng.next();
        let v = match rng.below(8) {
            0 => 0,
            1 => u64::MAX,
            _ => full,
        };
        if n >= 64 {
            v
        } else {
            v & ((1u64 << n) - 1)
        }
    };
    for k in 0..nops {
        if faulted {
            break;
        }
        let (index, mis) = {
            let wr = w.as_ref().unwrap();
            (wr.index(), wr.misaligned())
        };
        let c = if k == 0 && force_w64_first { 0 } else { rng.below(100) };
        if c < 52 {
            let n = if k == 0 && force_w64_first {
                64
            } else {
                match rng.below(100) {
                    0..=2 => 0,
                    3..=42 => rng.range(1, 8),
                    43..=72 => rng.range(9, 32),
                    73..=95 => rng.range(33, 63),
                    _ => 64,
                }
            } as usize;
            let mut v = value_for(rng, n);
            match rng.below(200) {
                0 | 1 | 4 | 5 if n < 63 => {
                    // sloppy but tolerated by the debug_assert (`ilog2 <= num_bits`): bit n set
                    v |= 1u64 << n;
                    run.stat("wr_write_sloppy_bit_n", 1);
                }
                2 if n < 62 => {
                    // `ilog2 > num_bits`: debug assertion
                    v |= 1u64 << (n + 1 + rng.below((62 - n) as u64) as usize);
                    run.stat("wr_write_too_wide", 1);
                }
                3 if n == 0 => v = rng.next() | 1,
                _ => {}
            }
            ops.push(format!("w{}:{}", v, n));
            run.stat(if n == 64 { "wr_write64" } else { "wr_write" }, 1);
            step!("write", |wr: &mut BitWriter| wr.write_bits(v, n));
        } else if c < 61 {
            ops.push("i".into());
            toks.push(index.to_string());
        } else if c < 70 {
            ops.push("m".into());
            toks.push(mis.to_string());
        } else if c < 77 {
            if mis == 0 || rng.chance(1, 16) {
                ops.push("f".into());
                run.stat(if mis == 0 { "wr_flush" } else { "wr_flush_misaligned" }, 1);
                step!("flush", |wr: &mut BitWriter| wr.flush());
            }
        } else if c < 84 {
            if mis == 0 || rng.chance(1, 16) {
                let k = rng.below(6) as usize;
                let d = rng.bytes(k);
                ops.push(format!("a{}", if d.is_empty() { String::new() } else { hex(&d) }));
                run.stat(if mis == 0 { "wr_append" } else { "wr_append_misaligned" }, 1);
                step!("append", |wr: &mut BitWriter| wr.append_bytes(&d));
            }
        } else if c < 93 {
            // change_bits: legal iff aligned, idx + n < index, and an unaligned idx has n >= 8 - idx%8
            let illegal = rng.chance(1, 16);
            if !illegal && (mis != 0 || index < 2) {
                continue;
            }
            let (idx, n) = if illegal {
                match rng.below(3) {
                    0 => (rng.below(index as u64 + 1) as usize, rng.range(0, 20) as usize + index), // idx + n >= index
                    1 => {
                        // a few bits in the middle of a byte
                        let i = (rng.below((index / 8) as u64 + 1) * 8 + rng.range(1, 6)) as usize;
                        (i, rng.below((8 - i % 8) as u64) as usize)
                    }
                    _ => (rng.below(index as u64 + 9) as usize, rng.below(65) as usize),
                }
            } else {
                let idx = if rng.chance(1, 2) { (rng.below((index as u64 - 1) / 8 + 1) * 8) as usize } else { rng.below(index as u64 - 1) as usize };
                let max_n = (index - idx - 1).min(64);
                let min_n = if idx % 8 != 0 { 8 - idx % 8 } else { 0 };
                if min_n > max_n {
                    continue;
                }
                (idx, rng.range(min_n as u64, max_n as u64) as usize)
            };
            let mut v = value_for(rng, n);
            if rng.chance(1, 50) && n < 63 {
                v |= 1u64 << n; // excess bit: the real code ORs it into the neighbouring bits
                run.stat("wr_change_sloppy", 1);
            }
            ops.push(format!("c{}:{}:{}", idx, v, n));
            run.stat(if illegal { "wr_change_illegal_try" } else { "wr_change" }, 1);
            step!("change", |wr: &mut BitWriter| wr.change_bits(idx, v, n));
        } else {
            // reset_to
            let idx = match rng.below(20) {
                0 => index / 8 * 8 + rng.range(1, 7) as usize, // not a multiple of 8
                1..=8 => (rng.below((index / 8) as u64 + 1) * 8) as usize, // at or below
                9 | 10 => index / 8 * 8,
                _ => (index / 8 + rng.range(1, 10) as usize) * 8, // above: zero-extends
            };
            ops.push(format!("r{}", idx));
            run.stat(if idx % 8 != 0 { "wr_reset_unaligned" } else if idx > index { "wr_reset_above" } else { "wr_reset_below" }, 1);
            step!("reset", |wr: &mut BitWriter| wr.reset_to(idx));
        }
    }
    if !faulted && rng.chance(9, 10) {
        let mis = w.as_ref().unwrap().misaligned();
        if mis != 0 && rng.chance(15, 16) {
            ops.push(format!("w0:{}", mis));
            step!("write", |wr: &mut BitWriter| wr.write_bits(0u64, mis));
        }
        if !faulted {
            ops.push("d".into());
            let wr = w.take().unwrap();
            match guarded(move || wr.dump()) {
                Ok(out) => {
                    toks.push(hex(&out));
                    run.stat("wr_dump", 1);
                }
                Err(_) => {
                    faulted = true;
                    run.stat("wr_fault_dump", 1);
                }
            }
        }
    }
    let line = format!("bits wr {} {}", init_s, ops_str(&ops));
    let ans = if faulted { "fault".to_string() } else { finish(Ok(toks)) };
    (line, ans)
}

// ---------------------------------------------------------------- oracles

fn field(rng: &mut Rng, max_n: usize) -> (u64, usize) {
    let n = match rng.below(10) {
        0 => 0,
        1..=5 => rng.range(1, 9),
        6..=7 => rng.range(10, 32),
        _ => rng.range(33, max_n as u64),
    } as usize;
    let v = if n == 0 { 0 } else { rng.next() >> (64 - n) };
    (v, n.min(max_n))
}

fn wr_ops_line(fields: &[(u64, usize)], tail: &[(u64, usize)]) -> String {
    let mut ops: Vec<String> = fields.iter().chain(tail.iter()).map(|(v, n)| format!("w{}:{}", v, n)).collect();
    ops.push("d".into());
    format!("bits wr - {}", ops.join(","))
}

/// (1) writer -> forward reader
fn oracle_wr_fwd(rng: &mut Rng, run: &mut Run) {
    let nf = rng.range(1, 30) as usize;
    let fields: Vec<(u64, usize)> = (0..nf).map(|_| field(rng, 63)).collect();
    let fs = fields.clone();
    let r = guarded(move || {
        let mut w = BitWriter::new();
        for (v, n) in &fs {
            w.write_bits(*v, *n);
        }
        let mis = w.misaligned();
        w.write_bits(0u64, mis);
        (w.dump(), mis)
    });
    run.oracle_checks += 1;
    let (out, mis) = match r {
        Ok(x) => x,
        Err(e) => {
            run.fail("C12", "wr_fwd_panic", format!("BitWriter panicked on legal fields: {}", e), wr_ops_line(&fields, &[]));
            return;
        }
    };
    let tail = [(0u64, mis)];
    let wline = wr_ops_line(&fields, &tail);
    run.case(wline.clone(), format!("ok {}", hex(&out)));
    let total: usize = fields.iter().map(|f| f.1).sum();
    if out.len() * 8 != total + mis || (total + mis) % 8 != 0 {
        run.fail("C12", "wr_len", format!("wrote {} bits + {} padding but dump has {} bytes", total, mis, out.len()), wline.clone());
    }
    // read back; a zero-width read exactly at the end of the source panics in the real reader (known), skip it
    let mut fops = vec![];
    let mut pos = 0usize;
    for (_, n) in &fields {
        if *n == 0 && pos == out.len() * 8 {
            continue;
        }
        fops.push(FOp::G(*n));
        pos += n;
    }
    let expect: Vec<u64> = {
        let mut pos = 0usize;
        fields.iter().filter(|(_, n)| {
            let keep = !(*n == 0 && pos == out.len() * 8);
            pos += n;
            keep
        }).map(|f| f.0).collect()
    };
    let ans = exec_fwd(&out, &fops);
    let fline = fwd_line(&out, &fops);
    run.case(fline.clone(), ans.clone());
    let want = finish(Ok(expect.iter().map(|v| v.to_string()).collect()));
    if ans != want {
        run.fail("C12", "wr_fwd_roundtrip", format!("fields written by BitWriter are not read back by BitReader: wrote {:?}, read `{}`", fields, ans), format!("{}\n{}", wline, fline));
    }
}

/// (2) writer -> reversed reader, with the end mark the real encoders use
fn oracle_wr_rev(rng: &mut Rng, run: &mut Run) {
    let nf = rng.range(1, 30) as usize;
    let fields: Vec<(u64, usize)> = (0..nf).map(|_| field(rng, 56)).collect();
    let fs = fields.clone();
    let r = guarded(move || {
        let mut w = BitWriter::new();
        for (v, n) in &fs {
            w.write_bits(*v, *n);
        }
        let mis = w.misaligned();
        let m = if mis == 0 { 8 } else { mis };
        w.write_bits(1u64, m);
        (w.dump(), m)
    });
    run.oracle_checks += 1;
    let (out, m) = match r {
        Ok(x) => x,
        Err(e) => {
            run.fail("C12", "wr_rev_panic", format!("BitWriter panicked on legal fields: {}", e), wr_ops_line(&fields, &[]));
            return;
        }
    };
    let tail = [(1u64, m)];
    let wline = wr_ops_line(&fields, &tail);
    run.case(wline.clone(), format!("ok {}", hex(&out)));
    // the read program: single-bit reads until the 1 (m - 1 zeroes then the mark), fields in reverse, b
    let mut rops = vec![];
    for _ in 0..m {
        rops.push(ROp::G(1));
    }
    for (_, n) in fields.iter().rev() {
        rops.push(ROp::G(*n as u8));
    }
    rops.push(ROp::B);
    let mut want: Vec<String> = vec![];
    for i in 0..m {
        want.push(if i + 1 == m { "1".into() } else { "0".into() });
    }
    for (v, _) in fields.iter().rev() {
        want.push(v.to_string());
    }
    want.push("0".into());
    let ans = exec_rev(&out, &rops);
    let rline = rev_line(&out, &rops);
    run.case(rline.clone(), ans.clone());
    if ans != finish(Ok(want)) {
        run.fail("C12", "wr_rev_roundtrip", format!("fields written by BitWriter (+ end mark) are not read back in reverse by BitReaderReversed with bits_remaining == 0: wrote {:?}, read `{}`", fields, ans), format!("{}\n{}", wline, rline));
    }
}

/// (3) get_bits_triple(a, b, c) == three get_bits, on two readers over the same source after the same prefix
fn oracle_triple(rng: &mut Rng, run: &mut Run) {
    let len = rng.below(41) as usize;
    let src = gen_src(rng, len);
    let prefix: Vec<u8> = (0..rng.below(12)).map(|_| small_n(rng)).collect();
    let t = gen_triple(rng, run);
    let (a, b, c) = match t {
        ROp::T(a, b, c) => (a, b, c),
        _ => unreachable!(),
    };
    run.oracle_checks += 1;
    let s1 = src.clone();
    let p1 = prefix.clone();
    let r1 = guarded(move || {
        let mut r = BitReaderReversed::new(&s1);
        for n in &p1 {
            r.get_bits(*n);
        }
        let t = r.get_bits_triple(a, b, c);
        (t, r.bits_remaining(), r.get_bits(7))
    });
    let s2 = src.clone();
    let p2 = prefix.clone();
    let r2 = guarded(move || {
        let mut r = BitReaderReversed::new(&s2);
        for n in &p2 {
            r.get_bits(*n);
        }
        let t = (r.get_bits(a), r.get_bits(b), r.get_bits(c));
        (t, r.bits_remaining(), r.get_bits(7))
    });
    let same = match (&r1, &r2) {
        (Ok(x), Ok(y)) => x == y,
        _ => false,
    };
    if !same {
        let pre: Vec<String> = prefix.iter().map(|n| format!("g{}", n)).collect();
        let l1 = format!("bits rev {} {}", hex(&src), ops_str(&[pre.clone(), vec![format!("t{}:{}:{}", a, b, c), "b".into(), "g7".into()]].concat()));
        let l2 = format!("bits rev {} {}", hex(&src), ops_str(&[pre, vec![format!("g{}", a), format!("g{}", b), format!("g{}", c), "b".into(), "g7".into()]].concat()));
        run.fail("C12", "triple_vs_single", format!("get_bits_triple({},{},{}) = {:?} but three get_bits = {:?}", a, b, c, r1, r2), format!("{}\n{}", l1, l2));
    }
}

// ---------------------------------------------------------------- replay

fn nums(s: &str) -> Option<Vec<u64>> {
    s.split(':').map(|x| x.parse().ok()).collect()
}

/// executes a textual writer program (`bits wr <init> <ops>`) on the real BitWriter
fn exec_wr_text(init: &str, ops: &[&str]) -> Option<String> {
    let init = if init == "-" { None } else { Some(unhex(init)?) };
    // parse first so that a malformed line is not reported as a fault
    enum W {
        Wr(u64, usize),
        F,
        C(usize, u64, usize),
        A(Vec<u8>),
        R(usize),
        I,
        M,
        D,
    }
    let mut prog = vec![];
    for op in ops {
        let (h, t) = op.split_at(1);
        prog.push(match (h, nums(t).as_deref()) {
            ("w", Some([v, n])) => W::Wr(*v, *n as usize),
            ("f", _) if t.is_empty() => W::F,
            ("c", Some([i, v, n])) => W::C(*i as usize, *v, *n as usize),
            ("a", _) => W::A(if t.is_empty() { vec![] } else { unhex(t)? }),
            ("r", Some([i])) => W::R(*i as usize),
            ("i", _) if t.is_empty() => W::I,
            ("m", _) if t.is_empty() => W::M,
            ("d", _) if t.is_empty() => W::D,
            _ => return None,
        });
    }
    Some(finish(guarded(move || {
        let mut w = Some(match init {
            None => BitWriter::new(),
            Some(v) => BitWriter::from(v),
        });
        let mut toks = vec![];
        for op in prog {
            let wr = w.as_mut().unwrap();
            match op {
                W::Wr(v, n) => wr.write_bits(v, n),
                W::F => wr.flush(),
                W::C(i, v, n) => wr.change_bits(i, v, n),
                W::A(d) => wr.append_bytes(&d),
                W::R(i) => wr.reset_to(i),
                W::I => toks.push(wr.index().to_string()),
                W::M => toks.push(wr.misaligned().to_string()),
                W::D => {
                    toks.push(hex(&w.take().unwrap().dump()));
                    break;
                }
            }
        }
        toks
    })))
}

/// Re-run one request line on the real code.
pub fn replay_line(line: &str) -> Option<String> {
    let tok: Vec<&str> = line.split_whitespace().collect();
    if tok.len() != 4 || tok[0] != "bits" {
        return None;
    }
    let ops: Vec<&str> = if tok[3] == "-" { vec![] } else { tok[3].split(',').collect() };
    match tok[1] {
        "fwd" => {
            let src = unhex(tok[2])?;
            let mut prog = vec![];
            for op in &ops {
                let (h, t) = op.split_at(1);
                prog.push(match h {
                    "g" => FOp::G(t.parse().ok()?),
                    "r" => FOp::R(t.parse().ok()?),
                    "l" => FOp::L,
                    "i" => FOp::I,
                    _ => return None,
                });
            }
            Some(exec_fwd(&src, &prog))
        }
        "rev" => {
            let src = unhex(tok[2])?;
            let mut prog = vec![];
            for op in &ops {
                let (h, t) = op.split_at(1);
                prog.push(match (h, nums(t).as_deref()) {
                    ("g", Some([n])) => ROp::G(u8::try_from(*n).ok()?),
                    ("t", Some([a, b, c])) => ROp::T(u8::try_from(*a).ok()?, u8::try_from(*b).ok()?, u8::try_from(*c).ok()?),
                    ("b", _) => ROp::B,
                    _ => return None,
                });
            }
            Some(exec_rev(&src, &prog))
        }
        "wr" => exec_wr_text(tok[2], &ops),
        _ => None,
    }
}

pub fn run(opts: &Opts) -> Run {
    let mut run = Run::new("bits");
    let mut rng = Rng::new(opts.seed);
    let scale: usize = if opts.thorough { 10 } else { 1 };
    if let Some(file) = &opts.replay {
        for line in std::fs::read_to_string(file).unwrap_or_default().lines() {
            match replay_line(line) {
                Some(a) => run.case(line.to_string(), a),
                None => run.notes.push(format!("replay: cannot replay `{}`", line)),
            }
        }
        return run;
    }

    // ---- fixed corner cases first
    for (src, ops) in [
        (vec![], vec![FOp::L, FOp::I, FOp::G(0)]),
        (vec![], vec![FOp::G(1)]),
        (vec![], vec![FOp::G(65)]),
        (vec![0x5a], vec![FOp::G(8), FOp::G(0)]),
        (vec![0x5a], vec![FOp::G(8), FOp::R(8), FOp::G(0), FOp::G(3), FOp::R(4)]),
        (vec![0x5a, 0xa5], vec![FOp::G(3), FOp::G(0), FOp::G(13), FOp::L, FOp::I, FOp::G(1), FOp::G(64), FOp::G(65)]),
        ((1u8..=9).collect(), vec![FOp::G(64), FOp::G(8), FOp::L]),
        ((1u8..=9).collect(), vec![FOp::G(1), FOp::G(64), FOp::L]),
        ((1u8..=9).collect(), vec![FOp::G(7), FOp::G(64), FOp::G(1), FOp::L]),
    ] {
        let a = exec_fwd(&src, &ops);
        run.case(fwd_line(&src, &ops), a);
    }
    run.stat("fwd_fixed", 9);

    // ---- forward reader
    let n_fwd = 6000 * scale;
    for _ in 0..n_fwd {
        let (src, ops) = gen_fwd(&mut rng, &mut run);
        let a = exec_fwd(&src, &ops);
        if a == "fault" {
            run.stat("fwd_fault_answers", 1);
        }
        run.case(fwd_line(&src, &ops), a);
    }
    run.stat("fwd_cases", n_fwd as u64);

    // ---- reversed reader: all lengths 0..=20 systematically, then random lengths 0..=40
    let mut n_rev = 0u64;
    for len in 0..=20usize {
        for rep in 0..(120 * scale) {
            let src = if rep == 0 { vec![0xff; len] } else { gen_src(&mut rng, len) };
            let ops = gen_rev_ops(&mut rng, &mut run, len, false);
            let a = exec_rev(&src, &ops);
            if a == "fault" {
                run.stat("rev_fault_answers_n_le_56", 1);
            }
            run.case(rev_line(&src, &ops), a);
            n_rev += 1;
        }
    }
    for _ in 0..(3500 * scale) {
        let len = rng.below(41) as usize;
        let src = gen_src(&mut rng, len);
        let ops = gen_rev_ops(&mut rng, &mut run, len, false);
        let a = exec_rev(&src, &ops);
        if a == "fault" {
            run.stat("rev_fault_answers_n_le_56", 1);
        }
        run.case(rev_line(&src, &ops), a);
        n_rev += 1;
    }
    // the separate stream with n in 57..=64 (and a few absurd widths): value-or-fault must agree
    for _ in 0..(1200 * scale) {
        let len = rng.below(41) as usize;
        let src = gen_src(&mut rng, len);
        let ops = gen_rev_ops(&mut rng, &mut run, len, true);
        let a = exec_rev(&src, &ops);
        run.stat(if a == "fault" { "rev_big_fault" } else { "rev_big_ok" }, 1);
        run.case(rev_line(&src, &ops), a);
        n_rev += 1;
    }
    // triples whose widths add up to 57 … 63 (offset code up to 31 bits + literal-length and match-length extras up to 16 each) at
    // EVERY alignment of the reader inside its 64-bit container: the end mark in each of the 8 bit positions of the last byte,
    // 0 … 7 bits consumed before the triple, sources of 9 … 24 bytes.  A valid frame can ask for exactly this; it must never panic
    for sum in 57u32..=63 {
        for shift in 0..8u32 {
            for pre in 0..8u8 {
                let len = 9 + ((sum + shift + pre as u32) % 16) as usize;
                let mut src = gen_src(&mut rng, len);
                let last = src.len() - 1;
                src[last] = 1u8 << shift;
                let a_ = 31u8.min((sum - 26) as u8);
                let b_ = 16u8.min((sum - a_ as u32).min(16) as u8);
                let c_ = (sum - a_ as u32 - b_ as u32) as u8;
                let mut ops = vec![ROp::B];
                if pre > 0 {
                    ops.push(ROp::G(pre));
                }
                ops.push(ROp::T(a_, b_, c_));
                ops.push(ROp::T(c_, a_, b_));
                let a = exec_rev(&src, &ops);
                run.oracle_checks += 1;
                if a == "fault" {
                    run.fail("C03", "panic_bit_reader_triple", format!("get_bits_triple({}, {}, {}) panics on a {}-byte source (end mark at bit {}, {} bits consumed before)", a_, b_, c_, src.len(), shift, pre), rev_line(&src, &ops));
                    run.fail("C01", "panic_bit_reader_triple", format!("get_bits_triple({}, {}, {}) panics on a {}-byte source (a valid sequence bitstream may ask for it)", a_, b_, c_, src.len()), rev_line(&src, &ops));
                    run.fail("C12", "panic_bit_reader_triple", format!("get_bits_triple({}, {}, {}) panics on a {}-byte source", a_, b_, c_, src.len()), rev_line(&src, &ops));
                }
                run.case(rev_line(&src, &ops), a);
                n_rev += 1;
            }
        }
    }
    run.stat("rev_cases", n_rev);

    // ---- writer
    let n_wr = 6500 * scale;
    for _ in 0..n_wr {
        let (line, ans) = gen_wr(&mut rng, &mut run);
        if ans == "fault" {
            run.stat("wr_fault_answers", 1);
        }
        run.case(line, ans);
    }
    run.stat("wr_cases", n_wr as u64);

    // ---- implementation-only oracles (their programs are also sent to the model)
    for _ in 0..(1500 * scale) {
        oracle_wr_fwd(&mut rng, &mut run);
        oracle_wr_rev(&mut rng, &mut run);
    }
    for _ in 0..(3000 * scale) {
        oracle_triple(&mut rng, &mut run);
    }

    let n = run.cases.len();
    for i in [3usize, 9 + 17, 9 + n_fwd + 40, 9 + n_fwd + n_rev as usize + 5, n - 1] {
        if i < n {
            run.samples.push(format!("{} => {}", run.cases[i], run.impl_out[i]));
        }
    }
    run
}
