//! Engine `spec`: validates the Lean RFC transcription (`Zstd.Spec.decodeFrame`) against the
//! reference implementation.  The "implementation" column of this engine is libzstd, not ruzstd:
//! a disagreement here means OUR Spec is wrong, never the code under test.
use crate::gen;
use crate::util::*;

pub fn run(opts: &Opts) -> Run {
    let mut run = Run::new("spec");
    let mut rng = Rng::new(opts.seed ^ 0x5bec);
    // xxh64 cross-check (Lean XXH64 vs harness XXH64)
    for len in [0usize, 1, 3, 4, 7, 8, 15, 31, 32, 33, 63, 64, 100, 1000] {
        let d = rng.bytes(len);
        run.case(format!("spec xxh64 {}", hex(&d)), format!("ok {:016x}", xxh64(&d, 0)));
    }
    // the repository's decode corpus: frames from zstd's decodecorpus generator (rare features)
    // (the Lean Spec is an interpreter-speed reference: the thorough tier is budgeted in BYTES so that the
    // model run stays within minutes)
    let corpus = gen::repo_corpus(if opts.thorough { 120_000 } else { 12_000 });
    let take = if opts.thorough { corpus.len() } else { 30 };
    let mut budget_out: usize = if opts.thorough { 30_000_000 } else { usize::MAX };
    let start = if corpus.is_empty() { 0 } else { (opts.seed as usize * 7) % corpus.len() };
    for k in 0..take.min(corpus.len()) {
        let (name, f, o) = &corpus[(start + k) % corpus.len()];
        if o.len() > budget_out / 2 {
            continue;
        }
        budget_out -= o.len();
        // a corpus file may hold several frames; the Spec request decodes the whole concatenation
        run.case(format!("spec all {}", hex(f)), format!("ok {}", digest(o)));
        run.stat("repo_corpus_files", 1);
        if k == 0 {
            run.samples.push(format!("repo corpus {} ({} -> {} bytes)", name, f.len(), o.len()));
        }
    }
    let n = if opts.thorough { 1500 } else { 60 };
    let max = if opts.thorough { 200_000 } else { 40_000 };
    for i in 0..n {
        if budget_out < 50_000 {
            run.stat("stopped_by_byte_budget_at", i as u64);
            break;
        }
        let kind = gen::DATA_KINDS[i % gen::DATA_KINDS.len()];
        let len = gen::pick_len(&mut rng, max);
        let d = gen::data(&mut rng, kind, len.min(budget_out));
        budget_out -= d.len().min(budget_out);
        let p = gen::zparams(&mut rng);
        let f = gen::zstd_frame(&d, &p, None);
        run.stat(&format!("kind_{}", kind), 1);
        run.stat("frame_bytes", f.len() as u64);
        run.case(format!("spec frame {}", hex(&f)), format!("ok {} {}", f.len(), digest(&d)));
        if i < 3 {
            run.samples.push(format!("libzstd frame of {} bytes of '{}' data ({}) -> {} bytes", d.len(), kind, p.describe(), f.len()));
        }
    }
    run
}
