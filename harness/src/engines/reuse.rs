//! Engine `reuse` (C07, also C09 "no leak" and C03 "reset after error"): a decoder that has been
//! through an arbitrary history must treat the next frame exactly like a fresh decoder with the
//! same dictionaries registered.
//!
//! Histories are sequences of (frame, how far it was decoded, how it ended): complete, abandoned
//! after k blocks, truncated, corrupted, dictionary frames, larger/smaller windows.  Probe frames
//! are biased to NEED a clean state: their first compressed block uses Repeat-mode tables, treeless
//! literals or repeat offsets, so that any table, history, window byte or counter surviving the
//! reset changes the outcome.  Compared on reused vs fresh decoder: result of reset, the hook state
//! dump right after reset, every observable of a block-wise decode, bytes, checksums, consumed count.
use crate::engines::dec::observe;
use crate::errmap::frame_err;
use crate::gen;
use crate::synth::{self, Block, Frame, Lit, SeqBlock};
use crate::util::*;
use ruzstd::decoding::{BlockDecodingStrategy, Dictionary, FrameDecoder};

fn seqb(lits: Lit, ll: u8, ml: u8, of: u8, seqs: Vec<(u32, u32, u32)>, modes: Option<u8>) -> Block {
    Block::Comp(SeqBlock { lits, ll_code: ll, ml_code: ml, of_code: of, seqs, count_bytes: None, modes, repeat: [false; 3], trailer: vec![] })
}

/// frames whose decoding depends on decoder state that a correct reset must have cleared
pub fn probes(rng: &mut Rng) -> Vec<(Vec<u8>, String)> {
    let mut v = Vec::new();
    let raw = Block::Raw(b"0123456789abcdefghij".to_vec());
    // repeat offsets straight away: with the initial history (1,4,8) this is valid and its output depends on it
    for of_extra in 0..2u32 {
        for ll in [0u8, 1] {
            let f = Frame::simple(vec![raw.clone(), seqb(Lit::Raw(vec![b'x'; 4]), ll, 2, of_extra.min(1) as u8, vec![(0, 0, of_extra), (0, 0, 0), (0, 0, 1)], None)], 0, true);
            v.push((synth::serialize(&f, &[]).0, format!("repeat offsets first (ll_code {}, of_extra {})", ll, of_extra)));
        }
    }
    // Repeat-mode tables in the very first compressed block (invalid on a clean decoder)
    for modes in [0xFCu8, 0xC0, 0x30, 0x0C, 0xF4] {
        let f = Frame::simple(vec![raw.clone(), seqb(Lit::Raw(vec![1, 2, 3]), 1, 1, 2, vec![(0, 0, 1); 2], Some(modes))], 0, false);
        v.push((synth::serialize(&f, &[]).0, format!("first block modes {:#x}", modes)));
    }
    // treeless literals in the very first compressed block
    for sf in 0..4u8 {
        let mut body = vec![3 | (sf << 2) | 0x40, 0x01 | ((rng.next() as u8) & 0xF0), rng.next() as u8, rng.next() as u8, rng.next() as u8];
        let n_ = rng.range(2, 20) as usize;
        body.extend_from_slice(&rng.bytes(n_));
        body.push(0);
        let f = Frame::simple(vec![raw.clone(), Block::Bytes { btype: 2, size: body.len() as u32, body }], 0, false);
        v.push((synth::serialize(&f, &[]).0, format!("first block treeless sf {}", sf)));
    }
    // an offset just past this frame's own start (must fail: nothing from an earlier frame may be reachable)
    for back in [1u32, 2, 100, 1000] {
        let ov = 20 + back + 3; // offset = 20 + back > 20 bytes produced
        let code = 31 - ov.leading_zeros() as u8;
        let f = Frame::simple(vec![raw.clone(), seqb(Lit::Raw(vec![]), 0, 5, code, vec![(0, 0, ov - (1 << code))], None)], 0x08, false);
        v.push((synth::serialize(&f, &[]).0, format!("offset {} past the start", back)));
    }
    // ordinary frames (libzstd), small window and large window, with and without checksum
    for wl in [10u32, 17] {
        let d = gen::data(rng, "text", 3000);
        let p = gen::ZParams { level: 5, window_log: Some(wl), ldm: false, checksum: wl == 10, content_size: wl != 10, flush_every: Some(700), min_match: None, strategy_btultra: false };
        v.push((gen::zstd_frame(&d, &p, None), format!("libzstd text wlog {}", wl)));
    }
    v
}

#[derive(Clone)]
pub struct HistItem {
    pub frame: Vec<u8>,
    pub how: u8, // 0 complete+drain, 1 abandon after one block, 2 decode all but do not drain, 3 only reset, 4 decode with UptoBytes
    pub label: String,
}

pub fn history_pool(rng: &mut Rng, dict: &[u8]) -> Vec<(Vec<u8>, String)> {
    let mut pool = Vec::new();
    for (i, kind) in ["text", "lowalpha", "runs", "random", "periodic", "mixed"].iter().enumerate() {
        let d = gen::data(rng, kind, 2000 + 9000 * (i % 3));
        let mut p = gen::zparams(rng);
        p.window_log = Some(*rng.pick(&[10u32, 12, 16, 20]));
        let f = gen::zstd_frame(&d, &p, None);
        // truncated and corrupted variants of the same frame
        let cut = rng.below(f.len() as u64) as usize;
        pool.push((f[..cut].to_vec(), format!("truncated {} @{}", kind, cut)));
        let mut c = f.clone();
        let i_ = rng.below(c.len() as u64) as usize;
        c[i_] ^= 0x10;
        pool.push((c, format!("corrupted {} @{}", kind, i_)));
        pool.push((f, format!("valid {} {}", kind, p.describe())));
    }
    // frames that leave unusual state behind: RLE tables, FSE tables, repeat offsets moved, big output in the window
    for _ in 0..6 {
        let (f, label) = synth::valid_frame(rng);
        pool.push((synth::serialize(&f, &[]).0, format!("synthetic {}", label)));
    }
    for _ in 0..4 {
        let (b, label) = synth::hostile_frame(rng);
        pool.push((b, format!("hostile {}", label)));
    }
    // dictionary frames
    if !dict.is_empty() {
        for _ in 0..3 {
            let d = gen::data(rng, "text", 2500);
            let p = gen::ZParams { level: 3, window_log: None, ldm: false, checksum: true, content_size: true, flush_every: None, min_match: None, strategy_btultra: false };
            pool.push((gen::zstd_frame(&d, &p, Some(dict)), "dictionary frame".into()));
        }
    }
    pool
}

fn apply_history(d: &mut FrameDecoder, h: &HistItem) {
    let mut src = &h.frame[..];
    if d.reset(&mut src).is_err() {
        return;
    }
    match h.how {
        0 => {
            let _ = d.decode_blocks(&mut src, BlockDecodingStrategy::All);
            let _ = d.collect();
        }
        1 => {
            let _ = d.decode_blocks(&mut src, BlockDecodingStrategy::UptoBlocks(1));
        }
        2 => {
            let _ = d.decode_blocks(&mut src, BlockDecodingStrategy::All);
        }
        3 => {}
        _ => {
            let _ = d.decode_blocks(&mut src, BlockDecodingStrategy::UptoBytes(1500));
            let mut buf = [0u8; 700];
            let _ = std::io::Read::read(d, &mut buf);
        }
    }
}

/// everything observable while decoding `probe` block by block
fn transcript(d: &mut FrameDecoder, probe: &[u8]) -> Vec<String> {
    let mut t = Vec::new();
    let mut src = probe;
    let r = d.reset(&mut src);
    t.push(format!("reset {} | {}", r.as_ref().map(|_| "ok".to_string()).unwrap_or_else(|e| frame_err(e)), observe(d)));
    if r.is_err() {
        return t;
    }
    t.push(format!("dump {:016x}", xxh64(d.verif_state_dump().as_bytes(), 0)));
    let mut guard = 0;
    while !d.is_finished() && guard < 500 {
        guard += 1;
        let r = d.decode_blocks(&mut src, BlockDecodingStrategy::UptoBlocks(1));
        let out = d.collect().unwrap_or_default();
        t.push(format!("block {} out {} | {}", r.as_ref().map(|f| format!("ok {}", *f as u8)).unwrap_or_else(|e| frame_err(e)), digest(&out), observe(d)));
        if r.is_err() {
            break;
        }
    }
    let out = d.collect().unwrap_or_default();
    t.push(format!("final out {} left {} | {}", digest(&out), src.len(), observe(d)));
    t
}

/// replay one `reuse dict=… probe=… hist=how:hex …` line: fresh vs reused transcript
pub fn replay_line(run: &mut Run, line: &str) {
    let mut dict: Vec<u8> = vec![];
    let mut probe: Vec<u8> = vec![];
    let mut hist: Vec<HistItem> = vec![];
    for tok in line.split(' ').skip(1) {
        if let Some(h) = tok.strip_prefix("dict=") {
            dict = unhex(h).unwrap_or_default();
        } else if let Some(h) = tok.strip_prefix("probe=") {
            probe = unhex(h).unwrap_or_default();
        } else if let Some(h) = tok.strip_prefix("hist=") {
            let mut it = h.splitn(2, ':');
            let how = it.next().and_then(|x| x.parse().ok()).unwrap_or(0);
            let frame = unhex(it.next().unwrap_or("-")).unwrap_or_default();
            hist.push(HistItem { frame, how, label: "replay".into() });
        }
    }
    let make = || {
        let mut d = FrameDecoder::new();
        if !dict.is_empty() {
            if let Ok(dd) = Dictionary::decode_dict(&dict) {
                let _ = d.add_dict(dd);
            }
        }
        d
    };
    let res = guarded(|| {
        let mut fresh = make();
        let a = transcript(&mut fresh, &probe);
        let mut reused = make();
        for h in &hist {
            apply_history(&mut reused, h);
        }
        (a, transcript(&mut reused, &probe))
    });
    match res {
        Err(p) => run.fail("C03", "panic_reuse", format!("panic: {}", p), line.to_string()),
        Ok((a, b)) => {
            for (x, y) in a.iter().zip(b.iter()) {
                println!("fresh : {}\nreused: {}", x, y);
            }
            if a != b {
                run.fail("C07", "reuse_differs", "reused decoder differs from a fresh one".into(), line.to_string());
            }
        }
    }
}

pub fn run(opts: &Opts) -> Run {
    let mut run = Run::new("reuse");
    let mut rng = Rng::new(opts.seed ^ 0x7e05e);
    let samples: Vec<Vec<u8>> = (0..40).map(|_| gen::data(&mut rng, "text", 3000)).collect();
    let dict = zstd::dict::from_samples(&samples, 4096).unwrap_or_default();
    let pool = history_pool(&mut rng, &dict);
    let probes = probes(&mut rng);
    let n = if opts.thorough { 6000 } else { 500 };
    let mut distinct = std::collections::HashSet::new();
    for i in 0..n {
        let hist_len = rng.range(1, 4) as usize;
        let hist: Vec<HistItem> = (0..hist_len)
            .map(|_| {
                let (f, l) = rng.pick(&pool).clone();
                HistItem { frame: f, how: rng.below(5) as u8, label: l }
            })
            .collect();
        let (probe, plabel) = rng.pick(&probes).clone();
        let with_dict = !dict.is_empty() && rng.chance(1, 2);
        let make = |with_dict: bool| {
            let mut d = FrameDecoder::new();
            if with_dict {
                if let Ok(dd) = Dictionary::decode_dict(&dict) {
                    let _ = d.add_dict(dd);
                }
            }
            d
        };
        let label = format!("history [{}] then probe '{}' (dict registered: {})", hist.iter().map(|h| format!("{}:{}", h.label, h.how)).collect::<Vec<_>>().join(", "), plabel, with_dict);
        let replay = format!("reuse dict={} probe={} {}", if with_dict { hex(&dict) } else { "-".into() }, hex(&probe), hist.iter().map(|h| format!("hist={}:{}", h.how, hex(&h.frame))).collect::<Vec<_>>().join(" "));
        run.oracle_checks += 1;
        let res = guarded(|| {
            let mut fresh = make(with_dict);
            let a = transcript(&mut fresh, &probe);
            let mut reused = make(with_dict);
            for h in &hist {
                apply_history(&mut reused, h);
            }
            let b = transcript(&mut reused, &probe);
            (a, b)
        });
        match res {
            Err(p) => run.fail("C03", "panic_reuse", format!("[{}] panic: {}", label, p), replay),
            Ok((a, b)) => {
                distinct.insert(xxh64(a.join("\n").as_bytes(), i as u64 % 7));
                if a != b {
                    let k = a.iter().zip(b.iter()).position(|(x, y)| x != y).unwrap_or(a.len().min(b.len()));
                    let what = format!("[{}] reused decoder differs from a fresh one at step {}: fresh `{}` reused `{}`", label, k, a.get(k).cloned().unwrap_or_default(), b.get(k).cloned().unwrap_or_default());
                    run.fail("C07", "reuse_differs", what.clone(), replay.clone());
                    // is it the dictionary that leaks?  the same history without its dictionary frames must then agree
                    if hist.iter().any(|h| h.label.contains("dictionary")) {
                        let no_dict: Vec<HistItem> = hist.iter().filter(|h| !h.label.contains("dictionary")).cloned().collect();
                        let agrees_without = guarded(|| {
                            let mut fresh = make(with_dict);
                            let a = transcript(&mut fresh, &probe);
                            let mut reused = make(with_dict);
                            for h in &no_dict {
                                apply_history(&mut reused, h);
                            }
                            a == transcript(&mut reused, &probe)
                        })
                        .unwrap_or(false);
                        if agrees_without {
                            run.fail("C09", "dictionary_leaks", what, replay);
                        }
                    }
                }
                if i < 3 {
                    run.samples.push(format!("{} -> {} steps, last: {}", label, a.len(), a.last().cloned().unwrap_or_default()));
                }
            }
        }
        run.stat(&format!("probe:{}", plabel.split(' ').take(3).collect::<Vec<_>>().join("_")), 1);
    }
    run.stat("histories", n as u64);
    // the configured window limit changed BETWEEN frames: a reused decoder must apply the limit now in force exactly like
    // a fresh decoder with that limit (whatever window the previous frame had)
    for &(prev_wd, limit, probe_wd) in &[(0x68u8, 1u64 << 20, 0x58u8), (0x68, 1 << 20, 0x70), (0x58, 1 << 22, 0x68), (0x00, 2048, 0x08), (0x70, 1 << 21, 0x59), (0x68, 0, 0x00)] {
        let (prev, _) = synth::serialize(&synth::Frame::simple(vec![synth::Block::Raw(rng.bytes(20))], prev_wd, false), &[]);
        let (probe, _) = synth::serialize(&synth::Frame::simple(vec![synth::Block::Raw(rng.bytes(33))], probe_wd, true), &[]);
        run.oracle_checks += 1;
        let label = format!("window descriptor {:#x} decoded, limit set to {}, then a frame with descriptor {:#x}", prev_wd, limit, probe_wd);
        let replay = format!("# {}\nhostile input {}\nhostile input {}", label, hex(&prev), hex(&probe));
        let (p1, p2) = (prev.clone(), probe.clone());
        let res = guarded(move || {
            let mut fresh = FrameDecoder::new();
            fresh.set_max_window_size(limit);
            let a = transcript(&mut fresh, &p2);
            let mut reused = FrameDecoder::new();
            apply_history(&mut reused, &HistItem { frame: p1.clone(), how: 0, label: "previous frame".into() });
            reused.set_max_window_size(limit);
            let b = transcript(&mut reused, &p2);
            (a, b)
        });
        match res {
            Err(p) => run.fail("C03", "panic_reuse", format!("[{}] panic: {}", label, p), replay),
            Ok((mut a, mut b)) => {
                // a REFUSED reset leaves the decoder describing the previous frame (reused) or nothing (fresh): compare the
                // verdict only, not the state behind it
                let refused = |t: &Vec<String>| t.first().map(|l| l.starts_with("reset err")).unwrap_or(false);
                if refused(&a) && refused(&b) {
                    a = vec![a[0].split(" | ").next().unwrap_or("").to_string()];
                    b = vec![b[0].split(" | ").next().unwrap_or("").to_string()];
                    // "rejected up front": the refused frame must not have become the decoder's current frame — the per-frame
                    // loop `while !is_finished() { decode_blocks }` a caller may run next must not decode it
                    run.oracle_checks += 1;
                    let (p1b, p2b) = (prev.clone(), probe.clone());
                    let leaked = guarded(move || {
                        let mut d = FrameDecoder::new();
                        apply_history(&mut d, &HistItem { frame: p1b.clone(), how: 0, label: "previous frame".into() });
                        d.set_max_window_size(limit);
                        let mut src = &p2b[..];
                        let _ = d.reset(&mut src);
                        let mut got = 0usize;
                        let mut guard = 0;
                        while !d.is_finished() && guard < 10 {
                            if d.decode_blocks(&mut src, BlockDecodingStrategy::All).is_err() {
                                break;
                            }
                            guard += 1;
                        }
                        if let Some(v) = d.collect() {
                            got += v.len();
                        }
                        (got, d.is_finished())
                    });
                    if let Ok((got, fin)) = leaked {
                        if got > 0 || !fin {
                            run.fail("C11", "rejected_frame_became_current", format!("[{}] after reset refused the frame (window over the limit) the decoder treats it as its current frame: is_finished() = {}, the per-frame loop decoded {} bytes of it", label, fin, got), replay.clone());
                            run.fail("C07", "reuse_differs", format!("[{}] after a refused reset the reused decoder describes the refused frame (is_finished() = {}, {} bytes decodable)", label, fin, got), replay.clone());
                        }
                    }
                }
                if a != b {
                    let k = a.iter().zip(b.iter()).position(|(x, y)| x != y).unwrap_or(a.len().min(b.len()));
                    run.fail("C07", "reuse_differs", format!("[{}] reused decoder differs from a fresh one at step {}: fresh `{}` reused `{}`", label, k, a.get(k).cloned().unwrap_or_default(), b.get(k).cloned().unwrap_or_default()), replay);
                }
            }
        }
        run.stat("limit_changed_between_frames", 1);
    }
    run.stat("distinct_nontrivial", distinct.len() as u64);
    run
}
