//! Engine `dec`: the real `FrameDecoder` / `StreamingDecoder` under generated driver programs
//! (C01, C05, C06, C08, C10; implementation-only oracles also serve C03).
//!
//! Every program line is replayed by the Lean state machine (`Zstd.Model.FrameDecoder`), and the
//! observables after every operation are compared.  Independently of the model the engine checks
//! what the properties themselves say: bytes delivered are (a prefix of) the original, in order,
//! never lost or duplicated; consumed = frame length; checksums; decode_from_to accounting.
use crate::errmap::frame_err;
use crate::gen;
use crate::util::*;
use ruzstd::decoding::{BlockDecodingStrategy, FrameDecoder, StreamingDecoder};
use std::io::{Read, Write};

/// A source that hands out the bytes in fragments (sizes from a seeded script, cycling).
pub struct FragReader {
    pub data: Vec<u8>,
    pub pos: usize,
    pub frags: Vec<usize>,
    pub k: usize,
}
impl FragReader {
    pub fn new(data: Vec<u8>, frags: Vec<usize>) -> Self {
        FragReader { data, pos: 0, frags, k: 0 }
    }
}
impl Read for FragReader {
    fn read(&mut self, buf: &mut [u8]) -> std::io::Result<usize> {
        let lim = if self.frags.is_empty() { usize::MAX } else { self.frags[self.k % self.frags.len()].max(1) };
        self.k += 1;
        let n = buf.len().min(lim).min(self.data.len() - self.pos);
        buf[..n].copy_from_slice(&self.data[self.pos..self.pos + n]);
        self.pos += n;
        Ok(n)
    }
}

/// A sink with a per-call chunk limit and a total budget; when the budget is used up it either
/// reports `Ok(0)` or fails.
pub struct BudgetSink {
    pub got: Vec<u8>,
    pub chunk: usize,
    pub budget: usize,
    pub fail: bool,
}
impl Write for BudgetSink {
    fn write(&mut self, buf: &[u8]) -> std::io::Result<usize> {
        if self.budget == 0 {
            return if self.fail { Err(std::io::Error::new(std::io::ErrorKind::WouldBlock, "budget")) } else { Ok(0) };
        }
        let n = buf.len().min(self.chunk.max(1)).min(self.budget);
        self.got.extend_from_slice(&buf[..n]);
        self.budget -= n;
        Ok(n)
    }
    fn flush(&mut self) -> std::io::Result<()> {
        Ok(())
    }
}

fn show_bytes(b: &[u8]) -> String {
    if b.is_empty() {
        "-".into()
    } else if b.len() <= 48 {
        hex(b)
    } else {
        digest(b)
    }
}

fn opt(v: Option<u32>) -> String {
    v.map(|x| x.to_string()).unwrap_or_else(|| "-".into())
}

pub fn observe(d: &FrameDecoder) -> String {
    format!(
        "fin={} can={} read={} blocks={} cks={} calc={} fcs={} max={}",
        d.is_finished() as u8,
        d.can_collect(),
        d.bytes_read_from_source(),
        d.blocks_decoded(),
        opt(d.get_checksum_from_data()),
        opt(d.get_calculated_checksum()),
        d.content_size(),
        d.max_window_size()
    )
}

/// Knowledge about the frame under test, for the implementation-only oracles.
pub struct Truth {
    pub original: Vec<u8>,
    pub frame_len: usize,
    /// is the source exactly one complete valid frame (else: truncated / followed by other data)
    pub complete: bool,
    pub has_checksum: bool,
}

enum Dec {
    Plain(FrameDecoder, FragReader),
    Streaming(StreamingDecoder<FragReader, FrameDecoder>),
    Gone,
}

pub struct Prog<'a> {
    /// set before a call that the property says MUST fail (undersized target, truncated skippable frame, trailing garbage): a success is then an oracle failure
    pub must_fail: Option<String>,
    /// the truth comes from the (lenient) reference decoder accepting a MUTATED frame: not certain to be a valid frame
    pub lenient_truth: bool,
    /// `reset`/`init` succeeded on the current source (the decoder state describes THIS frame, not an earlier one)
    pub began: bool,
    pub run: &'a mut Run,
    dec: Dec,
    pub delivered: Vec<u8>,
    pub truth: Option<Truth>,
    lines: Vec<String>,
    pub failed: bool,
    label: String,
}

impl<'a> Prog<'a> {
    pub fn new(run: &'a mut Run, label: &str) -> Self {
        let mut p = Prog {
            must_fail: None,
            lenient_truth: false,
            began: false, run, dec: Dec::Plain(FrameDecoder::new(), FragReader::new(vec![], vec![])), delivered: vec![], truth: None, lines: vec![], failed: false, label: label.to_string() };
        p.emit("dec new".into(), "ok".into());
        p
    }
    fn fd(&mut self) -> &mut FrameDecoder {
        match &mut self.dec {
            Dec::Plain(d, _) => d,
            Dec::Streaming(s) => &mut s.decoder,
            Dec::Gone => unreachable!(),
        }
    }
    fn emit(&mut self, line: String, res: String) {
        let obs = observe(self.fd());
        self.lines.push(line.clone());
        self.run.case(line, format!("{} | {}", res, obs));
    }
    pub fn lines_text(&self) -> String {
        self.lines.join("\n")
    }
    fn replay_text(&self) -> String {
        self.lines.join("\n")
    }
    pub fn oracle_fail_pub(&mut self, prop: &str, sig: &str, what: String) {
        self.oracle_fail(prop, sig, what)
    }
    fn oracle_fail(&mut self, prop: &str, sig: &str, what: String) {
        let r = self.replay_text();
        let label = self.label.clone();
        self.run.fail(prop, sig, format!("[{}] {}", label, what), r);
    }
    /// the source is one complete VALID frame (the harness knows the original data, the reference decoder reproduces
    /// it, every dictionary it needs is registered) and the decoder reports an error: C01's own words are violated
    fn rejected(&mut self, op: &str, err: &str) {
        let complete = self.truth.as_ref().map(|t| t.complete).unwrap_or(false);
        // a window above the configured limit is a legitimate refusal (C11)
        if complete && !self.lenient_truth && err.starts_with("err") && !err.starts_with("err windowOverLimit") {
            self.run.oracle_checks += 1;
            self.oracle_fail("C01", "rejects_valid_frame", format!("{} failed with `{}` on a complete valid frame", op, err));
        }
    }
    fn unstream(&mut self) {
        if let Dec::Streaming(_) = self.dec {
            if let Dec::Streaming(s) = std::mem::replace(&mut self.dec, Dec::Gone) {
                let (r, d) = s.into_parts();
                self.dec = Dec::Plain(d, r);
            }
        }
    }
    pub fn add_dict(&mut self, dict: &[u8]) -> bool {
        self.unstream();
        let res = guarded(|| ruzstd::decoding::Dictionary::decode_dict(dict));
        let (s, ok) = match res {
            Ok(Ok(d)) => {
                let id = d.id;
                let _ = self.fd().add_dict(d);
                (format!("ok {}", id), true)
            }
            Ok(Err(_)) => ("err dict".to_string(), false),
            Err(p) => {
                self.oracle_fail("C03", "panic_decode_dict", format!("panic in Dictionary::decode_dict: {}", p));
                ("fault".to_string(), false)
            }
        };
        self.emit(format!("dec adddict {}", hex(dict)), s);
        ok
    }
    pub fn force_dict(&mut self, id: u32) -> bool {
        self.unstream();
        let r = self.fd().force_dict(id);
        let ok = r.is_ok();
        let s = match r {
            Ok(()) => "ok".to_string(),
            Err(e) => frame_err(&e),
        };
        self.emit(format!("dec forcedict {}", id), s);
        ok
    }
    pub fn set_max(&mut self, w: u64) {
        self.fd().set_max_window_size(w);
        self.emit(format!("dec setmax {}", w), "ok".into());
    }
    pub fn set_src(&mut self, data: Vec<u8>, frags: Vec<usize>, truth: Option<Truth>) {
        self.unstream();
        let line = format!("dec src {}", hex(&data));
        if let Dec::Plain(_, r) = &mut self.dec {
            *r = FragReader::new(data, frags);
        }
        self.truth = truth;
        self.delivered.clear();
        self.failed = false;
        self.began = false;
        self.emit(line, "ok".into());
    }
    /// `reset`/`init` on the plain decoder
    pub fn reset(&mut self) -> bool {
        self.unstream();
        let res = if let Dec::Plain(d, r) = &mut self.dec { guarded(|| d.reset(&mut *r)) } else { unreachable!() };
        self.delivered.clear();
        let (s, ok) = match res {
            Ok(Ok(())) => ("ok".to_string(), true),
            Ok(Err(e)) => (frame_err(&e), false),
            Err(p) => {
                self.oracle_fail("C03", "panic_reset", format!("panic in reset: {}", p));
                ("fault".to_string(), false)
            }
        };
        self.failed = !ok;
        self.began = ok;
        if !ok {
            self.rejected("reset", &s);
        }
        self.emit("dec reset".into(), s);
        ok
    }
    /// `StreamingDecoder::new_with_decoder` (= init) and switch to streaming mode
    pub fn stream_init(&mut self) -> bool {
        self.unstream();
        let (d, r) = match std::mem::replace(&mut self.dec, Dec::Gone) {
            Dec::Plain(d, r) => (d, r),
            _ => unreachable!(),
        };
        self.delivered.clear();
        // new_with_decoder consumes both; on error they are lost, so probe with a clone of the reader first
        let probe_data = r.data.clone();
        let probe_pos = r.pos;
        let frags = r.frags.clone();
        match StreamingDecoder::new_with_decoder(r, d) {
            Ok(s) => {
                self.dec = Dec::Streaming(s);
                self.failed = false;
                self.began = true;
                self.emit("dec reset".into(), "ok".into());
                true
            }
            Err(e) => {
                // rebuild an equivalent plain decoder: a failed init on a fresh decoder leaves it fresh
                let mut r2 = FragReader::new(probe_data, frags);
                r2.pos = probe_pos;
                self.dec = Dec::Plain(FrameDecoder::new(), r2);
                self.failed = true;
                // the model keeps its previous decoder on a failed reset; only use stream_init on fresh decoders
                self.emit("dec new".into(), "ok".into());
                let _ = e;
                false
            }
        }
    }
    pub fn blocks(&mut self, strat: &str) {
        self.unstream();
        let st = match strat.split(':').collect::<Vec<_>>()[..] {
            ["all"] => BlockDecodingStrategy::All,
            ["blocks", n] => BlockDecodingStrategy::UptoBlocks(n.parse().unwrap()),
            ["bytes", n] => BlockDecodingStrategy::UptoBytes(n.parse().unwrap()),
            _ => unreachable!(),
        };
        let before = self.fd().can_collect();
        let res = if let Dec::Plain(d, r) = &mut self.dec { guarded(|| d.decode_blocks(&mut *r, st)) } else { unreachable!() };
        let s = match res {
            Ok(Ok(f)) => format!("ok {}", f as u8),
            Ok(Err(e)) => {
                self.failed = true;
                frame_err(&e)
            }
            Err(p) => {
                self.failed = true;
                self.oracle_fail("C03", "panic_decode_blocks", format!("panic in decode_blocks: {}", p));
                "fault".into()
            }
        };
        let _ = before;
        if self.failed {
            self.rejected("decode_blocks", &s);
        }
        self.emit(format!("dec blocks {}", strat), s);
        self.check_progress();
    }
    fn deliver(&mut self, bytes: &[u8]) {
        self.delivered.extend_from_slice(bytes);
        self.run.oracle_checks += 1;
        if let Some(t) = &self.truth {
            let ok = self.delivered.len() <= t.original.len() && t.original[..self.delivered.len()] == self.delivered[..];
            if !ok {
                let n = self.delivered.len();
                let m = t.original.len();
                self.oracle_fail("C06", "delivered_not_prefix", format!("bytes handed out ({} so far) are not a prefix of the original ({} bytes): lost, duplicated, reordered or wrong", n, m));
                self.oracle_fail("C01", "wrong_bytes", format!("decoded bytes differ from the original data ({} delivered, {} original)", n, m));
                self.oracle_fail("C10", "delivered_not_prefix", "bytes delivered are not a prefix of the true content".into());
            }
        }
    }
    /// once finished and fully drained: totals, consumed count, checksums
    fn check_progress(&mut self) {
        let (fin, can, read, cks, calc) = {
            let d = self.fd();
            (d.is_finished(), d.can_collect(), d.bytes_read_from_source(), d.get_checksum_from_data(), d.get_calculated_checksum())
        };
        let failed = self.failed;
        let dl = self.delivered.len();
        let Some(t) = &self.truth else { return };
        let (olen, flen, complete, has_ck) = (t.original.len(), t.frame_len, t.complete, t.has_checksum);
        let expect_ck = (xxh64(&t.original, 0) & 0xffff_ffff) as u32;
        let dck = (xxh64(&self.delivered, 0) & 0xffff_ffff) as u32;
        self.run.oracle_checks += 1;
        // "never in a finished state": also not after the error (once `reset` succeeded on this source, the decoder's
        // state describes this frame; before that it may still describe an earlier one)
        if !complete && fin && (!failed || self.began) {
            self.oracle_fail("C10", "prefix_finished", format!("a strict prefix ({} bytes of source) ended in a finished state{}", flen, if failed { " (after reporting an error)" } else { "" }));
        }
        if fin && can == 0 && !failed && complete {
            if dl != olen {
                self.oracle_fail("C06", "delivered_total", format!("frame finished and drained but {} bytes were delivered, original has {}", dl, olen));
                self.oracle_fail("C01", "wrong_bytes", format!("frame finished and drained but {} bytes were delivered, original has {}", dl, olen));
            }
            if read as usize != flen {
                self.oracle_fail("C10", "consumed_ne_frame_len", format!("consumed {} source bytes, frame is {} bytes", read, flen));
                self.oracle_fail("C06", "consumed_ne_frame_len", format!("consumed {} source bytes, frame is {} bytes", read, flen));
            }
            if calc != Some(dck) {
                self.oracle_fail("C08", "calc_ne_xxh64_delivered", format!("calculated checksum {:?} != low32(XXH64(delivered)) {}", calc, dck));
                // "the final checksum values are identical no matter how decoding is driven" (the frame's content is fixed)
                self.oracle_fail("C06", "final_checksum_depends_on_schedule", format!("calculated checksum {:?} after this driver program != low32(XXH64(content)) {}", calc, dck));
            }
            if has_ck && cks != Some(expect_ck) {
                self.oracle_fail("C08", "stored_ne_xxh64_original", format!("checksum from data {:?} != low32(XXH64(original)) {}", cks, expect_ck));
            }
            if has_ck && cks != calc {
                self.oracle_fail("C08", "stored_ne_calculated", format!("stored {:?} != calculated {:?} on a valid frame", cks, calc));
            }
        }
    }
    pub fn collect(&mut self) {
        self.unstream();
        let res = guarded(|| self.fd().collect());
        let s = match res {
            Ok(Some(v)) => {
                let s = format!("ok {}", show_bytes(&v));
                self.deliver(&v);
                s
            }
            Ok(None) => "none".into(),
            Err(p) => {
                self.oracle_fail("C03", "panic_collect", format!("panic in collect: {}", p));
                "fault".into()
            }
        };
        self.emit("dec collect".into(), s);
        self.check_progress();
    }
    pub fn read(&mut self, n: usize) {
        self.unstream();
        let mut buf = vec![0xAAu8; n];
        let res = guarded(|| self.fd().read(&mut buf));
        let s = match res {
            Ok(Ok(k)) => {
                let s = format!("ok {}", show_bytes(&buf[..k]));
                let b = buf[..k].to_vec();
                self.deliver(&b);
                s
            }
            Ok(Err(_)) => "err sink".into(),
            Err(p) => {
                self.oracle_fail("C03", "panic_read", format!("panic in read: {}", p));
                "fault".into()
            }
        };
        self.emit(format!("dec read {}", n), s);
        self.check_progress();
    }
    pub fn to_writer(&mut self, chunk: usize, budget: usize, fail: bool) {
        self.unstream();
        let mut sink = BudgetSink { got: vec![], chunk, budget, fail };
        let res = guarded(|| self.fd().collect_to_writer(&mut sink));
        let got = std::mem::take(&mut sink.got);
        let s = match res {
            Ok(Ok(k)) => {
                if k != got.len() {
                    self.oracle_fail("C06", "sink_count", format!("collect_to_writer reported {} bytes, the sink received {}", k, got.len()));
                }
                format!("ok {}", k)
            }
            Ok(Err(_)) => format!("err sink {}", got.len()),
            Err(p) => {
                self.oracle_fail("C03", "panic_collect_to_writer", format!("panic in collect_to_writer: {}", p));
                "fault".into()
            }
        };
        self.deliver(&got);
        // the model sees the sink as (budget, behaviour when exhausted); the chunk size must not matter
        self.emit(format!("dec towriter {} {}", budget, if fail { "f" } else { "z" }), s);
        self.check_progress();
    }
    pub fn sread(&mut self, n: usize) {
        let mut buf = vec![0x55u8; n];
        let res = match &mut self.dec {
            Dec::Streaming(s) => guarded(|| s.read(&mut buf)),
            _ => return,
        };
        let s = match res {
            Ok(Ok(k)) => {
                let s = format!("ok {}", show_bytes(&buf[..k]));
                let b = buf[..k].to_vec();
                self.deliver(&b);
                s
            }
            Ok(Err(e)) => {
                self.failed = true;
                match e.get_ref().and_then(|x| x.downcast_ref::<ruzstd::decoding::errors::FrameDecoderError>()) {
                    Some(fe) => frame_err(fe),
                    None => "err other".into(),
                }
            }
            Err(p) => {
                self.failed = true;
                self.oracle_fail("C03", "panic_streaming_read", format!("panic in StreamingDecoder::read: {}", p));
                "fault".into()
            }
        };
        if self.failed {
            self.rejected("StreamingDecoder::read", &s);
        }
        self.emit(format!("dec sread {}", n), s);
        self.check_progress();
    }
    pub fn from_to(&mut self, chunk: &[u8], n: usize) -> Option<(usize, usize)> {
        self.unstream();
        let mut buf = vec![0x77u8; n];
        let res = guarded(|| self.fd().decode_from_to(chunk, &mut buf));
        let mut ret = None;
        let s = match res {
            Ok(Ok((r, w))) => {
                self.run.oracle_checks += 1;
                if r > chunk.len() {
                    self.oracle_fail("C06", "decode_from_to_overreport", format!("decode_from_to reported {} source bytes consumed but was given {}", r, chunk.len()));
                    self.oracle_fail("C10", "decode_from_to_overreport", format!("decode_from_to reported {} source bytes consumed but was given {}", r, chunk.len()));
                }
                if w > n {
                    self.oracle_fail("C06", "decode_from_to_overwrite", format!("decode_from_to reported {} bytes written into a target of {}", w, n));
                }
                let b = buf[..w.min(n)].to_vec();
                self.deliver(&b);
                ret = Some((r, w));
                format!("ok {} {}", r, show_bytes(&b))
            }
            Ok(Err(e)) => {
                self.failed = true;
                frame_err(&e)
            }
            Err(p) => {
                self.failed = true;
                self.oracle_fail("C03", "panic_decode_from_to", format!("panic in decode_from_to: {}", p));
                "fault".into()
            }
        };
        self.emit(format!("dec fromto {} {}", hex(chunk), n), s);
        self.check_progress();
        ret
    }
    pub fn decode_all(&mut self, input: &[u8], room: usize, expect: Option<&[u8]>) {
        self.unstream();
        let mut out = vec![0x33u8; room + 16];
        let res = guarded(|| self.fd().decode_all(input, &mut out[..room]));
        let s = match res {
            Ok(Ok(k)) => {
                self.run.oracle_checks += 1;
                if let Some(why) = self.must_fail.take() {
                    self.oracle_fail("C10", "decode_all_silent_success", format!("decode_all returned Ok({}) on {} (must be an error, never a silent truncation)", k, why));
                }
                if let Some(e) = expect {
                    if k != e.len() || out[..k.min(room)] != e[..] {
                        self.oracle_fail("C10", "decode_all_wrong", format!("decode_all returned {} bytes, expected the concatenated contents ({} bytes)", k, e.len()));
                    }
                }
                format!("ok {}", show_bytes(&out[..k.min(room)]))
            }
            Ok(Err(e)) => {
                if let Some(ex) = expect {
                    if room >= ex.len() {
                        self.oracle_fail("C10", "decode_all_rejects_valid", format!("decode_all failed ({}) on valid concatenated frames with a large enough target", frame_err(&e)));
                    }
                }
                frame_err(&e)
            }
            Err(p) => {
                self.oracle_fail("C03", "panic_decode_all", format!("panic in decode_all: {}", p));
                "fault".into()
            }
        };
        if out[room..].iter().any(|&b| b != 0x33) {
            self.oracle_fail("C10", "decode_all_oob", "decode_all wrote past the end of the target slice".into());
        }
        self.must_fail = None;
        self.emit(format!("dec all {} {}", hex(input), room), s);
    }
    /// `decode_all_to_vec` into a vector that already holds `prefix` and has `room` spare capacity; the
    /// model sees it as `decode_all` with a target of `room` bytes
    pub fn decode_all_to_vec(&mut self, input: &[u8], prefix: &[u8], room: usize, expect: Option<&[u8]>) {
        self.unstream();
        let mut out: Vec<u8> = Vec::with_capacity(prefix.len() + room);
        out.extend_from_slice(prefix);
        let room = out.capacity() - out.len(); // the allocator may round up
        let res = guarded(|| self.fd().decode_all_to_vec(input, &mut out));
        self.run.oracle_checks += 1;
        let s = match res {
            Ok(Ok(())) => {
                if let Some(why) = self.must_fail.take() {
                    self.oracle_fail("C10", "decode_all_silent_success", format!("decode_all_to_vec returned Ok on {} (must be an error, never a silent truncation)", why));
                }
                if out.len() < prefix.len() || out[..prefix.len()] != prefix[..] {
                    self.oracle_fail("C10", "vec_prefix_clobbered", "decode_all_to_vec changed the bytes already in the vector".into());
                }
                let got = out[prefix.len().min(out.len())..].to_vec();
                if let Some(e) = expect {
                    if got != e {
                        self.oracle_fail("C10", "decode_all_wrong", format!("decode_all_to_vec appended {} bytes, expected {}", got.len(), e.len()));
                    }
                }
                format!("ok {} vec={} pre={}", show_bytes(&got), out.len(), show_bytes(&out[..prefix.len().min(out.len())]))
            }
            Ok(Err(e)) => {
                if out != prefix {
                    self.oracle_fail("C10", "vec_changed_on_failure", format!("decode_all_to_vec failed ({}) but left the vector changed (len {} vs {})", frame_err(&e), out.len(), prefix.len()));
                }
                if let Some(ex) = expect {
                    if room >= ex.len() {
                        self.oracle_fail("C10", "decode_all_rejects_valid", format!("decode_all_to_vec failed ({}) with enough spare capacity", frame_err(&e)));
                    }
                }
                format!("{} vec={} pre={}", frame_err(&e), out.len(), show_bytes(&out[..prefix.len().min(out.len())]))
            }
            Err(p) => {
                self.oracle_fail("C03", "panic_decode_all", format!("panic in decode_all_to_vec: {}", p));
                "fault".into()
            }
        };
        self.must_fail = None;
        // the model's `decodeAllToVec` (resize to capacity, decode_all into the spare capacity, truncate back on both paths)
        self.emit(format!("dec allvec {} {} {}", hex(input), if prefix.is_empty() { "-".to_string() } else { hex(prefix) }, room), s);
    }
    pub fn finished(&mut self) -> bool {
        self.fd().is_finished()
    }
    pub fn can(&mut self) -> usize {
        self.fd().can_collect()
    }
    pub fn is_failed(&self) -> bool {
        self.failed
    }
}

fn frags(rng: &mut Rng) -> Vec<usize> {
    match rng.below(5) {
        0 => vec![],
        1 => vec![1],
        2 => vec![rng.range(1, 7) as usize, rng.range(1, 64) as usize],
        3 => (0..rng.range(1, 6)).map(|_| rng.range(1, 5000) as usize).collect(),
        _ => vec![rng.range(1, 100000) as usize],
    }
}

/// one random drain operation
fn drain_op(p: &mut Prog, rng: &mut Rng) {
    match rng.below(7) {
        0 | 1 => p.collect(),
        2 | 3 => {
            let n = *rng.pick(&[0usize, 1, 7, 100, 4096, 70000, 1 << 20]);
            p.read(n)
        }
        _ => {
            let chunk = *rng.pick(&[1usize, 3, 64, 4096, 1 << 20]);
            // budgets relative to what is collectable, so that the sink stops (or fails) anywhere in the first OR the
            // second ring segment, not only near the front
            let can = p.can();
            let budget = match rng.below(3) {
                0 => *rng.pick(&[0usize, 1, 5, 100, 5000, 100000, usize::MAX >> 8]),
                1 => (can / 8) * rng.below(9) as usize + rng.below(3) as usize,
                _ => can.saturating_sub(rng.below(can.min(4096) as u64 + 1) as usize),
            };
            p.to_writer(chunk, budget, rng.chance(1, 2))
        }
    }
}

fn budget_strat(rng: &mut Rng, window: usize) -> String {
    match rng.below(8) {
        0 => "all".into(),
        1 => format!("blocks:{}", rng.range(0, 3)),
        2 => "blocks:1".into(),
        3 => format!("bytes:{}", rng.range(0, 2)),
        4 => format!("bytes:{}", window.saturating_sub(1) + rng.below(3) as usize),
        5 => format!("bytes:{}", rng.below(300000)),
        6 => "bytes:18446744073709551615".into(),
        _ => format!("bytes:{}", rng.below(5000)),
    }
}

/// Drive one frame with the block-level API until it is finished (or fails), draining in between.
pub fn drive_blocks(p: &mut Prog, rng: &mut Rng, window: usize) {
    if !p.reset() {
        return;
    }
    let mut ops = 0;
    while !p.finished() && !p.is_failed() && ops < 400 {
        let s = budget_strat(rng, window);
        p.blocks(&s);
        ops += 1;
        for _ in 0..rng.below(3) {
            drain_op(p, rng);
        }
    }
    let mut guard = 0;
    while p.can() > 0 && guard < 200 {
        drain_op(p, rng);
        guard += 1;
    }
    if p.can() > 0 {
        p.collect();
    }
}

pub fn drive_streaming(p: &mut Prog, rng: &mut Rng) {
    if !p.stream_init() {
        return;
    }
    let mut guard = 0;
    loop {
        let n = *rng.pick(&[1usize, 2, 7, 100, 4096, 65536, 200000]);
        let before = p.delivered.len();
        p.sread(n);
        guard += 1;
        if p.is_failed() || guard > 3000 {
            break;
        }
        if p.delivered.len() == before && n > 0 {
            break; // Ok(0): end of stream
        }
    }
}

/// Feed the frame through `decode_from_to` in chunks; the caller advances by the reported count.
pub fn drive_from_to(p: &mut Prog, rng: &mut Rng, frame: &[u8]) {
    let mut pos = 0usize;
    let mut stall = 0;
    let mut guard = 0;
    let mut want = *rng.pick(&[1usize, 3, 10, 100, 1000, 40000, 200000]);
    while guard < 3000 {
        guard += 1;
        let end = (pos + want).min(frame.len());
        let n = *rng.pick(&[0usize, 1, 64, 4096, 150000]);
        let before = p.delivered.len();
        match p.from_to(&frame[pos..end], n) {
            Some((r, _)) => {
                pos = (pos + r).min(frame.len());
                if r == 0 && p.delivered.len() == before {
                    stall += 1;
                    // "retry with more": widen the window of source bytes offered
                    want = (want * 2 + 1).min(frame.len().max(1) * 2);
                } else {
                    stall = 0;
                }
            }
            None => {
                // an error: if the decoder is still uninitialised the API allows retrying with more
                if p.fd().bytes_read_from_source() == 0 && end < frame.len() && stall < 40 {
                    stall += 1;
                    want = want * 2 + 1;
                    p.failed = false;
                    continue;
                }
                break;
            }
        }
        if p.finished() && p.can() == 0 {
            break;
        }
        if stall > 60 {
            break;
        }
    }
    // a complete valid frame, offered in full (the driver widens what it offers whenever a call makes no progress):
    // the slice-to-slice call must get to the end of it
    let complete = p.truth.as_ref().map(|t| t.complete).unwrap_or(false);
    if complete && !p.is_failed() && !p.lenient_truth {
        p.run.oracle_checks += 1;
        // (`stall` counts consecutive calls without progress although the whole rest of the frame was on offer; the loop's
        // iteration guard ending a frame of thousands of tiny blocks early is not a failure)
        if !p.finished() && stall > 60 {
            let (consumed, total) = (pos, frame.len());
            p.oracle_fail_pub("C06", "decode_from_to_does_not_finish", format!("decode_from_to never finishes a complete valid frame: stuck after consuming {} of {} source bytes ({} bytes delivered)", consumed, total, p.delivered.len()));
            p.oracle_fail_pub("C01", "rejects_valid_frame", format!("decode_from_to never finishes a complete valid frame: stuck after consuming {} of {} source bytes", consumed, total));
            p.oracle_fail_pub("C10", "decode_from_to_does_not_finish", format!("decode_from_to treats a complete valid frame as truncated: stuck after consuming {} of {} source bytes", consumed, total));
        }
    }
}

pub struct Case {
    pub label: String,
    pub frame: Vec<u8>,
    pub original: Vec<u8>,
    pub has_checksum: bool,
    pub window: usize,
}

impl Case {
    pub fn clone_case(&self) -> Case {
        Case { label: self.label.clone(), frame: self.frame.clone(), original: self.original.clone(), has_checksum: self.has_checksum, window: self.window }
    }
}

pub fn gen_case(rng: &mut Rng, max: usize, i: usize) -> Case {
    let kind = gen::DATA_KINDS[i % gen::DATA_KINDS.len()];
    let len = gen::pick_len(rng, max);
    let d = gen::data(rng, kind, len);
    if rng.chance(1, 5) {
        // a frame from ruzstd's own compressor
        let lvl = if rng.chance(1, 3) { ruzstd::encoding::CompressionLevel::Uncompressed } else { ruzstd::encoding::CompressionLevel::Fastest };
        let f = ruzstd::encoding::compress_to_vec(&d[..], lvl);
        return Case { label: format!("ruzstd {:?} {} {}", lvl, kind, d.len()), frame: f, original: d, has_checksum: true, window: 131072 };
    }
    let p = gen::zparams(rng);
    let f = gen::zstd_frame(&d, &p, None);
    let window = p.window_log.map(|w| 1usize << w).unwrap_or(1 << 21);
    Case { label: format!("libzstd {} {} {}", p.describe(), kind, d.len()), frame: f, original: d, has_checksum: p.checksum, window }
}

// ------------------------------------------------------------------------------------------------
// directed frames and MALFORMED block content
//
// The model behind the `dec` request lines runs the FAITHFUL block decoder (Lean `Blk.decompressBlock`, instance B of
// `Model/FrameDecoder`), so the comparison line by line covers malformed frames too: the same error variant family
// (`errmap.rs`: literalsHeader / literalsTooLarge / malformedSection / literals / seqHeader / sequences / exec… /
// blockSizeTooLarge / …), the same observable state left behind, and — the decoder being reused for a good frame
// afterwards — the same scratch after `reset`.  (After an error the programs only drain, query and reset: decoding
// on in a failed frame is outside the documented use.)

use crate::synth::{self, Block, Lit, SeqBlock};

fn rle_seq(lits: Lit, ll: u8, ml: u8, of: u8, seqs: Vec<(u32, u32, u32)>) -> SeqBlock {
    SeqBlock { lits, ll_code: ll, ml_code: ml, of_code: of, seqs, count_bytes: None, modes: None, repeat: [false; 3], trailer: vec![] }
}

/// single-segment frame (declared content size 0) around one compressed block with this body
fn frame_of_body(body: &[u8]) -> Vec<u8> {
    let mut f = vec![0x28, 0xB5, 0x2F, 0xFD, 0x20, 0x00];
    let v = 1u32 | (2 << 1) | ((body.len() as u32) << 3);
    f.extend_from_slice(&v.to_le_bytes()[..3]);
    f.extend_from_slice(body);
    f
}

pub struct Directed {
    pub label: String,
    pub frame: Vec<u8>,
    pub expected: Option<Vec<u8>>,
    pub window: usize,
}

/// (i) block sizes around and above 128 KiB (raw, RLE, literals only, literals + matches = the F1 shape),
/// (iii) truncated / degenerate sequences sections
pub fn directed_frames(rng: &mut Rng) -> Vec<Directed> {
    let mut v = Vec::new();
    let wdesc = 0x50u8; // 1 MiB
    let w = synth::window_of(wdesc) as usize;
    let mut push = |label: String, f: synth::Frame| {
        let (bytes, exp) = synth::serialize(&f, &[]);
        v.push(Directed { label, frame: bytes, expected: exp, window: w });
    };
    for &n in &[131071usize, 131072, 131073, 131074, 196608, 262143, 262144] {
        let body = rng.bytes(n);
        let b = if n <= 131072 { Block::Raw(body) } else { Block::Bytes { btype: 0, size: n as u32, body } };
        push(format!("raw block of {} bytes", n), synth::Frame::simple(vec![b, Block::Raw(vec![1, 2, 3])], wdesc, true));
        let b = if n <= 131072 { Block::Rle(0x5a, n) } else { Block::Bytes { btype: 1, size: n as u32, body: vec![0x5a] } };
        push(format!("rle block of {} bytes", n), synth::Frame::simple(vec![Block::Raw(vec![9]), b], wdesc, false));
        // a compressed block whose literals section alone declares n bytes
        push(format!("rle literals of {} bytes, no sequences", n), synth::Frame::simple(vec![Block::Comp(rle_seq(Lit::Rle(7, n), 0, 0, 0, vec![]))], wdesc, false));
    }
    // literals + one match regenerating exactly 128 KiB / one byte more / far more (offset 1 over the literals)
    for &(nl, mle) in &[(65533usize, 0u32), (65534, 0), (65533, 1), (100_000, 0xFFFF), (131072, 0), (1, 0xFFFF)] {
        // ll_code 0 = no literals before the match: the literals follow it as the block's tail; a raw block in front
        push(
            format!("F1 shape: match 65539+{} then {} literals", mle, nl),
            synth::Frame::simple(vec![Block::Raw(vec![0x41]), Block::Comp(rle_seq(Lit::Rle(0x42, nl), 0, 52, 2, vec![(0, mle, 0)]))], wdesc, true),
        );
    }
    // several matches whose sum crosses 128 KiB at the 2nd / 3rd sequence
    for &k in &[2usize, 3, 5] {
        push(
            format!("F1 shape: {} matches of 65539 bytes", k),
            synth::Frame::simple(vec![Block::Raw(vec![0x41, 0x42]), Block::Comp(rle_seq(Lit::Raw(vec![]), 0, 52, 2, vec![(0, 0, 0); k]))], wdesc, false),
        );
    }
    // (iii) sequences sections that end early: lone count bytes, count without modes, modes without tables, …
    let lit0 = [0x00u8]; // raw literals, 0 bytes
    let bodies: Vec<(&str, Vec<u8>)> = vec![
        ("lone count byte 01", vec![0x01]),
        ("lone count byte 7f", vec![0x7f]),
        ("first byte of a 2-byte count", vec![0x80]),
        ("first byte of a 3-byte count", vec![0xff]),
        ("two bytes of a 3-byte count", vec![0xff, 0x01]),
        ("2-byte count 0 (80 00)", vec![0x80, 0x00]),
        ("2-byte count 0 then a byte", vec![0x80, 0x00, 0x00]),
        ("count 0 then a byte", vec![0x00, 0xaa]),
        ("no sequences section at all", vec![]),
        ("count 1, modes RLE, no table bytes", vec![0x01, 0x54]),
        ("count 1, modes RLE, one table byte", vec![0x01, 0x54, 0x00]),
        ("count 1, modes RLE, tables, no bitstream", vec![0x01, 0x54, 0x00, 0x02, 0x00]),
        ("count 1, modes predefined, no bitstream", vec![0x01, 0x00]),
        ("count 1, modes repeat without tables", vec![0x01, 0xfc, 0x01]),
        ("count 1, reserved bits in modes", vec![0x01, 0x57, 0x00, 0x02, 0x00, 0x01]),
        ("count 1, modes FSE, garbage", vec![0x01, 0xa8, 0xff, 0xff, 0xff, 0xff]),
        ("count 1, bitstream 00 (no end mark)", vec![0x01, 0x54, 0x00, 0x02, 0x00, 0x00]),
    ];
    for (what, tail) in bodies {
        let mut body = lit0.to_vec();
        body.extend_from_slice(&tail);
        v.push(Directed { label: format!("sequences section: {}", what), frame: frame_of_body(&body), expected: None, window: 1 << 17 });
        // the same behind three literals
        let mut body = vec![0x18, b'a', b'b', b'c'];
        body.extend_from_slice(&tail);
        v.push(Directed { label: format!("literals abc + sequences section: {}", what), frame: frame_of_body(&body), expected: None, window: 1 << 17 });
    }
    // the empty block body and literals headers that end early
    for body in [vec![], vec![0x04], vec![0x0c, 0x00], vec![0x02], vec![0x03, 0x00, 0x00], vec![0x08, 0x61], vec![0x01, 0x62], vec![0x09]] {
        v.push(Directed { label: format!("block body {}", hex(&body)), frame: frame_of_body(&body), expected: None, window: 1 << 17 });
    }
    v
}

/// one frame through the three front ends; the block-driver's decoder is then reused for a good frame
fn run_frame(run: &mut Run, rng: &mut Rng, d: &Directed, probe: Option<&Case>) {
    let has_ck = d.frame.len() > 4 && d.frame[4] & 4 != 0;
    let truth = |n: usize| d.expected.as_ref().map(|e| Truth { original: e.clone(), frame_len: n, complete: true, has_checksum: has_ck });
    {
        let mut p = Prog::new(run, &d.label);
        let fr = frags(rng);
        p.set_src(d.frame.clone(), fr, truth(d.frame.len()));
        drive_blocks(&mut p, rng, d.window);
        if let Some(c) = probe {
            p.set_src(c.frame.clone(), vec![], Some(Truth { original: c.original.clone(), frame_len: c.frame.len(), complete: true, has_checksum: c.has_checksum }));
            drive_blocks(&mut p, rng, c.window);
            p.run.stat("good_frame_after_directed_or_malformed", 1);
        }
    }
    {
        let mut p = Prog::new(run, &d.label);
        let fr = frags(rng);
        p.set_src(d.frame.clone(), fr, truth(d.frame.len()));
        drive_streaming(&mut p, rng);
    }
    {
        let mut p = Prog::new(run, &d.label);
        p.truth = truth(d.frame.len());
        drive_from_to(&mut p, rng, &d.frame);
    }
}

/// (ii) a match at offset exactly = window (and window ± 1) as the first thing decoded right after a drain that
/// left exactly `window` bytes in the buffer; also without the drain
fn offset_at_window(run: &mut Run, rng: &mut Rng) {
    for wdesc in [0u8, 1, 8] {
        let w = synth::window_of(wdesc) as usize;
        for delta in [-1i64, 0, 1] {
            for extra in [0usize, 1, 700] {
                let off = (w as i64 + delta) as u32;
                // offset value = offset + 3 = 2^code + extra bits
                let ov = off + 3;
                let code = 31 - ov.leading_zeros();
                let ofe = ov - (1 << code);
                let first = rng.bytes(w);
                let second = rng.bytes(extra);
                let mut blocks = vec![Block::Raw(first)];
                if extra > 0 {
                    blocks.push(Block::Raw(second));
                }
                let n_before = blocks.len();
                blocks.push(Block::Comp(rle_seq(Lit::Raw(vec![b'x', b'y', b'z']), 0, 10, code as u8, vec![(0, 0, ofe)])));
                blocks.push(Block::Raw(vec![b'!']));
                let f = synth::Frame::simple(blocks, wdesc, true);
                let (bytes, exp) = synth::serialize(&f, &[]);
                for drain in [true, false] {
                    let label = format!("match at offset window{:+} (window {}, {} bytes before, {})", delta, w, w + extra, if drain { "drained" } else { "not drained" });
                    let mut p = Prog::new(run, &label);
                    p.set_src(bytes.clone(), vec![], exp.as_ref().map(|e| Truth { original: e.clone(), frame_len: bytes.len(), complete: true, has_checksum: true }));
                    if !p.reset() {
                        continue;
                    }
                    p.blocks(&format!("blocks:{}", n_before));
                    if drain {
                        // leaves exactly `window` bytes behind
                        match rng.below(3) {
                            0 => p.collect(),
                            1 => p.read(1 << 20),
                            _ => p.to_writer(4096, usize::MAX >> 8, false),
                        }
                    }
                    p.blocks("blocks:1");
                    if !p.is_failed() {
                        p.blocks("all");
                    }
                    p.collect();
                    p.run.stat("offset_at_window_programs", 1);
                }
                // and under the random drivers
                run_frame(run, rng, &Directed { label: format!("match at offset window{:+} (window {})", delta, w), frame: bytes.clone(), expected: exp.clone(), window: w }, None);
            }
        }
    }
}

/// frames with corrupted block content: byte mutations of good frames, and the structure-aware hostile frames
fn malformed(run: &mut Run, rng: &mut Rng, thorough: bool) {
    let n = if thorough { 500 } else { 40 };
    for i in 0..n {
        let c = gen_case(rng, if thorough { 20_000 } else { 6_000 }, i);
        if c.frame.len() < 12 {
            continue;
        }
        let mut f = c.frame.clone();
        // leave the frame header alone (the header paths are covered elsewhere; a mutated window descriptor only
        // makes the real decoder allocate): mutate 1-3 bytes behind it
        let lo = 8.min(f.len() - 1);
        for _ in 0..rng.range(1, 3) {
            let at = lo + rng.below((f.len() - lo) as u64) as usize;
            match rng.below(4) {
                0 => f[at] ^= 1 << rng.below(8),
                1 => f[at] = rng.next() as u8,
                2 => f[at] = f[at].wrapping_add(1),
                _ => f[at] = *rng.pick(&[0u8, 0xff, 0x80, 0x7f]),
            }
        }
        if rng.chance(1, 6) {
            let cut = lo + rng.below((f.len() - lo) as u64) as usize;
            f.truncate(cut);
        }
        let same = f == c.frame;
        let d = Directed { label: format!("mutated: {}", c.label), frame: f, expected: if same { Some(c.original.clone()) } else { None }, window: c.window };
        let probe = if i % 2 == 0 { Some(&c) } else { None };
        run_frame(run, rng, &d, probe);
        run.stat("mutated_frames", 1);
    }
    let n = if thorough { 400 } else { 48 };
    let probe = gen_case(rng, 3000, 2);
    for i in 0..n {
        let (bytes, label) = synth::hostile_frame(rng);
        if bytes.len() > 150_000 {
            continue;
        }
        let d = Directed { label: format!("hostile: {}", label), frame: bytes, expected: None, window: 1 << 17 };
        run_frame(run, rng, &d, if i % 3 == 0 { Some(&probe) } else { None });
        run.stat("hostile_frames_to_model", 1);
    }
}

pub fn run(opts: &Opts) -> Run {
    let mut run = Run::new("dec");
    let mut rng = Rng::new(opts.seed ^ 0xdec0de);
    let n = if opts.thorough { 250 } else { 36 };
    let max = if opts.thorough { 300_000 } else { 30_000 };
    // the repository's decode corpus first (frames from zstd's decodecorpus generator)
    let corpus = gen::repo_corpus(if opts.thorough { 200_000 } else { 10_000 });
    let take = if opts.thorough { corpus.len() } else { 14 };
    let start = if corpus.is_empty() { 0 } else { (opts.seed as usize * 13) % corpus.len() };
    let mut corpus_cases: Vec<Case> = Vec::new();
    for k in 0..take.min(corpus.len()) {
        let (name, f, o) = &corpus[(start + k) % corpus.len()];
        // single-frame files only for the driver programs (they know the frame length)
        if crate::gen::zstd_decode(f, None, 1 << 26).as_deref() == Some(&o[..]) {
            corpus_cases.push(Case { label: format!("repo corpus {}", name), frame: f.clone(), original: o.clone(), has_checksum: f.len() > 4 && f[4] & 4 != 0, window: 1 << 17 });
        }
    }
    run.stat("repo_corpus_frames", corpus_cases.len() as u64);
    // one block with > 64 KiB of Huffman-compressed literals (four streams, the first three together above 65535 bytes):
    // decoded once by the model too
    {
        let d: Vec<u8> = (0..133_000).map(|_| 32 + rng.below(64) as u8).collect();
        let f = gen::zstd_frame(&d, &gen::ZParams { level: 1, window_log: None, ldm: false, checksum: true, content_size: false, flush_every: None, min_match: None, strategy_btultra: false }, None);
        let mut p = Prog::new(&mut run, "big four-stream literals (133000 bytes of 64-value noise)");
        p.set_src(f.clone(), vec![], Some(Truth { original: d, frame_len: f.len(), complete: true, has_checksum: true }));
        if p.reset() {
            p.blocks("all");
            p.collect();
        }
        p.run.stat("big_literal_programs", 1);
    }
    let n_corpus = corpus_cases.len();
    for i in 0..(n + n_corpus) {
        let c = if i < n_corpus { corpus_cases[i].clone_case() } else { gen_case(&mut rng, max, i) };
        run.stat("frames", 1);
        run.stat("frame_bytes", c.frame.len() as u64);
        if i < 3 {
            run.samples.push(format!("{} -> frame of {} bytes", c.label, c.frame.len()));
        }
        let truth = |complete: bool, len: usize| Some(Truth { original: c.original.clone(), frame_len: len, complete, has_checksum: c.has_checksum });
        // (a) block-level driver
        {
            let mut p = Prog::new(&mut run, &c.label);
            let fr = frags(&mut rng);
            p.set_src(c.frame.clone(), fr, truth(true, c.frame.len()));
            drive_blocks(&mut p, &mut rng, c.window);
            // the same decoder, reused for the same frame again through another driver
            if rng.chance(1, 2) {
                let fr = frags(&mut rng);
                p.set_src(c.frame.clone(), fr, truth(true, c.frame.len()));
                drive_blocks(&mut p, &mut rng, c.window);
            }
        }
        // (b) streaming front end
        {
            let mut p = Prog::new(&mut run, &c.label);
            let fr = frags(&mut rng);
            p.set_src(c.frame.clone(), fr, truth(true, c.frame.len()));
            drive_streaming(&mut p, &mut rng);
        }
        // (c) slice-to-slice
        {
            let mut p = Prog::new(&mut run, &c.label);
            p.truth = truth(true, c.frame.len());
            drive_from_to(&mut p, &mut rng, &c.frame);
        }
        // (c2) slice-to-slice with MORE data behind the frame in the same slice (another frame, zero padding, garbage): the
        // call must stop exactly at the end of the frame, whether or not the frame carries a checksum
        if i % 2 == 0 {
            let tail: Vec<u8> = match rng.below(3) {
                0 => c.frame.clone(),
                1 => vec![0u8; 64],
                _ => rng.bytes(40),
            };
            let mut both = c.frame.clone();
            both.extend_from_slice(&tail);
            let mut p = Prog::new(&mut run, &format!("{} + {} bytes behind the frame", c.label, tail.len()));
            p.truth = truth(true, c.frame.len());
            drive_from_to(&mut p, &mut rng, &both);
            p.run.stat(if c.has_checksum { "from_to_with_data_behind:checksum" } else { "from_to_with_data_behind:no_checksum" }, 1);
        }
        // (d) truncation: strict prefixes must end in an error / not finished, delivering a prefix
        let cuts: Vec<usize> = if c.frame.len() <= 40 { (0..c.frame.len()).collect() } else { (0..6).map(|_| rng.below(c.frame.len() as u64) as usize).chain([c.frame.len() - 1, c.frame.len() - 4, 5, 6]).collect() };
        for cut in cuts {
            let pre = c.frame[..cut].to_vec();
            let mut p = Prog::new(&mut run, &format!("{} cut@{}", c.label, cut));
            // half of the truncated frames go to a decoder that has just decoded the COMPLETE frame (a checksum, a
            // finished flag or a block counter left over from it must not make the prefix look finished)
            let reused = rng.chance(1, 2);
            if reused {
                p.set_src(c.frame.clone(), vec![], truth(true, c.frame.len()));
                if p.reset() {
                    p.blocks("all");
                    p.collect();
                }
                p.run.stat("truncations_on_reused_decoder", 1);
            }
            p.set_src(pre.clone(), vec![], truth(false, cut));
            // (`decode_from_to` starts a frame by itself only on a decoder that was never used: the reused decoder goes
            // through the two drivers that begin with `reset` / `StreamingDecoder::new_with_decoder`)
            match rng.below(if reused { 2 } else { 3 }) {
                0 => drive_blocks(&mut p, &mut rng, c.window),
                1 => drive_streaming(&mut p, &mut rng),
                _ => {
                    p.truth = truth(false, cut);
                    drive_from_to(&mut p, &mut rng, &pre)
                }
            }
            p.run.stat("truncations", 1);
        }
        // (d2) a frame several times larger than its window, drained mid-frame through sinks that stop or fail anywhere
        // in what is collectable (the ring is wrapped most of the time: both segments are exercised), then retried
        if i % 4 == 1 {
            let len = 200_000 + rng.below(300_000) as usize;
            let kind = *rng.pick(&["text", "mixed", "random", "lowalpha"]);
            let data = gen::data(&mut rng, kind, len);
            let wlog = 10 + rng.below(4) as u32;
            let zp = gen::ZParams { level: 1, window_log: Some(wlog), ldm: false, checksum: true, content_size: false, flush_every: None, min_match: None, strategy_btultra: false };
            let frame = gen::zstd_frame(&data, &zp, None);
            let mut p = Prog::new(&mut run, &format!("flaky sinks, {} B of {} at wlog {}", len, kind, wlog));
            p.set_src(frame.clone(), vec![], Some(Truth { original: data.clone(), frame_len: frame.len(), complete: true, has_checksum: true }));
            if p.reset() {
                let mut ops = 0;
                while !p.finished() && !p.is_failed() && ops < 600 {
                    p.blocks(if rng.chance(1, 2) { "blocks:1" } else { "bytes:70000" });
                    if p.finished() {
                        break; // what is left is taken below: by one collect() or through the writer
                    }
                    let can = p.can();
                    if can > 0 {
                        let budget = rng.below(can as u64 + 1) as usize;
                        let chunk = *rng.pick(&[1usize, 100, 4096, 1 << 20]);
                        p.to_writer(chunk, budget, true);
                        if rng.chance(2, 3) {
                            p.to_writer(chunk, usize::MAX >> 8, false);
                        }
                    }
                    ops += 1;
                }
                // the frame is finished and the ring is (usually) wrapped: half of the programs take the rest with ONE
                // final collect() (= drain of both segments at once), the others keep using the writer
                if p.can() > 0 && rng.chance(1, 2) {
                    p.collect();
                    p.run.stat("final_collect_on_wrapped_ring", 1);
                }
                let mut guard = 0;
                while p.can() > 0 && guard < 50 {
                    p.to_writer(4096, usize::MAX >> 8, false);
                    guard += 1;
                }
            }
            p.run.stat("flaky_sink_programs", 1);
        }
        // (e) multi-frame: concatenation with skippable frames, exact / undersized targets, garbage
        if i % 3 == 0 {
            let c2 = gen_case(&mut rng, max / 4, i + 1);
            let mut input = c.frame.clone();
            let skip_len = *rng.pick(&[0usize, 1, 7, 300]);
            input.extend_from_slice(&(0x184D2A50u32 + rng.below(16) as u32).to_le_bytes());
            input.extend_from_slice(&(skip_len as u32).to_le_bytes());
            let sk = rng.bytes(skip_len);
            input.extend_from_slice(&sk);
            input.extend_from_slice(&c2.frame);
            let mut expect = c.original.clone();
            expect.extend_from_slice(&c2.original);
            let mut p = Prog::new(&mut run, &format!("multi {} + skip{} + {}", c.label, skip_len, c2.label));
            p.decode_all(&input, expect.len(), Some(&expect));
            p.decode_all(&input, expect.len() + 100, Some(&expect));
            if !expect.is_empty() {
                p.must_fail = Some("a target one byte too small".into());
                p.decode_all(&input, expect.len() - 1, None);
                p.must_fail = Some("a target half the size of the content".into());
                p.decode_all(&input, expect.len() / 2, None);
            }
            let mut garbage = input.clone();
            garbage.extend_from_slice(&[1, 2, 3]);
            p.must_fail = Some("valid frames followed by 3 bytes of garbage".into());
            p.decode_all(&garbage, expect.len() + 10, None);
            // 1, 2, 4, 5 … trailing bytes, also ones that look like the start of a magic number
            for g in [vec![0x28u8], vec![0x28, 0xb5], vec![0x50, 0x2a, 0x4d], vec![0x28, 0xb5, 0x2f, 0xfd], rng.bytes(5), vec![0]] {
                let mut gi = input.clone();
                gi.extend_from_slice(&g);
                p.must_fail = Some(format!("valid frames followed by {} trailing byte(s) {}", g.len(), hex(&g)));
                p.decode_all(&gi, expect.len() + 10, None);
            }
            let mut trunc_skip = c.frame.clone();
            trunc_skip.extend_from_slice(&0x184D2A50u32.to_le_bytes());
            trunc_skip.extend_from_slice(&1000u32.to_le_bytes());
            trunc_skip.extend_from_slice(&[0; 10]);
            // magic numbers just OUTSIDE the skippable range 0x184D2A50..=0x184D2A5F, followed by a well-formed length + payload
            for magic in [0x184D2A60u32, 0x184D2A4F, 0x184D2B50, 0x194D2A50] {
                let mut gi = input.clone();
                gi.extend_from_slice(&magic.to_le_bytes());
                gi.extend_from_slice(&5u32.to_le_bytes());
                gi.extend_from_slice(&[1, 2, 3, 4, 5]);
                p.must_fail = Some(format!("valid frames followed by a frame with magic number {:#x} (not a skippable frame)", magic));
                p.decode_all(&gi, expect.len() + 10, None);
            }
            // a frame of many RLE blocks (a few hundred input bytes, MiBs of content) into a target that is far too small: the
            // call fails, and what the decoder holds afterwards (the `can=` observable) is what the model says: it stops at the
            // first 1 MiB step that does not fit instead of decoding the rest of the frame first
            if i == 0 {
                let nb = 40usize;
                let mut rf = vec![0x28, 0xb5, 0x2f, 0xfd, 0x00, 0x38];
                for k in 0..nb {
                    let h = ((131072u32) << 3) | (1 << 1) | if k + 1 == nb { 1 } else { 0 };
                    rf.extend_from_slice(&h.to_le_bytes()[..3]);
                    rf.push(k as u8);
                }
                for room in [1usize, 65_536, 2_000_000] {
                    p.must_fail = Some(format!("a frame of {} RLE blocks of 128 KiB into a target of {} bytes", nb, room));
                    p.decode_all(&rf, room, None);
                }
            }
            p.must_fail = Some("a frame followed by a truncated skippable frame".into());
            p.decode_all(&trunc_skip, c.original.len() + 10, None);
            // the Vec front end: spare capacity exact / too small / with existing content
            p.decode_all_to_vec(&input, b"prefix", expect.len() + 64, Some(&expect));
            p.decode_all_to_vec(&input, b"", expect.len(), Some(&expect));
            if expect.len() > 70 {
                p.decode_all_to_vec(&input, b"keep me", expect.len() - 70, None);
            }
            p.must_fail = Some("valid frames followed by 3 bytes of garbage".into());
            p.decode_all_to_vec(&garbage, b"xy", expect.len() + 64, None);
            p.run.stat("multi_frame_programs", 1);
        }
    }
    // (f) directed frames (block sizes around and above 128 KiB, the F1 shape, degenerate sequences sections), matches at
    // offset = window right after a drain, and malformed block content — see above
    for d in directed_frames(&mut rng) {
        let probe = gen_case(&mut rng, 2000, 3);
        run_frame(&mut run, &mut rng, &d, Some(&probe));
        run.stat("directed_frames", 1);
    }
    offset_at_window(&mut run, &mut rng);
    malformed(&mut run, &mut rng, opts.thorough);
    run
}
