//! Engine `hostile` (C03, C05, C07, C01-synthetic): every decoding entry point on hostile,
//! synthetic and mutated inputs.  Implementation-only oracles:
//!   * no panic (C03), bounded time (a per-case deadline enforced from a watchdog thread, C03),
//!   * peak heap growth during a decode call ≤ 2·(window + requested + 128 KiB) + slack (C05),
//!   * after an error the decoder can be queried, drained, reset and then decodes a probe frame
//!     exactly like a fresh decoder (C03, C07),
//!   * frames libzstd accepts decode to the same bytes (C01); synthetic valid frames decode to the
//!     content computed by the harness' reference executor.
//! Frames that are valid (libzstd accepts them) are additionally replayed by the Lean model through
//! `dec` request lines (block driver + streaming driver), so rare format features reach the model.
use crate::alloc_count;
use crate::engines::dec::{drive_blocks, drive_streaming, Prog, Truth};
use crate::errmap::frame_err;
use crate::gen;
use crate::synth;
use crate::util::*;
use ruzstd::decoding::{BlockDecodingStrategy, FrameDecoder, StreamingDecoder};
use std::io::Read;
use std::sync::mpsc;
use std::time::Duration;

const SLACK: usize = 6 << 20; // scratch vectors: literals (≤ 128 KiB + Huffman over-decode ≤ 2 MiB), sequences (≤ 98 047 × 12 B), block content, tables

/// Run `f` on a worker thread; `None` if it does not finish within the deadline (the thread is leaked).
fn with_deadline<T: Send + 'static>(ms: u64, f: impl FnOnce() -> T + Send + 'static) -> Option<T> {
    let (tx, rx) = mpsc::channel();
    std::thread::Builder::new()
        .stack_size(16 << 20)
        .spawn(move || {
            crate::util::install_panic_hook();
            let _ = tx.send(f());
        })
        .ok()?;
    rx.recv_timeout(Duration::from_millis(ms)).ok()
}

#[derive(Debug, Clone)]
pub struct Outcome {
    pub what: String,
    pub panic: Option<String>,
    pub peak: usize,
    pub output: Option<Vec<u8>>,
    pub err: Option<String>,
}

fn window_of_frame(frame: &[u8]) -> u64 {
    // declared window (or content size for single-segment frames), as far as the header can be read
    if frame.len() < 6 || frame[..4] != [0x28, 0xB5, 0x2F, 0xFD] {
        return 0;
    }
    let d = frame[4];
    if d & 0x20 == 0 {
        return synth::window_of(frame[5]);
    }
    let did = [0usize, 1, 2, 4][(d & 3) as usize];
    let flen = match d >> 6 {
        0 => 1,
        1 => 2,
        2 => 4,
        _ => 8,
    };
    let mut v = 0u64;
    for i in 0..flen {
        v |= (*frame.get(5 + did + i).unwrap_or(&0) as u64) << (8 * i);
    }
    if flen == 2 {
        v += 256;
    }
    v
}

/// All entry points on one input; each returns an Outcome.
fn entry_points(input: Vec<u8>, dict: Option<Vec<u8>>) -> Vec<Outcome> {
    let mut res = Vec::new();
    let mk_dec = move |dict: &Option<Vec<u8>>| {
        let mut d = FrameDecoder::new();
        if let Some(db) = dict {
            if let Ok(dd) = ruzstd::decoding::Dictionary::decode_dict(db) {
                let _ = d.add_dict(dd);
            }
        }
        d
    };
    // 1. decode_blocks(All) + collect
    {
        let base = alloc_count::start();
        let r = guarded(|| {
            let mut d = mk_dec(&dict);
            let mut src = &input[..];
            d.reset(&mut src).map_err(|e| frame_err(&e))?;
            d.decode_blocks(&mut src, BlockDecodingStrategy::All).map_err(|e| frame_err(&e))?;
            Ok::<Vec<u8>, String>(d.collect().unwrap_or_default())
        });
        let (peak, _) = alloc_count::stop(base);
        res.push(outcome("decode_blocks(All)+collect", r, peak));
    }
    // 2. documented loop: UptoBytes(n) + collect each round
    {
        let n = 4096usize;
        let base = alloc_count::start();
        let r = guarded(|| {
            let mut d = mk_dec(&dict);
            let mut src = &input[..];
            d.reset(&mut src).map_err(|e| frame_err(&e))?;
            let mut total = 0usize;
            let mut guard = 0;
            while !d.is_finished() && guard < 1_000_000 {
                guard += 1;
                d.decode_blocks(&mut src, BlockDecodingStrategy::UptoBytes(n)).map_err(|e| frame_err(&e))?;
                if let Some(v) = d.collect() {
                    total += v.len();
                }
            }
            if let Some(v) = d.collect() {
                total += v.len();
            }
            Ok::<Vec<u8>, String>(vec![0; total.min(1)])
        });
        let (peak, _) = alloc_count::stop(base);
        let mut o = outcome("loop UptoBytes(4096)+collect", r, peak);
        o.output = None;
        res.push(o);
    }
    // 3. StreamingDecoder, small reads
    {
        let base = alloc_count::start();
        let r = guarded(|| {
            let mut d = mk_dec(&dict);
            let mut s = StreamingDecoder::new_with_decoder(&input[..], &mut d).map_err(|e| frame_err(&e))?;
            let mut buf = [0u8; 1000];
            let mut out = Vec::new();
            loop {
                match s.read(&mut buf) {
                    Ok(0) => break,
                    Ok(k) => {
                        if out.len() < (64 << 20) {
                            out.extend_from_slice(&buf[..k])
                        }
                    }
                    Err(_) => return Err("err streaming".to_string()),
                }
            }
            Ok(out)
        });
        let (peak, _) = alloc_count::stop(base);
        let mut o = outcome("StreamingDecoder::read(1000)", r, peak);
        // the collected output vector is ours, not the decoder's
        o.peak = o.peak.saturating_sub(o.output.as_ref().map(|v| 2 * v.len()).unwrap_or(0));
        res.push(o);
    }
    // 4. decode_all_to_vec with a bounded vector
    {
        let r = guarded(|| {
            let mut d = mk_dec(&dict);
            let mut out: Vec<u8> = Vec::with_capacity(1 << 20);
            out.extend_from_slice(b"keep");
            match d.decode_all_to_vec(&input, &mut out) {
                Ok(()) => Ok(out[4..].to_vec()),
                Err(e) => {
                    if out != b"keep" {
                        return Err(format!("VECTOR-CHANGED-ON-FAILURE len {}", out.len()));
                    }
                    Err(frame_err(&e))
                }
            }
        });
        res.push(outcome("decode_all_to_vec", r, 0));
    }
    // 5. decode_from_to in 7-byte steps
    {
        let r = guarded(|| {
            let mut d = mk_dec(&dict);
            let mut pos = 0usize;
            let mut out = Vec::new();
            let mut buf = vec![0u8; 5000];
            let mut want = 64usize;
            let mut guard = 0;
            while guard < 200000 {
                guard += 1;
                let end = (pos + want).min(input.len());
                match d.decode_from_to(&input[pos..end], &mut buf) {
                    Ok((r, w)) => {
                        if r > end - pos {
                            return Err(format!("OVERREPORT read {} of {}", r, end - pos));
                        }
                        pos += r;
                        out.extend_from_slice(&buf[..w]);
                        if d.is_finished() && d.can_collect() == 0 && w == 0 {
                            break;
                        }
                        if r == 0 && w == 0 {
                            if end == input.len() && want > input.len() {
                                break;
                            }
                            want *= 2;
                        }
                    }
                    Err(e) => {
                        if d.bytes_read_from_source() == 0 && end < input.len() {
                            want *= 2;
                            continue;
                        }
                        return Err(frame_err(&e));
                    }
                }
            }
            Ok(out)
        });
        res.push(outcome("decode_from_to chunks", r, 0));
    }
    res
}

fn outcome(what: &str, r: Result<Result<Vec<u8>, String>, String>, peak: usize) -> Outcome {
    match r {
        Ok(Ok(v)) => Outcome { what: what.into(), panic: None, peak, output: Some(v), err: None },
        Ok(Err(e)) => Outcome { what: what.into(), panic: None, peak, output: None, err: Some(e) },
        Err(p) => Outcome { what: what.into(), panic: Some(p), peak, output: None, err: None },
    }
}

/// after whatever happened to `input`, the decoder must reset and decode the probe like a fresh one
fn reuse_after(input: &[u8], probe: &[u8], how_far: u64) -> Result<(), String> {
    let fresh = {
        let mut d = FrameDecoder::new();
        let mut out = Vec::with_capacity(1 << 20);
        let r = d.decode_all_to_vec(probe, &mut out).map_err(|e| frame_err(&e));
        (r, out, d.get_calculated_checksum())
    };
    let mut d = FrameDecoder::new();
    {
        let mut src = input;
        if d.reset(&mut src).is_ok() {
            let strat = match how_far {
                0 => BlockDecodingStrategy::All,
                1 => BlockDecodingStrategy::UptoBlocks(1),
                _ => BlockDecodingStrategy::UptoBytes(1000),
            };
            let _ = d.decode_blocks(&mut src, strat);
            // after an error (or not) the caller may query and drain
            let _ = d.can_collect();
            let _ = d.is_finished();
            if how_far % 2 == 0 {
                let _ = d.collect();
            }
        }
    }
    // the first frame dump: fresh decoder initialised on the probe vs reused decoder initialised on the probe
    let mut f2 = FrameDecoder::new();
    let r1 = {
        let mut s = probe;
        f2.reset(&mut s).map_err(|e| frame_err(&e))
    };
    let r2 = {
        let mut s = probe;
        d.reset(&mut s).map_err(|e| frame_err(&e))
    };
    if r1 != r2 {
        return Err(format!("reset on probe: fresh {:?} reused {:?}", r1, r2));
    }
    if r1.is_ok() {
        let a = f2.verif_state_dump();
        let b = d.verif_state_dump();
        if a != b {
            let pos = a.bytes().zip(b.bytes()).position(|(x, y)| x != y).unwrap_or(0);
            return Err(format!("state after reset differs from a fresh decoder at char {}: fresh …{}… reused …{}…", pos, &a[pos.saturating_sub(30)..(pos + 60).min(a.len())], &b[pos.saturating_sub(30)..(pos + 60).min(b.len())]));
        }
    }
    let mut out = Vec::with_capacity(1 << 20);
    let r = d.decode_all_to_vec(probe, &mut out).map_err(|e| frame_err(&e));
    if r != fresh.0 || out != fresh.1 || d.get_calculated_checksum() != fresh.2 {
        return Err(format!("probe decodes differently on the reused decoder: fresh ({:?}, {} bytes) reused ({:?}, {} bytes)", fresh.0, fresh.1.len(), r, out.len()));
    }
    Ok(())
}

fn mutate(rng: &mut Rng, f: &[u8]) -> (Vec<u8>, String) {
    let mut v = f.to_vec();
    if v.is_empty() {
        return (v, "empty".into());
    }
    let k = rng.below(8);
    let label;
    match k {
        0 => {
            let i = rng.below(v.len() as u64) as usize;
            v[i] ^= 1 << rng.below(8);
            label = format!("bitflip@{}", i);
        }
        1 => {
            // structural position near the start: descriptor / window / first block header / literals header
            let i = 4 + rng.below(12.min(v.len() as u64 - 1).max(1)) as usize;
            let i = i.min(v.len() - 1);
            v[i] = rng.next() as u8;
            label = format!("header byte@{}", i);
        }
        2 => {
            let i = rng.below(v.len() as u64) as usize;
            v.truncate(i);
            label = format!("truncate@{}", i);
        }
        3 => {
            let i = rng.below(v.len() as u64) as usize;
            let n = rng.range(1, 8) as usize;
            for j in i..(i + n).min(v.len()) {
                v[j] = rng.next() as u8;
            }
            label = format!("smash {}@{}", n, i);
        }
        4 => {
            let i = rng.below(v.len() as u64) as usize;
            let n = rng.range(1, 30) as usize;
            let ins = rng.bytes(n);
            v.splice(i..i, ins);
            label = format!("insert {}@{}", n, i);
        }
        5 => {
            let i = rng.below(v.len() as u64) as usize;
            let n = (rng.range(1, 30) as usize).min(v.len() - i);
            v.drain(i..i + n);
            label = format!("delete {}@{}", n, i);
        }
        6 => {
            let i = rng.below(v.len() as u64) as usize;
            v[i] = *rng.pick(&[0u8, 0xff, 0x7f, 0x80, 1]);
            label = format!("extreme@{}", i);
        }
        _ => {
            let n = rng.range(1, 4);
            for _ in 0..n {
                let i = rng.below(v.len() as u64) as usize;
                v[i] ^= 1 << rng.below(8);
            }
            label = format!("{} bitflips", n);
        }
    }
    (v, label)
}

pub fn run(opts: &Opts) -> Run {
    run_inputs(opts, None)
}

/// `only`: run the per-input oracles on exactly these inputs (replay) instead of generating
pub fn run_inputs(opts: &Opts, only: Option<Vec<Vec<u8>>>) -> Run {
    let mut run = Run::new("hostile");
    let mut rng = Rng::new(opts.seed ^ 0x4057);
    let probe = {
        let d = gen::data(&mut rng, "text", 5000);
        gen::zstd_frame(&d, &gen::ZParams { level: 3, window_log: Some(12), ldm: false, checksum: true, content_size: false, flush_every: Some(900), min_match: None, strategy_btultra: false }, None)
    };
    let t_gen = std::time::Instant::now();
    let mut inputs: Vec<(Vec<u8>, String, Option<Vec<u8>>)> = Vec::new(); // (bytes, label, expected content when known valid)

    // corpus: the repo's own fuzz artefacts (may be absent) and /verif/corpus/dec
    for dir in ["repo/ruzstd/fuzz/artifacts/decode", "corpus/dec"] {
        if let Ok(rd) = std::fs::read_dir(dir) {
            let mut files: Vec<_> = rd.filter_map(|e| e.ok()).map(|e| e.path()).filter(|p| p.is_file()).collect();
            files.sort();
            for p in files {
                if let Ok(b) = std::fs::read(&p) {
                    if b.len() < (1 << 20) {
                        inputs.push((b, format!("corpus {}", p.display()), None));
                    }
                }
            }
        }
    }
    run.stat("corpus_inputs", inputs.len() as u64);
    let replaying = only.is_some();
    if let Some(list) = only {
        inputs = list.into_iter().map(|b| (b, "replay".to_string(), None)).collect();
    }
    let n_synth = if replaying { 0 } else if opts.thorough { 4000 } else { 160 };
    for _ in 0..n_synth {
        let (f, label) = synth::valid_frame(&mut rng);
        let (bytes, expected) = synth::serialize(&f, &[]);
        inputs.push((bytes, format!("synthetic: {}", label), expected));
        run.stat("synthetic_valid", 1);
    }
    // make sure the rare, expensive flavours are present in every run (far offsets / > 56 extra bits; repeat-after-RLE)
    if !replaying {
        for want in ["far offset", "repeat-after-RLE"] {
            for _ in 0..2000 {
                let (f, label) = synth::valid_frame(&mut rng);
                if label.starts_with(want) {
                    let (bytes, expected) = synth::serialize(&f, &[]);
                    inputs.push((bytes, format!("synthetic: {}", label), expected));
                    run.stat("synthetic_valid", 1);
                    break;
                }
            }
        }
    }
    if !replaying {
        // VALID frames with more than 64 KiB of Huffman-compressed literals in one block (four streams whose first three
        // together exceed 65535 bytes: 16-bit arithmetic on the jump table would wrap): match-free noise over 64 values
        for (lvl, len) in [(1, 140_000usize), (19, 131_072), (3, 300_000)] {
            let d: Vec<u8> = (0..len).map(|_| 32 + rng.below(64) as u8).collect();
            let f = gen::zstd_frame(&d, &gen::ZParams { level: lvl, window_log: None, ldm: false, checksum: true, content_size: true, flush_every: None, min_match: None, strategy_btultra: false }, None);
            inputs.push((f, format!("valid: {} bytes of 64-value noise at level {} (big four-stream literals)", len, lvl), Some(d)));
            run.stat("valid_big_literals", 1);
        }
        for (b, label) in directed_hostile() {
            inputs.push((b, format!("hostile: {}", label), None));
            run.stat("hostile_directed", 1);
        }
    }
    let n_host = if replaying { 0 } else if opts.thorough { 6000 } else { 240 };
    for _ in 0..n_host {
        let (bytes, label) = synth::hostile_frame(&mut rng);
        inputs.push((bytes, format!("hostile: {}", label), None));
        run.stat("hostile_structured", 1);
    }
    let n_mut = if replaying { 0 } else if opts.thorough { 8000 } else { 300 };
    let mut bases: Vec<Vec<u8>> = Vec::new();
    for i in 0..12 {
        let kind = gen::DATA_KINDS[i % gen::DATA_KINDS.len()];
        let len = gen::pick_len(&mut rng, 20000);
        let d = gen::data(&mut rng, kind, len);
        let p = gen::zparams(&mut rng);
        bases.push(gen::zstd_frame(&d, &p, None));
    }
    for i in 0..n_mut {
        let (m, label) = mutate(&mut rng, &bases[i % bases.len()]);
        inputs.push((m, format!("mutated libzstd frame: {}", label), None));
        run.stat("mutated", 1);
    }
    for _ in 0..(if replaying { 0 } else if opts.thorough { 2000 } else { 100 }) {
        let mut v = vec![0x28, 0xB5, 0x2F, 0xFD];
        let n_ = rng.range(0, 60) as usize;
        v.extend_from_slice(&rng.bytes(n_));
        inputs.push((v, "magic + random bytes".into(), None));
        run.stat("random", 1);
    }

    run.stat("ms:generation", t_gen.elapsed().as_millis() as u64);
    let mut shown = 0;
    let mut aborted = false;
    for (idx, (bytes, label, expected)) in inputs.iter().enumerate() {
        let replay = format!("hostile input {}", hex(bytes));
        let window = window_of_frame(bytes);
        let t_case = std::time::Instant::now();
        // ---- all entry points, under a deadline
        let b2 = bytes.clone();
        let deadline = 8_000 + (bytes.len() as u64) / 10;
        run.oracle_checks += 1;
        let outs = match with_deadline(deadline, move || entry_points(b2, None)) {
            Some(o) => o,
            None => {
                run.fail("C03", "hang", format!("[{}] decoding did not finish within {} ms ({} input bytes)", label, deadline, bytes.len()), replay.clone());
                // a decode call that does not finish on a small input regenerates (and buffers) far more than
                // window + request + one block: also a C05 failure (F1 with >= 20 000 sequences shows up this way)
                run.fail("C05", "hang_unbounded_expansion", format!("[{}] decoding {} input bytes did not finish within {} ms: regenerated data is not bounded by window + request + one block", label, bytes.len(), deadline), replay.clone());
                // the worker thread cannot be killed and keeps burning CPU and memory: stop here, the
                // process exit at the end of the engine run reaps it
                run.notes.push("aborted after a hang: remaining inputs not run".into());
                aborted = true;
                break;
            }
        };
        let reference = gen::zstd_decode(bytes, None, 400 << 20);
        // "a block whose contents would regenerate more than 128 KiB is rejected as corrupt instead of being expanded":
        // a frame that structurally announces such a block must not decode successfully through any entry point
        if label.contains("oversize-block:") {
            run.oracle_checks += 1;
            if let Some(o) = outs.iter().find(|o| o.output.is_some() && o.err.is_none() && o.panic.is_none()) {
                run.fail("C05", "oversized_block_accepted", format!("[{}] {} succeeded ({} bytes out) on a frame with a block that regenerates more than 128 KiB", label, o.what, o.output.as_ref().map(|v| v.len()).unwrap_or(0)), replay.clone());
            }
        }
        if let Some(why) = oversize_block(bytes) {
            run.oracle_checks += 1;
            run.stat("frames_with_oversize_block", 1);
            if let Some(o) = outs.iter().find(|o| o.output.is_some() && o.err.is_none() && o.panic.is_none()) {
                run.fail("C05", "oversized_block_accepted", format!("[{}] {} succeeded ({} bytes out) on a frame with {}", label, o.what, o.output.as_ref().map(|v| v.len()).unwrap_or(0), why), replay.clone());
            }
        }
        for o in &outs {
            run.oracle_checks += 1;
            if let Some(p) = &o.panic {
                run.fail("C03", &format!("panic:{}", p.rsplit(" @ ").next().unwrap_or("?")), format!("[{}] {} panicked: {}", label, o.what, p), replay.clone());
                if reference.is_some() && (expected.is_some() || label.starts_with("valid")) {
                    run.fail("C01", "panic_on_valid_frame", format!("[{}] {} panicked on a valid frame (the reference decoder reproduces {} bytes): {}", label, o.what, reference.as_ref().map(|r| r.len()).unwrap_or(0), p), replay.clone());
                }
            }
            if let Some(e) = &o.err {
                if e.starts_with("VECTOR-CHANGED") {
                    run.fail("C10", "vec_changed_on_failure", format!("[{}] decode_all_to_vec failed but changed the vector: {}", label, e), replay.clone());
                }
                if e.starts_with("OVERREPORT") {
                    run.fail("C06", "decode_from_to_overreport", format!("[{}] {}", label, e), replay.clone());
                }
            }
            // memory: window + requested + one block, doubled for the ring's power-of-two growth
            if o.peak > 0 {
                let requested = if o.what.starts_with("decode_blocks(All)") { o.output.as_ref().map(|v| v.len()).unwrap_or(0) + (1 << 17) } else { 4096 };
                let w = window.min(128 << 20) as usize;
                let bound = 2 * (w + requested + (128 << 10)) + SLACK + 2 * bytes.len();
                if o.peak > bound && !o.what.starts_with("decode_blocks(All)") {
                    run.fail("C05", "peak_memory", format!("[{}] {}: peak heap growth {} bytes > bound {} (window {}, {} input bytes)", label, o.what, o.peak, bound, window, bytes.len()), replay.clone());
                }
                if o.what.starts_with("decode_blocks(All)") && o.err.is_some() {
                    // a failing decode must not have buffered more than window + one block beyond what it delivered
                    let bound = 2 * (w + (256 << 10)) + SLACK + 2 * bytes.len();
                    if o.peak > bound && window <= (8 << 20) && bytes.len() < 100_000 {
                        run.fail("C05", "peak_memory_failing_frame", format!("[{}] {}: a rejected frame of {} bytes made the decoder allocate {} bytes (bound {})", label, o.what, bytes.len(), o.peak, bound), replay.clone());
                    }
                }
            }
            // agreement with the referee on frames it accepts, and with the reference executor
            if let (Some(out), Some(r)) = (&o.output, &reference) {
                // (the streaming and vec front ends of this engine cap what they collect; compare them on outputs below the caps)
                let capped = (o.what.starts_with("StreamingDecoder") && r.len() >= (64 << 20)) || (o.what == "decode_from_to chunks" && r.len() >= (64 << 20));
                if o.what != "loop UptoBytes(4096)+collect" && !capped && out != r {
                    let certain = expected.is_some() || label.starts_with("valid") || label.starts_with("corpus");
                    if certain {
                        run.fail("C01", "differs_from_libzstd", format!("[{}] {} produced {} bytes, libzstd {} bytes / different content", label, o.what, out.len(), r.len()), replay.clone());
                    } else if bytes.len() < 40_000 {
                        // a MUTATED frame that both lenient decoders accept, with different results (no checksum to tell):
                        // only a violation if the frame is valid, which the strict RFC Spec decides (expected answer: reject)
                        if o.what == "decode_blocks(All)+collect" {
                            run.case(format!("spec frame {}", hex(bytes)), "err".into());
                            run.cond_fail("C01", "differs_from_libzstd_spec_accepts", format!("[{}] {} produced {} bytes, libzstd {} bytes / different content, on a frame the RFC Spec accepts", label, o.what, out.len(), r.len()), replay.clone());
                        }
                        run.stat("differs_from_libzstd_on_mutated_frame_referred_to_spec", 1);
                    }
                }
            }
            if let (None, Some(r), None) = (&o.output, &reference, &o.panic) {
                // (a window above the decoder's configured limit is refused on purpose: C11)
                let over_limit = o.err.as_deref().map(|e| e.starts_with("err windowOverLimit")).unwrap_or(false);
                if o.what == "decode_blocks(All)+collect" && r.len() < (1 << 20) - 4 && !over_limit {
                    if expected.is_some() {
                        run.fail("C01", "rejects_valid_synthetic_frame", format!("[{}] {} failed with {:?} on a valid synthetic frame ({} bytes of content)", label, o.what, o.err, r.len()), replay.clone());
                    } else if bytes.len() < 40_000 {
                        // libzstd accepts some corrupted streams (it does not insist on exact consumption of every Huffman
                        // stream, …), so it cannot be the referee here: the strict RFC Spec decides.  The request below
                        // expects the Spec to reject too; if the Spec ACCEPTS, ruzstd rejects a valid frame.
                        run.case(format!("spec frame {}", hex(bytes)), "err".into());
                        run.cond_fail("C01", "rejects_frame_spec_accepts", format!("[{}] {} failed with {:?} on a frame that libzstd AND the RFC Spec decode ({} bytes)", label, o.what, o.err, r.len()), replay.clone());
                        run.stat("libzstd_accepts_ruzstd_rejects_referred_to_spec", 1);
                    }
                }
            }
            if let (Some(out), Some(e)) = (&o.output, expected) {
                let capped = (o.what.starts_with("StreamingDecoder") || o.what == "decode_from_to chunks") && e.len() >= (64 << 20);
                if o.what != "loop UptoBytes(4096)+collect" && !capped && out != e {
                    run.fail("C01", "differs_from_reference_executor", format!("[{}] {} produced {} bytes, the synthetic frame encodes {} bytes", label, o.what, out.len(), e.len()), replay.clone());
                }
            }
        }
        if let (Some(e), Some(r)) = (expected, &reference) {
            if e != r {
                run.notes.push(format!("harness self-check: reference executor and libzstd disagree on '{}'", label));
            }
        }
        if expected.is_some() && reference.is_none() {
            run.notes.push(format!("harness self-check: libzstd rejects synthetic frame '{}'", label));
        }
        // ---- reuse after whatever happened
        run.oracle_checks += 1;
        let (b3, p3) = (bytes.clone(), probe.clone());
        let how = rng.below(4);
        match with_deadline(8_000, move || guarded(|| reuse_after(&b3, &p3, how))) {
            None => {
                run.fail("C03", "hang_reuse", format!("[{}] reuse sequence did not finish", label), replay.clone());
                run.notes.push("aborted after a hang: remaining inputs not run".into());
                aborted = true;
                break;
            }
            Some(Err(p)) => run.fail("C03", "panic_reuse", format!("[{}] panic while reusing the decoder after this input: {}", label, p), replay.clone()),
            Some(Ok(Err(e))) => {
                run.fail("C07", "reuse_differs", format!("[{}] {}", label, e), replay.clone());
                run.fail("C03", "reset_after_error", format!("[{}] {}", label, e), replay.clone());
            }
            Some(Ok(Ok(()))) => {}
        }
        // ---- … and probes whose first block USES state a fresh decoder does not have (treeless literals, Repeat_Mode
        // for each of the three tables): invalid on a fresh decoder; whatever an earlier frame left behind, a reused
        // decoder must answer exactly like the fresh one, and must not panic
        for (pk, (pname, pbytes)) in state_probes().iter().enumerate() {
            run.oracle_checks += 1;
            let (b4, p4) = (bytes.clone(), pbytes.clone());
            let how2 = (how + pk as u64) % 4;
            match with_deadline(8_000, move || guarded(|| reuse_after(&b4, &p4, how2))) {
                None => {
                    run.fail("C03", "hang_reuse", format!("[{}] reuse with probe '{}' did not finish", label, pname), format!("{}\nhostile input {}", replay, hex(pbytes)));
                    aborted = true;
                    break;
                }
                Some(Err(p)) => run.fail("C03", "panic_reuse", format!("[{}] panic while decoding the probe '{}' on the decoder reused after this input: {}", label, pname, p), format!("{}\nhostile input {}", replay, hex(pbytes))),
                Some(Ok(Err(e))) => {
                    run.fail("C07", "reuse_differs", format!("[{}] probe '{}': {}", label, pname, e), format!("{}\nhostile input {}", replay, hex(pbytes)));
                }
                Some(Ok(Ok(()))) => {}
            }
        }
        if aborted {
            break;
        }
        // ---- valid frames go to the model as well (rare format features)
        if let Some(r) = &reference {
            if bytes.len() < 60_000 && r.len() < 300_000 && (idx % 2 == 0 || expected.is_some()) {
                let t = |n| Some(Truth { original: r.clone(), frame_len: n, complete: true, has_checksum: bytes.len() > 4 && bytes[4] & 4 != 0 });
                let flen = outs.first().map(|_| bytes.len()).unwrap_or(0);
                // (a mutated frame that the lenient reference decoder still accepts is not certainly valid: the Spec decides;
                // when the two lenient decoders even disagree on its content there is no truth to compare with at all)
                let lenient = expected.is_none() && !label.starts_with("valid") && !label.starts_with("corpus");
                let agree = outs.iter().find(|o| o.what == "decode_blocks(All)+collect").and_then(|o| o.output.as_ref()).map(|o| o == r).unwrap_or(false);
                let mut p = Prog::new(&mut run, label);
                p.lenient_truth = lenient;
                p.set_src(bytes.clone(), vec![], if lenient && !agree { None } else { t(flen) });
                if idx % 4 < 2 {
                    drive_blocks(&mut p, &mut rng, window as usize);
                } else {
                    drive_streaming(&mut p, &mut rng);
                }
                run.stat("valid_frames_to_model", 1);
            }
        } else if bytes.len() < 20_000 && outs.iter().all(|o| o.panic.is_none()) && (!opts.thorough || idx % 3 == 0) {
            // ---- the model's block decoder is the faithful one (Lean `Blk.decompressBlock`, instance B): every small
            // hostile input goes through one short program too, so that model = code is compared with the error
            // CLASS (errmap.rs) and the state left behind on the structure-aware hostile frames, the directed ones,
            // the mutated frames and the random bytes.  (After the error: drain only — decoding on in a failed frame is
            // outside the documented use.)
            let mut p = Prog::new(&mut run, label);
            p.set_src(bytes.clone(), vec![], None);
            if p.reset() {
                p.blocks("all");
                p.collect();
            }
            run.stat("hostile_inputs_to_model", 1);
        }
        if shown < 4 && idx % 97 == 0 {
            run.samples.push(format!("{} ({} bytes): {}", label, bytes.len(), outs.iter().map(|o| format!("{}={}", o.what, o.err.clone().unwrap_or_else(|| format!("ok {}", o.output.as_ref().map(|v| v.len()).unwrap_or(0))))).collect::<Vec<_>>().join("; ")));
            shown += 1;
        }
        run.stat(&format!("ms:{}", label.split(':').next().unwrap_or("?").split(' ').next().unwrap_or("?")), t_case.elapsed().as_millis() as u64);
        let sig = outs.iter().map(|o| o.err.clone().unwrap_or_else(|| "ok".into()).split(' ').take(2).collect::<Vec<_>>().join("_")).collect::<Vec<_>>().join("|");
        run.stat(&format!("outcome:{}", sig.chars().take(60).collect::<String>()), 1);
    }
    if aborted || replaying {
        return run;
    }
    // hostile dictionaries: parsing must not panic; decoding with a parsed hostile dictionary must not panic
    let t_dict = std::time::Instant::now();
    let samples: Vec<Vec<u8>> = (0..40).map(|_| gen::data(&mut rng, "text", 3000)).collect();
    if let Ok(dict) = zstd::dict::from_samples(&samples, 4096) {
        run.stat("ms:dict_training", t_dict.elapsed().as_millis() as u64);
        let with_dict = gen::zstd_frame(&samples[0], &gen::ZParams { level: 3, window_log: None, ldm: false, checksum: true, content_size: true, flush_every: None, min_match: None, strategy_btultra: false }, Some(&dict));
        for i in 0..(if opts.thorough { 4000 } else { 300 }) {
            let (m, label) = if i == 0 { (dict.clone(), "intact".to_string()) } else { mutate(&mut rng, &dict) };
            run.oracle_checks += 1;
            let replay = format!("hostile dict {} frame {}", hex(&m), hex(&with_dict));
            let (m2, f2) = (m.clone(), with_dict.clone());
            let r = with_deadline(20_000, move || {
                guarded(|| {
                    let parsed = ruzstd::decoding::Dictionary::decode_dict(&m2);
                    if let Ok(d) = parsed {
                        let mut dec = FrameDecoder::new();
                        let _ = dec.add_dict(d);
                        let mut out = Vec::with_capacity(1 << 20);
                        let _ = dec.decode_all_to_vec(&f2, &mut out);
                    }
                })
            });
            match r {
                None => run.fail("C03", "hang_dict", format!("[dictionary {}] did not finish", label), replay),
                Some(Err(p)) => run.fail("C03", &format!("panic_dict:{}", p.rsplit(" @ ").next().unwrap_or("?")), format!("[dictionary {}] panic: {}", label, p), replay),
                Some(Ok(())) => {}
            }
            run.stat("hostile_dicts", 1);
        }
        // directed: the three repeat offsets of the dictionary (taken over unchecked by the parser) set to 0 / huge values,
        // with frames whose FIRST sequence uses each repeat code, with and without literals in front
        if let Ok(parsed) = ruzstd::decoding::Dictionary::decode_dict(&dict) {
            let clen = parsed.dict_content.len();
            if dict.len() >= clen + 12 {
                let pos = dict.len() - clen - 12;
                let id = parsed.id;
                let offsets: Vec<[u32; 3]> = vec![[0, 4, 8], [1, 0, 8], [1, 4, 0], [0, 0, 0], [u32::MAX, 1, 1], [clen as u32, clen as u32 + 1, clen as u32 + 2], [1 << 31, 1 << 30, 7]];
                for offs in offsets {
                    let mut m = dict.clone();
                    for (k, o) in offs.iter().enumerate() {
                        m[pos + 4 * k..pos + 4 * k + 4].copy_from_slice(&o.to_le_bytes());
                    }
                    // (ll, offset code, offset extra): offset values 1, 2, 3 with and without literals
                    for (ll, ofc, ofe) in [(4u8, 0u8, 0u32), (4, 1, 0), (4, 1, 1), (0, 0, 0), (0, 1, 0), (0, 1, 1)] {
                        let blk = synth::SeqBlock { lits: synth::Lit::Raw(b"abcd"[..ll as usize].to_vec()), ll_code: ll, ml_code: 0, of_code: ofc, seqs: vec![(0, 0, ofe)], count_bytes: None, modes: None, repeat: [false; 3], trailer: vec![] };
                        let mut f = synth::Frame::simple(vec![synth::Block::Comp(blk)], 0, false);
                        f.dict_id = Some((3, id));
                        let (fb, _) = synth::serialize(&f, &[]);
                        run.oracle_checks += 1;
                        let replay = format!("hostile dict {} frame {}", hex(&m), hex(&fb));
                        let (m2, f2) = (m.clone(), fb.clone());
                        let r = with_deadline(10_000, move || {
                            guarded(|| {
                                if let Ok(d) = ruzstd::decoding::Dictionary::decode_dict(&m2) {
                                    let mut dec = FrameDecoder::new();
                                    let _ = dec.add_dict(d);
                                    let mut out = Vec::with_capacity(1 << 16);
                                    let _ = dec.decode_all_to_vec(&f2, &mut out);
                                    // the streaming front end as well
                                    let mut dec2 = FrameDecoder::new();
                                    if let Ok(d2) = ruzstd::decoding::Dictionary::decode_dict(&m2) {
                                        let _ = dec2.add_dict(d2);
                                    }
                                    let mut src = &f2[..];
                                    if dec2.reset(&mut src).is_ok() {
                                        let _ = dec2.decode_blocks(&mut src, BlockDecodingStrategy::All);
                                    }
                                }
                            })
                        });
                        let label = format!("repeat offsets {:?}, first sequence ll={} offset value {}", offs, ll, (1u32 << ofc) + ofe);
                        match r {
                            None => {
                                run.fail("C03", "hang_dict", format!("[dictionary with {}] decoding did not finish", label), replay);
                                run.notes.push("aborted after a hang (hostile dictionary): remaining directed dictionaries not run".into());
                                return run;
                            }
                            Some(Err(p)) => run.fail("C03", &format!("panic_dict:{}", p.rsplit(" @ ").next().unwrap_or("?")), format!("[dictionary with {}] panic: {}", label, p), replay),
                            Some(Ok(())) => {}
                        }
                        run.stat("hostile_dicts_directed", 1);
                    }
                }
            }
        }
        // hand-built minimal dictionaries: each entropy-table slot in turn holds a table a frame must never be able to use
        // (all probability on a symbol beyond the slot's alphabet; zero-bit tables; the zero-bit weight description), with a
        // frame whose first block takes exactly that table from the dictionary (Repeat_Mode / treeless literals)
        for (db, fb, label) in handmade_dicts() {
            run.oracle_checks += 1;
            let replay = format!("hostile dict {} frame {}", hex(&db), hex(&fb));
            let (m2, f2) = (db.clone(), fb.clone());
            let r = with_deadline(10_000, move || {
                guarded(|| {
                    if let Ok(d) = ruzstd::decoding::Dictionary::decode_dict(&m2) {
                        let mut dec = FrameDecoder::new();
                        let _ = dec.add_dict(d);
                        let mut out = Vec::with_capacity(1 << 16);
                        let _ = dec.decode_all_to_vec(&f2, &mut out);
                        let mut src = &f2[..];
                        if dec.reset(&mut src).is_ok() {
                            let _ = dec.decode_blocks(&mut src, BlockDecodingStrategy::All);
                        }
                    }
                })
            });
            match r {
                None => {
                    run.fail("C03", "hang_dict", format!("[hand-built dictionary: {}] did not finish", label), replay);
                    run.notes.push("aborted after a hang (hand-built dictionary)".into());
                    return run;
                }
                Some(Err(p)) => run.fail("C03", &format!("panic_dict:{}", p.rsplit(" @ ").next().unwrap_or("?")), format!("[hand-built dictionary: {}] panic: {}", label, p), replay),
                Some(Ok(())) => {}
            }
            run.stat("hostile_dicts_handmade", 1);
        }
        run.stat("ms:dict_total", t_dict.elapsed().as_millis() as u64);
    } else {
        run.notes.push("zstd::dict::from_samples failed; hostile dictionary stream skipped".into());
    }
    run
}

/// Does the (first) frame announce, in plain header fields, a block that regenerates more than 128 KiB?
/// (Raw/RLE block with Block_Size > 128 KiB, or a compressed block whose literals section alone declares a
/// Regenerated_Size > 128 KiB.)  Independent byte-level walk; stops at the first thing it cannot parse.
pub fn oversize_block(b: &[u8]) -> Option<String> {
    if b.len() < 6 || b[..4] != [0x28, 0xb5, 0x2f, 0xfd] {
        return None;
    }
    let desc = b[4];
    let (fcs, single, did) = (desc >> 6, (desc >> 5) & 1, desc & 3);
    let mut p = 5 + if single == 1 { 0 } else { 1 } + [0usize, 1, 2, 4][did as usize];
    p += match fcs {
        0 => single as usize,
        1 => 2,
        2 => 4,
        _ => 8,
    };
    const MAX: usize = 128 << 10;
    for k in 0.. {
        if p + 3 > b.len() {
            return None;
        }
        let h = b[p] as usize | (b[p + 1] as usize) << 8 | (b[p + 2] as usize) << 16;
        let (last, ty, size) = (h & 1, (h >> 1) & 3, h >> 3);
        p += 3;
        match ty {
            0 | 1 => {
                // (only when the block is completely present: an incremental call on a truncated block just waits)
                if size > MAX && p + (if ty == 1 { 1 } else { size }) <= b.len() {
                    return Some(format!("block {} of type {} with Block_Size {} > 128 KiB", k, ty, size));
                }
                p += if ty == 1 { 1 } else { size };
            }
            2 => {
                if p + size <= b.len() && size >= 3 {
                    let (b0, b1, b2) = (b[p] as usize, b[p + 1] as usize, b[p + 2] as usize);
                    let (lt, sf) = (b0 & 3, (b0 >> 2) & 3);
                    let regen = if lt < 2 {
                        match sf {
                            0 | 2 => b0 >> 3,
                            1 => (b0 >> 4) + (b1 << 4),
                            _ => (b0 >> 4) + (b1 << 4) + (b2 << 12),
                        }
                    } else {
                        match sf {
                            0 | 1 => (b0 >> 4) + ((b1 & 0x3f) << 4),
                            2 => (b0 >> 4) + (b1 << 4) + ((b2 & 3) << 12),
                            _ => (b0 >> 4) + (b1 << 4) + ((b2 & 0x3f) << 12),
                        }
                    };
                    if regen > MAX {
                        return Some(format!("compressed block {} whose literals section declares Regenerated_Size {} > 128 KiB", k, regen));
                    }
                }
                p += size;
            }
            _ => return None,
        }
        if last == 1 {
            return None;
        }
    }
    None
}

/// Frames whose FIRST block uses decoder state that only an earlier block could have set up.
fn state_probes() -> Vec<(String, Vec<u8>)> {
    let mut v = vec![];
    // treeless literals (type 3) in the first block: regenerated size 1, one stream byte
    v.push(("treeless literals first".to_string(), unhex("28b52ffd0000250000134000ff").unwrap()));
    // Repeat_Mode for LL / OF / ML in the first sequences section
    for t in 0..3 {
        let mut rep = [false; 3];
        rep[t] = true;
        let blk = synth::SeqBlock { lits: synth::Lit::Raw(vec![1, 2, 3, 4]), ll_code: 4, ml_code: 0, of_code: 2, seqs: vec![(0, 0, 0)], count_bytes: None, modes: None, repeat: rep, trailer: vec![] };
        let f = synth::Frame::simple(vec![synth::Block::Raw(vec![9, 8, 7, 6]), synth::Block::Comp(blk)], 0, false);
        let (b, _) = synth::serialize(&f, &[]);
        // drop the raw block in front so that the compressed block is the first one? keep both variants
        v.push((format!("Repeat_Mode {} in the first sequences section", ["LL", "OF", "ML"][t]), b));
    }
    v
}

/// Directed hostile frames for panic sites that random mutation rarely reaches.
pub fn directed_hostile() -> Vec<(Vec<u8>, String)> {
    let mut v: Vec<(Vec<u8>, String)> = vec![];
    // Huffman table builds that FAIL after the table was touched (max_num_bits / decode left inconsistent), alone and
    // after a block that built a good table; a treeless block behind them
    for (h, label) in [
        ("28b52ffd00002c000012800081bb250000134000ff", "weights (11,11): MaxBitsTooHigh, then treeless"),
        ("28b52ffd00002d000012800081bb", "weights (11,11): MaxBitsTooHigh, last block"),
        ("28b52ffd00002c00001280008122250000134000ff", "weights (2,2): leftover not a power of two, then treeless"),
    ] {
        if let Some(b) = unhex(h) {
            v.push((b, label.to_string()));
        }
    }
    // blocks that regenerate more than 128 KiB only through the TRAILING literals (the literals section itself is at most
    // 128 KiB, every sequence on its own fits): 128 KiB of RLE literals, one sequence (10 literals, match of ml), the rest behind it
    for (ml_extra, label) in [(27_229u32, 60_000usize), (0, 32_771), (1, 32_772)] {
        let blk = synth::SeqBlock { lits: synth::Lit::Rle(7, 131_072), ll_code: 10, ml_code: 51, of_code: 2, seqs: vec![(0, ml_extra, 0)], count_bytes: None, modes: None, repeat: [false; 3], trailer: vec![] };
        let f = synth::Frame::simple(vec![synth::Block::Raw(vec![1, 2, 3, 4]), synth::Block::Comp(blk)], 0x38, false);
        let (b, _) = synth::serialize(&f, &[]);
        v.push((b, format!("oversize-block: 131072 literals + one match of {} (trailing literals push the block over 128 KiB)", label)));
    }
    // … and exactly at the limit through the trailing literals (valid: 131072 - 3 literals, one match of 3)
    // Huffman weight descriptions whose FSE table has ZERO-BIT states (one symbol with the whole probability: the two-state
    // weight loop consumes no bits and is only bounded by the weight count), one and four streams, also behind a good table
    for desc in [vec![0x04u8, 0xF0, 0x03, 0x00, 0x80], vec![0x03, 0xF0, 0x03, 0x80], vec![0x05, 0xF0, 0x03, 0x00, 0x00, 0x80], vec![0x04, 0xF1, 0x07, 0x00, 0x80]] {
        for streams4 in [false, true] {
            let regen: u32 = 16;
            let mut lit = desc.clone();
            if streams4 {
                lit.extend_from_slice(&[1, 0, 1, 0, 1, 0]);
                lit.extend_from_slice(&[1, 1, 1, 1]);
            } else {
                lit.push(0x01);
            }
            let comp = lit.len() as u32;
            let lh: u32 = 2 | (if streams4 { 1 } else { 0 } << 2) | (regen << 4) | (comp << 14);
            let mut body = lh.to_le_bytes()[..3].to_vec();
            body.extend_from_slice(&lit);
            body.push(0);
            let bh: u32 = 1 | (2 << 1) | ((body.len() as u32) << 3);
            let mut f = vec![0x28, 0xb5, 0x2f, 0xfd, 0x20, regen as u8];
            f.extend_from_slice(&bh.to_le_bytes()[..3]);
            f.extend_from_slice(&body);
            v.push((f, format!("weight description {} with zero-bit FSE states, {} stream(s)", hex(&desc), if streams4 { 4 } else { 1 })));
        }
    }
    // four-stream literals: jump tables around the size of the stream area (sum of the three sizes = area - 1 … area + 8),
    // two 1-bit symbols (direct description `81 11`), regenerated sizes 4 … 12
    for area in [0usize, 1, 2, 3, 6, 12] {
        for over in 0..10usize {
            let total = (area + over).saturating_sub(1);
            for split in 0..3 {
                let (j1, j2, j3) = match split {
                    0 => (total, 0, 0),
                    1 => (0, 0, total),
                    _ => (total / 3, total / 3, total - 2 * (total / 3)),
                };
                let comp = 2 + 6 + area;
                let regen = 4 + (over % 9);
                let lh: u32 = 2 | (1 << 2) | ((regen as u32) << 4) | ((comp as u32) << 14);
                let mut body = lh.to_le_bytes()[..3].to_vec();
                body.extend_from_slice(&[0x81, 0x11]);
                for j in [j1, j2, j3] {
                    body.extend_from_slice(&(j as u16).to_le_bytes());
                }
                for k in 0..area {
                    body.push(if k + 1 == area { 0x01 } else { 0x5a });
                }
                body.push(0); // zero sequences
                let bh: u32 = 1 | (2 << 1) | ((body.len() as u32) << 3);
                let mut f = vec![0x28, 0xb5, 0x2f, 0xfd, 0x00, 0x00];
                f.extend_from_slice(&bh.to_le_bytes()[..3]);
                f.extend_from_slice(&body);
                v.push((f, format!("4-stream jump table {}+{}+{} over a stream area of {} bytes", j1, j2, j3, area)));
            }
        }
    }
    v
}

/// (dictionary bytes, frame bytes, label): see the call site
fn handmade_dicts() -> Vec<(Vec<u8>, Vec<u8>, String)> {
    const ID: u32 = 0x5A;
    let ok: Vec<u8> = vec![0xF0, 0x03]; // accuracy log 5, symbol 0 has probability 32
    // accuracy log 5, symbols 0..=39 probability 0, symbol 40 probability 32 (beyond the LL alphabet 0..=35 and the OF alphabet 0..=31)
    let sym40: Vec<u8> = vec![0x10, 0xFE, 0xFF, 0xFF, 0xE7, 0x07];
    let huf_ok: Vec<u8> = vec![0x80, 0x10];
    let huf_zero_bit: Vec<u8> = vec![0x04, 0xF0, 0x03, 0x00, 0x80];
    let dict = |huf: &[u8], of: &[u8], ml: &[u8], ll: &[u8], offs: [u32; 3]| -> Vec<u8> {
        let mut raw = vec![0x37, 0xA4, 0x30, 0xEC];
        raw.extend_from_slice(&ID.to_le_bytes());
        raw.extend_from_slice(huf);
        raw.extend_from_slice(of);
        raw.extend_from_slice(ml);
        raw.extend_from_slice(ll);
        for o in offs {
            raw.extend_from_slice(&o.to_le_bytes());
        }
        raw.extend_from_slice(&[b'A'; 32]);
        raw
    };
    // frames: raw literals "abcd", one sequence, modes byte `modes`, a stream that is only the padding marker (all states
    // and extra bits read as 0) or a few set bits
    let frame = |modes: u8, stream: &[u8]| -> Vec<u8> {
        let mut block = vec![4 << 3];
        block.extend_from_slice(b"abcd");
        block.push(0x01);
        block.push(modes);
        block.extend_from_slice(stream);
        let mut f = vec![0x28, 0xB5, 0x2F, 0xFD, 0x21, ID as u8, 7];
        let h = 1u32 | (2 << 1) | ((block.len() as u32) << 3);
        f.extend_from_slice(&h.to_le_bytes()[..3]);
        f.extend_from_slice(&block);
        f
    };
    let treeless = {
        let mut f = vec![0x28, 0xB5, 0x2F, 0xFD, 0x21, ID as u8, 4];
        f.extend_from_slice(&[0x25, 0x00, 0x00, 0x13, 0x40, 0x00, 0xff]);
        f
    };
    let mut v = vec![];
    let streams: [&[u8]; 3] = [&[0x80], &[0xFF, 0xFF, 0x01], &[0x00, 0x40]];
    for (slot, modes) in [("LL", 0b11_00_00_00u8), ("OF", 0b00_11_00_00), ("ML", 0b00_00_11_00), ("all three", 0b11_11_11_00)] {
        for (tname, t) in [("symbol 40 only", &sym40), ("symbol 0 only (zero-bit states)", &ok)] {
            let (of, ml, ll) = match slot {
                "LL" => (&ok, &ok, t),
                "OF" => (t, &ok, &ok),
                "ML" => (&ok, t, &ok),
                _ => (t, t, t),
            };
            for st in streams {
                v.push((dict(&huf_ok, of, ml, ll, [1, 4, 8]), frame(modes, st), format!("{} table = {}, frame repeats it", slot, tname)));
            }
        }
    }
    v.push((dict(&huf_zero_bit, &ok, &ok, &ok, [1, 4, 8]), treeless.clone(), "Huffman description with zero-bit FSE states, treeless frame".into()));
    v.push((dict(&huf_ok, &ok, &ok, &ok, [0, 0, 0]), frame(0b11_11_11_00, &[0x80]), "all repeat offsets 0, frame repeats all tables".into()));
    v.push((dict(&huf_ok, &ok, &ok, &ok, [1, 4, 8]), treeless, "well-formed dictionary, treeless frame".into()));
    v
}
