//! Input generators shared by the engines: data of varied compressibility and libzstd-made frames
//! with varied parameters (level, window log, long-distance mode, checksum/content-size flags, flushes).
use crate::util::Rng;
use std::io::Write;

pub const DATA_KINDS: &[&str] = &["random", "runs", "text", "lowalpha", "periodic", "mixed", "sparse", "repeatfar", "const", "tiny"];

/// Seeded data of a named kind and approximately `len` bytes.
pub fn data(rng: &mut Rng, kind: &str, len: usize) -> Vec<u8> {
    let mut v = Vec::with_capacity(len);
    match kind {
        "random" => v = rng.bytes(len),
        "const" => v = vec![rng.next() as u8; len],
        "tiny" => {
            let n = len.min(rng.below(8) as usize);
            v = rng.bytes(n)
        }
        "runs" => {
            while v.len() < len {
                let b = rng.next() as u8;
                let n = match rng.below(4) {
                    0 => rng.range(1, 4),
                    1 => rng.range(5, 40),
                    2 => rng.range(41, 400),
                    _ => rng.range(1000, 70000),
                } as usize;
                v.extend(std::iter::repeat(b).take(n.min(len - v.len())));
            }
        }
        "text" => {
            let words: Vec<Vec<u8>> = (0..rng.range(5, 200)).map(|_| (0..rng.range(1, 12)).map(|_| b'a' + rng.below(26) as u8).collect()).collect();
            while v.len() < len {
                let w = &words[(rng.below(words.len() as u64).min(rng.below(words.len() as u64))) as usize];
                v.extend_from_slice(w);
                v.push(if rng.chance(1, 12) { b'\n' } else { b' ' });
            }
            v.truncate(len);
        }
        "lowalpha" => {
            let k = *rng.pick(&[2u64, 3, 4, 16, 17, 64]);
            let skew = rng.chance(1, 2);
            for _ in 0..len {
                let x = if skew { rng.below(k).min(rng.below(k)).min(rng.below(k)) } else { rng.below(k) };
                v.push((x * 7 + 3) as u8);
            }
        }
        "periodic" => {
            let p = rng.range(1, 300) as usize;
            let pat = rng.bytes(p);
            for i in 0..len {
                let mut b = pat[i % p];
                if rng.chance(1, 97) {
                    b ^= 1 << rng.below(8);
                }
                v.push(b);
            }
        }
        "sparse" => {
            v = vec![0u8; len];
            for _ in 0..(len / 50 + 1) {
                if len > 0 {
                    let i = rng.below(len as u64) as usize;
                    v[i] = rng.next() as u8;
                }
            }
        }
        "repeatfar" => {
            // a chunk repeated at large distances (exercises big offsets / window sizes)
            let cl = rng.range(16, 2000) as usize;
            let chunk = rng.bytes(cl);
            while v.len() < len {
                v.extend_from_slice(&chunk);
                let gap = rng.range(0, 60000) as usize;
                let g = rng.bytes(gap.min(len.saturating_sub(v.len())));
                v.extend_from_slice(&g);
            }
            v.truncate(len);
        }
        _ => {
            // mixed: concatenation of pieces of other kinds
            while v.len() < len {
                let k = *rng.pick(&["random", "runs", "text", "lowalpha", "periodic", "sparse"]);
                let n = rng.range(1, (len as u64 / 3).max(2)) as usize;
                let piece = data(rng, k, n.min(len - v.len()));
                v.extend_from_slice(&piece);
            }
        }
    }
    v.truncate(len);
    v
}

pub fn pick_len(rng: &mut Rng, max: usize) -> usize {
    let m = max as u64;
    (match rng.below(10) {
        0 => rng.below(4),
        1 => rng.below(64),
        2 => rng.below(1024.min(m) + 1),
        3 => *rng.pick(&[131071u64, 131072, 131073, 262144, 65536, 1023, 1024, 1025, 16383, 16384]),
        _ => rng.below(m + 1),
    })
    .min(m) as usize
}

#[derive(Clone, Debug)]
pub struct ZParams {
    pub level: i32,
    pub window_log: Option<u32>,
    pub ldm: bool,
    pub checksum: bool,
    pub content_size: bool,
    pub flush_every: Option<usize>,
    pub min_match: Option<u32>,
    pub strategy_btultra: bool,
}

impl ZParams {
    pub fn describe(&self) -> String {
        format!(
            "lvl={} wlog={:?} ldm={} ck={} cs={} flush={:?} mm={:?}",
            self.level, self.window_log, self.ldm, self.checksum, self.content_size, self.flush_every, self.min_match
        )
    }
}

pub fn zparams(rng: &mut Rng) -> ZParams {
    let level = *rng.pick(&[-5, 1, 1, 2, 3, 3, 4, 5, 6, 7, 9, 12, 15, 19, 22]);
    // high levels with an unbounded window make libzstd allocate (and zero) gigabytes of tables
    let window_log = if level >= 12 { Some(rng.range(10, 19) as u32) } else if rng.chance(1, 2) { Some(rng.range(10, 22) as u32) } else { None };
    ZParams {
        level,
        window_log,
        ldm: rng.chance(1, 8),
        checksum: rng.chance(1, 2),
        content_size: rng.chance(1, 2),
        flush_every: if rng.chance(1, 3) { Some(*rng.pick(&[1usize, 7, 100, 1000, 5000, 40000, 131072])) } else { None },
        min_match: if rng.chance(1, 6) { Some(rng.range(3, 7) as u32) } else { None },
        strategy_btultra: false,
    }
}

/// Compress with the reference implementation (libzstd through the `zstd` crate).
#[cfg(feature = "hooks")]
pub fn zstd_frame(data: &[u8], p: &ZParams, dict: Option<&[u8]>) -> Vec<u8> {
    use zstd::zstd_safe::CParameter;
    let mut out = Vec::new();
    {
        let mut enc = match dict {
            Some(d) => zstd::stream::Encoder::with_dictionary(&mut out, p.level, d).unwrap(),
            None => zstd::stream::Encoder::new(&mut out, p.level).unwrap(),
        };
        if let Some(w) = p.window_log {
            enc.set_parameter(CParameter::WindowLog(w)).unwrap();
        }
        if p.ldm {
            enc.set_parameter(CParameter::EnableLongDistanceMatching(true)).unwrap();
        }
        if let Some(m) = p.min_match {
            enc.set_parameter(CParameter::MinMatch(m)).unwrap();
        }
        enc.include_checksum(p.checksum).unwrap();
        enc.include_contentsize(p.content_size).unwrap();
        if p.content_size {
            enc.set_pledged_src_size(Some(data.len() as u64)).unwrap();
        }
        match p.flush_every {
            Some(n) => {
                for c in data.chunks(n.max(1)) {
                    enc.write_all(c).unwrap();
                    enc.flush().unwrap();
                }
            }
            None => enc.write_all(data).unwrap(),
        }
        enc.finish().unwrap();
    }
    out
}

/// Decode with the reference implementation; `None` when libzstd rejects.
#[cfg(feature = "hooks")]
pub fn zstd_decode(frame: &[u8], dict: Option<&[u8]>, cap: usize) -> Option<Vec<u8>> {
    use std::io::Read;
    let mut out = Vec::new();
    let r = match dict {
        Some(d) => {
            let mut dec = zstd::stream::Decoder::with_dictionary(frame, d).ok()?;
            dec.window_log_max(31).ok()?;
            dec.by_ref().take(cap as u64).read_to_end(&mut out)
        }
        None => {
            let mut dec = zstd::stream::Decoder::new(frame).ok()?;
            dec.window_log_max(31).ok()?;
            dec.by_ref().take(cap as u64).read_to_end(&mut out)
        }
    };
    r.ok().map(|_| out)
}


/// The repository's own decode corpus (frames made by zstd's `decodecorpus` tool, full of rare format
/// features) as (name, frame, original).  Path relative to /verif (cwd of the checks).
pub fn repo_corpus(max_frame: usize) -> Vec<(String, Vec<u8>, Vec<u8>)> {
    let mut v = Vec::new();
    let dir = "repo/ruzstd/decodecorpus_files";
    if let Ok(rd) = std::fs::read_dir(dir) {
        let mut names: Vec<String> = rd.filter_map(|e| e.ok()).map(|e| e.file_name().to_string_lossy().to_string()).filter(|n| n.ends_with(".zst")).collect();
        names.sort();
        for n in names {
            let f = std::fs::read(format!("{}/{}", dir, n));
            let o = std::fs::read(format!("{}/{}", dir, n.trim_end_matches(".zst")));
            if let (Ok(f), Ok(o)) = (f, o) {
                if f.len() <= max_frame {
                    v.push((n, f, o));
                }
            }
        }
    }
    v
}
