//! Canonical names for ruzstd's decode errors: the same strings the Lean model renders
//! (`Zstd.Model.DErr.render`).  Matching is on the Rust variant, never on Display text.
use ruzstd::decoding::errors::*;

pub fn frame_err(e: &FrameDecoderError) -> String {
    use FrameDecoderError as E;
    match e {
        E::ReadFrameHeaderError(h) => header_err(h),
        E::FrameHeaderError(h) | E::FailedToInitialize(h) => match h {
            FrameHeaderError::WindowTooBig { got } => format!("err windowTooBig {}", got),
            FrameHeaderError::WindowTooSmall { got } => format!("err windowTooSmall {}", got),
            _ => "err frameHeaderOther".into(),
        },
        E::WindowSizeTooBig { requested, max } => format!("err windowOverLimit {} {}", requested, max),
        E::DictionaryDecodeError(_) => "err dict".into(),
        E::FailedToReadBlockHeader(b) => match b {
            BlockHeaderReadError::ReadError(_) => "err blockHeaderRead".into(),
            BlockHeaderReadError::FoundReservedBlock => "err reservedBlock".into(),
            BlockHeaderReadError::BlockTypeError(_) => "err blockTypeOther".into(),
            BlockHeaderReadError::BlockSizeError(BlockSizeError::BlockSizeTooLarge { size }) => format!("err blockSizeTooLarge {}", size),
            _ => "err blockHeaderOther".into(),
        },
        E::FailedToReadBlockBody(b) => body_err(b),
        E::FailedToReadChecksum(_) => "err checksumRead".into(),
        E::NotYetInitialized => "err notInitialized".into(),
        E::FailedToDrainDecodebuffer(_) => "err sink".into(),
        E::FailedToSkipFrame => "err failedToSkipFrame".into(),
        E::TargetTooSmall => "err targetTooSmall".into(),
        E::DictNotProvided { dict_id } => format!("err dictNotProvided {}", dict_id),
        _ => "err other".into(),
    }
}

pub fn header_err(h: &ReadFrameHeaderError) -> String {
    use ReadFrameHeaderError as H;
    match h {
        H::MagicNumberReadError(_) => "err magicRead".into(),
        H::BadMagicNumber(m) => format!("err badMagic {}", m),
        H::FrameDescriptorReadError(_) => "err descriptorRead".into(),
        H::InvalidFrameDescriptor(_) => "err descriptorOther".into(),
        H::WindowDescriptorReadError(_) => "err windowDescRead".into(),
        H::DictionaryIdReadError(_) => "err dictIdRead".into(),
        H::FrameContentSizeReadError(_) => "err fcsRead".into(),
        H::SkipFrame { magic_number, length } => format!("err skipFrame {} {}", magic_number, length),
        _ => "err headerOther".into(),
    }
}

pub fn body_err(b: &DecodeBlockContentError) -> String {
    use DecodeBlockContentError as B;
    match b {
        B::ReadError { .. } => "err blockBodyRead".into(),
        B::DecoderStateIsFailed | B::ExpectedHeaderOfPreviousBlock => "err blockState".into(),
        B::DecompressBlockError(d) => match d {
            DecompressBlockError::BlockContentReadError(_) => "err blockBodyRead".into(),
            DecompressBlockError::MalformedSectionHeader { .. } => "err malformedSection".into(),
            DecompressBlockError::DecompressLiteralsError(_) => "err literals".into(),
            DecompressBlockError::LiteralsSectionParseError(_) => "err literalsHeader".into(),
            DecompressBlockError::SequencesHeaderParseError(_) => "err seqHeader".into(),
            DecompressBlockError::DecodeSequenceError(_) => "err sequences".into(),
            DecompressBlockError::LiteralsSizeTooLarge { size, .. } => format!("err literalsTooLarge {}", size),
            DecompressBlockError::ExecuteSequencesError(x) => match x {
                ExecuteSequencesError::NotEnoughBytesForSequence { .. } => "err execNotEnoughLiterals".into(),
                ExecuteSequencesError::ZeroOffset => "err execZeroOffset".into(),
                ExecuteSequencesError::BlockSizeExceeded { .. } => "err execBlockSizeExceeded".into(),
                ExecuteSequencesError::DecodebufferError(DecodeBufferError::NotEnoughBytesInDictionary { .. }) => "err execNotEnoughDict".into(),
                ExecuteSequencesError::DecodebufferError(DecodeBufferError::OffsetTooBig { .. }) => "err execOffsetTooBig".into(),
                _ => "err execOther".into(),
            },
            _ => "err blockOther".into(),
        },
        _ => "err bodyOther".into(),
    }
}
