//! Correspondence / oracle harness: links the REAL ruzstd (path dependency on /repo) in-process.
//! `verif-harness <engine> --out DIR [--seed N] [--tier quick|thorough] [--replay FILE] [--focus S]`
//! writes DIR/<engine>.cases (requests for the Lean model), DIR/<engine>.impl (what the real code
//! answered, one line per request) and DIR/<engine>.meta.json (statistics + oracle failures).
mod engines;
#[cfg(feature = "hooks")]
mod errmap;
mod gen;
mod util;

fn main() {
    let args: Vec<String> = std::env::args().collect();
    if args.len() < 2 {
        eprintln!("usage: verif-harness <engine> --out DIR [--seed N] [--tier quick|thorough] [--replay FILE] [--focus S]");
        std::process::exit(2);
    }
    let engine = args[1].clone();
    let mut opts = util::Opts { seed: 1, thorough: false, out: "out".into(), replay: None, focus: None };
    let mut i = 2;
    while i < args.len() {
        match args[i].as_str() {
            "--seed" => {
                opts.seed = args[i + 1].parse().expect("seed");
                i += 2
            }
            "--tier" => {
                opts.thorough = args[i + 1] == "thorough";
                i += 2
            }
            "--out" => {
                opts.out = args[i + 1].clone();
                i += 2
            }
            "--replay" => {
                opts.replay = Some(args[i + 1].clone());
                i += 2
            }
            "--focus" => {
                opts.focus = Some(args[i + 1].clone());
                i += 2
            }
            other => {
                eprintln!("unknown argument {other}");
                std::process::exit(2);
            }
        }
    }
    util::install_panic_hook();
    let run = match engines::dispatch(&engine, &opts) {
        Some(r) => r,
        None => {
            eprintln!("unknown engine {engine}");
            std::process::exit(2);
        }
    };
    run.write(&opts.out).expect("write outputs");
    println!("{} cases={} oracle_checks={} oracle_failures={}", run.engine, run.cases.len(), run.oracle_checks, run.oracle_failures.len());
}
