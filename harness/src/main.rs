//! Correspondence / oracle harness: links the REAL ruzstd (path dependency on /repo) in-process.
//! `verif-harness <engine> --out DIR [--seed N] [--tier quick|thorough] [--replay FILE] [--focus S]`
//! writes DIR/<engine>.cases (requests for the Lean model), DIR/<engine>.impl (what the real code
//! answered, one line per request) and DIR/<engine>.meta.json (statistics + oracle failures).
mod engines;
#[cfg(feature = "hooks")]
mod errmap;
mod gen;
#[cfg(feature = "hooks")]
mod synth;
mod util;

/// Counting global allocator: live and peak heap bytes, for the memory-bound oracles (C05, C11).
pub mod alloc_count {
    use std::alloc::{GlobalAlloc, Layout, System};
    use std::sync::atomic::{AtomicUsize, Ordering};
    pub static LIVE: AtomicUsize = AtomicUsize::new(0);
    pub static PEAK: AtomicUsize = AtomicUsize::new(0);
    pub static BIGGEST: AtomicUsize = AtomicUsize::new(0);
    pub struct Counting;
    /// poison fresh heap memory (0xA5) so that a read of never-written memory is visible (engine `ring`)
    pub static POISON: std::sync::atomic::AtomicBool = std::sync::atomic::AtomicBool::new(false);
    unsafe impl GlobalAlloc for Counting {
        unsafe fn alloc(&self, l: Layout) -> *mut u8 {
            let p = System.alloc(l);
            if !p.is_null() {
                if POISON.load(Ordering::Relaxed) {
                    p.write_bytes(0xA5, l.size());
                }
                let live = LIVE.fetch_add(l.size(), Ordering::Relaxed) + l.size();
                PEAK.fetch_max(live, Ordering::Relaxed);
                BIGGEST.fetch_max(l.size(), Ordering::Relaxed);
            }
            p
        }
        unsafe fn dealloc(&self, p: *mut u8, l: Layout) {
            LIVE.fetch_sub(l.size(), Ordering::Relaxed);
            System.dealloc(p, l)
        }
        unsafe fn realloc(&self, p: *mut u8, l: Layout, new: usize) -> *mut u8 {
            let q = System.realloc(p, l, new);
            if !q.is_null() {
                if new > l.size() && POISON.load(Ordering::Relaxed) {
                    q.add(l.size()).write_bytes(0xA5, new - l.size());
                }
                if new >= l.size() {
                    let live = LIVE.fetch_add(new - l.size(), Ordering::Relaxed) + (new - l.size());
                    PEAK.fetch_max(live, Ordering::Relaxed);
                    BIGGEST.fetch_max(new, Ordering::Relaxed);
                } else {
                    LIVE.fetch_sub(l.size() - new, Ordering::Relaxed);
                }
            }
            q
        }
    }
    /// start a measurement window: returns the live byte count now and resets peak/biggest to it
    pub fn start() -> usize {
        let live = LIVE.load(Ordering::Relaxed);
        PEAK.store(live, Ordering::Relaxed);
        BIGGEST.store(0, Ordering::Relaxed);
        live
    }
    /// (peak live bytes above the baseline, biggest single allocation) since `start`
    pub fn stop(base: usize) -> (usize, usize) {
        (PEAK.load(Ordering::Relaxed).saturating_sub(base), BIGGEST.load(Ordering::Relaxed))
    }
}

#[global_allocator]
static GLOBAL: alloc_count::Counting = alloc_count::Counting;

fn main() {
    let args: Vec<String> = std::env::args().collect();
    if args.len() < 2 {
        eprintln!("usage: verif-harness <engine> --out DIR [--seed N] [--tier quick|thorough] [--replay FILE] [--focus S]");
        std::process::exit(2);
    }
    let engine = args[1].clone();
    let mut opts = util::Opts { seed: 1, thorough: false, out: "out".into(), replay: None, focus: None };
    let mut i = 2;
    while i < args.len() {
        match args[i].as_str() {
            "--seed" => {
                opts.seed = args[i + 1].parse().expect("seed");
                i += 2
            }
            "--tier" => {
                opts.thorough = args[i + 1] == "thorough";
                i += 2
            }
            "--out" => {
                opts.out = args[i + 1].clone();
                i += 2
            }
            "--replay" => {
                opts.replay = Some(args[i + 1].clone());
                i += 2
            }
            "--focus" => {
                opts.focus = Some(args[i + 1].clone());
                i += 2
            }
            other => {
                eprintln!("unknown argument {other}");
                std::process::exit(2);
            }
        }
    }
    #[cfg(feature = "hooks")]
    if engine == "explain" {
        // print ruzstd's full error (Debug) for a frame given as a file: a debugging aid for replays
        let bytes = std::fs::read(opts.replay.as_ref().expect("--replay FILE")).expect("read");
        let mut d = ruzstd::decoding::FrameDecoder::new();
        let mut out = Vec::with_capacity(64 << 20);
        println!("{:?}", d.decode_all_to_vec(&bytes, &mut out));
        println!("decoded {} bytes", out.len());
        return;
    }
    util::install_panic_hook();
    util::watchdog::start(opts.out.clone(), engine.clone());
    let run = match engines::dispatch(&engine, &opts) {
        Some(r) => r,
        None => {
            eprintln!("unknown engine {engine}");
            std::process::exit(2);
        }
    };
    run.write(&opts.out).expect("write outputs");
    println!("{} cases={} oracle_checks={} oracle_failures={}", run.engine, run.cases.len(), run.oracle_checks, run.oracle_failures.len());
    // leaked watchdog threads (hung cases) must not keep the process alive
    std::process::exit(0);
}
