#!/bin/sh
# Run once after a fresh restore, offline: build everything from files on disk.
set -e
cd "$(dirname "$0")"
export CARGO_NET_OFFLINE=true
python3 tools/extract.py
(cd lean && lake build Zstd zmodel)
(cd harness && cargo build --release --offline)
echo setup done
