import Zstd.Driver.Tables
import Zstd.Driver.Headers
import Zstd.Driver.Window
import Zstd.Driver.Spec
import Zstd.Driver.Dec
import Zstd.Driver.Blk
import Zstd.Driver.Ring
import Zstd.Driver.Enc
import Zstd.Driver.Io
import Zstd.Driver.Cli
import Zstd.Driver.DictBuilder
import Zstd.Driver.Huf
import Zstd.Driver.BitIO
import Zstd.Driver.Fse
import Zstd.Driver.Matcher
/-
`zmodel`: the model side of the correspondence check.  Reads one request per line on stdin
(`<engine> <op> <args…>`), answers one line on stdout.  Stateless engines are pure functions
of the line; stateful engines thread their state through `St`.
-/
open Zstd Zstd.Driver

structure St where
  dec : Dec.St := Dec.init
  blk : Blk.St := Blk.init
  ring : Ring.St := Ring.init
  huf : Driver.Huf.Cache := none
  matcher : Zstd.Driver.Matcher.State := {}

def step (st : St) (line : String) : St × String :=
  match line.trimAscii.toString.splitOn " " with
  | "tables" :: cmd :: args => (st, Tables.handle cmd args)
  | "headers" :: cmd :: args => (st, Headers.handle cmd args)
  | "window" :: cmd :: args => (st, Window.handle cmd args)
  | "spec" :: cmd :: args => (st, Driver.Spec.handle cmd args)
  | "matcher" :: cmd :: args => let (m, o) := Matcher.step st.matcher cmd args; ({ st with matcher := m }, o)
  | "bits" :: cmd :: args => (st, Driver.BitIO.handle cmd args)
  | "fse" :: cmd :: args => (st, Driver.Fse.handle cmd args)
  | "huf" :: cmd :: args => let (c, o) := Driver.Huf.step st.huf cmd args; ({ st with huf := c }, o)
  | "io" :: cmd :: args => (st, Io.handleStd cmd args)
  | "cli" :: cmd :: args => (st, Cli.handle cmd args)
  | "dictbuilder" :: cmd :: args => (st, DictBuilder.handle cmd args)
  | "enc" :: cmd :: args => (st, Driver.Enc.handle cmd args)
  | "ring" :: args => let (r, o) := Ring.step st.ring args; ({ st with ring := r }, o)
  | "blk" :: args => let (b2, o) := Blk.step st.blk args; ({ st with blk := b2 }, o)
  | "dec" :: args => let (s2, o) := Dec.step st.dec args; ({ st with dec := s2 }, o)
  | _ => (st, badOp)

partial def loop (h : IO.FS.Stream) (out : IO.FS.Stream) (st : St) : IO Unit := do
  let line ← h.getLine
  if line.isEmpty then return ()
  let (st', o) := step st line
  out.putStrLn o
  loop h out st'

def main : IO Unit := do
  let stdin ← IO.getStdin
  let stdout ← IO.getStdout
  loop stdin stdout {}
