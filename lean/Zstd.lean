import Zstd.Basic
import Zstd.Props.C14
import Zstd.Spec.Frame
import Zstd.Model.FrameDecoder
import Zstd.Props.C17
