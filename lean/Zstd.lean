import Zstd.Basic
import Zstd.Props.C14
import Zstd.Props.C11
import Zstd.Spec.Frame
import Zstd.Model.FrameDecoder
import Zstd.Props.C17
import Zstd.Props.C07
import Zstd.Props.C09
