import Zstd.Basic
import Zstd.Props.C14
