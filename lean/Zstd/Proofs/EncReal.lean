import Zstd.Proofs.EncParse
import Zstd.Model.EncCoders
/-
Facts about the REAL entropy-coder instantiation (`Model/EncCoders.lean`) that need nothing of the
FSE / Huffman theorems: the RLE-literals path introduced by the repair of F10, and the raw fallback
of `compress_literals`, decoded by the strict Spec.
-/
namespace Zstd.Proofs.Enc
open Zstd Zstd.Model Zstd.Model.Enc

/-- `rle_literals` (repair of F10) for fewer than 2^20 literals of one value: a 3-byte header and the
byte; the strict Spec decodes that section (followed by anything) to exactly the literals and leaves
the Huffman table alone -/
theorem rleLiterals_decodes (b : Byte) (n : Nat) (rest : List Byte) (prev : Option Spec.Huffman.Table)
    (h : n < 2 ^ 20) :
    ∃ hdr, rleLiterals b n = .ok (hdr ++ [b]) ∧ hdr.length = 3 ∧
      Spec.decodeLiterals (hdr ++ [b] ++ rest) prev = some (List.replicate n b, 3 + 1, prev) := by
  have hm : n % 2 ^ 32 = n := Nat.mod_eq_of_lt (by omega)
  have h1 : ¬ n ≥ 2 ^ (20 + 1) := by omega
  have h2 : ¬ n ≥ 2 ^ 20 := by omega
  refine ⟨leBytes 3 (1 + 3 * 4 + n * 16), ?_, by simp, ?_⟩
  · simp only [rleLiterals, hm, rawLitSizeBits_eq, h1, h2, ↓reduceIte]
  · have hv : 1 + 3 * 4 + n * 16 < 2 ^ 24 := by omega
    have e : (1 + 3 * 4 + n * 16) % 256 + 256 * ((1 + 3 * 4 + n * 16) / 256 % 256 + 256 * ((1 + 3 * 4 + n * 16) / 256 / 256 % 256 + 256 * 0))
        = 1 + 3 * 4 + n * 16 := by omega
    simp only [leBytes, List.cons_append, List.nil_append, Spec.decodeLiterals, Spec.parseLitHeader]
    have t0 : (1 + 3 * 4 + n * 16) % 256 % 4 = 1 := by omega
    have t1 : (1 + 3 * 4 + n * 16) % 256 / 4 % 4 = 3 := by omega
    simp only [t0, t1, Nat.lt_add_one, ↓reduceIte, Nat.reduceMod, Nat.reduceEqDiff, List.length_cons,
      List.take_succ_cons, List.take_zero, leNat, e]
    have hd : (1 + 3 * 4 + n * 16) / 16 = n := by omega
    have h3 : ¬ (rest.length + 1 + 1 + 1 + 1 < 3) := by omega
    simp [hd, h3]

/-- the F10 situation, repaired: more than 1024 literals of ONE value.  `compress_literals` no longer
reaches the Huffman table builder (which asserts two distinct symbols): it writes RLE literals,
returns no table, and the strict Spec decodes the section to the literals. -/
theorem compressLiterals_single_value (b : Byte) (t : List Byte) (prev : Option Huf.EncTable)
    (hall : (b :: t).all (fun x => x == b) = true) (hlen : (b :: t).length < 2 ^ 20)
    (rest : List Byte) (dprev : Option Spec.Huffman.Table) :
    ∃ bytes, compressLiteralsReal (b :: t) prev = .ok (bytes, none) ∧
      Spec.decodeLiterals (bytes ++ rest) dprev = some (b :: t, bytes.length, dprev) := by
  obtain ⟨hdr, hr, hl, hdec⟩ := rleLiterals_decodes b (b :: t).length rest dprev hlen
  refine ⟨hdr ++ [b], ?_, ?_⟩
  · simp only [compressLiteralsReal, hall, ↓reduceIte, hr]
  · rw [hdec, ← all_eq_replicate b (b :: t) hall]
    simp [hl]

end Zstd.Proofs.Enc
