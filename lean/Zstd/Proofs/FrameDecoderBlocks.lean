import Zstd.Proofs.FrameDecoderContract
/-
Helper lemmas about block decoding in the frame-decoder model: `read_exact`, literals length,
`execute_sequences`, `decompress_block`, `decodeOneBlock`.
-/
set_option linter.unusedSectionVars false
namespace Zstd.Model
open Zstd

variable {σ : Type} [BlockDec σ] [BlockContract σ]

/-! ### `read_exact` -/

theorem readExact_eq_some {n : Nat} {s : Src} {t r : List Nat} :
    readExact n s = some (t, r) ↔ n ≤ s.length ∧ t = s.take n ∧ r = s.drop n := by
  simp only [readExact, List.length_take]
  constructor
  · intro h
    split at h
    · cases h
    · simp only [Option.some.injEq, Prod.mk.injEq] at h
      exact ⟨by omega, h.1.symm, h.2.symm⟩
  · rintro ⟨h1, rfl, rfl⟩
    rw [if_neg (by omega)]

theorem readExact_eq_none {n : Nat} {s : Src} : readExact n s = none ↔ s.length < n := by
  simp only [readExact, List.length_take]
  constructor
  · intro h; split at h
    · omega
    · cases h
  · intro h; rw [if_pos (by omega)]

/-- a truncated source answers a read like the full source when the read fits in front of the cut,
with the rest cut at the same absolute position; otherwise `UnexpectedEof` -/
theorem readExact_take (n k : Nat) (s : Src) :
    readExact n (s.take k) =
      if n ≤ k then (readExact n s).map (fun p => (p.1, p.2.take (k - n))) else none := by
  split
  · rename_i h
    cases hs : readExact n s with
    | none =>
      rw [readExact_eq_none] at hs
      simp only [Option.map_none, readExact_eq_none, List.length_take]; omega
    | some p =>
      obtain ⟨t, r⟩ := p
      rw [readExact_eq_some] at hs
      obtain ⟨h1, rfl, rfl⟩ := hs
      simp only [Option.map_some, readExact_eq_some, List.length_take]
      refine ⟨by omega, ?_, ?_⟩
      · rw [List.take_take]; congr 1; omega
      · rw [List.drop_take]
  · rw [readExact_eq_none, List.length_take]; omega

/-! ### `execute_sequences` -/

/-- the value the Rust `seq_sum` has when `execute_sequences` returns `Ok` -/
def finalSeqSum : List Spec.Seq → List Nat → Nat → Nat
  | [], lits, q => q + lits.length
  | s :: rest, lits, q => finalSeqSum rest (lits.drop s.ll) (q + s.ml + s.ll)

theorem litPush_appends (b : DBuf) (lits : List Nat) (ll : Nat) (h : ¬ ll > lits.length) :
    ∃ x, DBuf.Appends b (if ll > 0 then b.push (lits.take ll).toArray else b) x ∧ x.size = ll := by
  split
  · exact ⟨_, DBuf.push_appends b _, by simp; omega⟩
  · exact ⟨#[], DBuf.Appends.refl b, by simp; omega⟩

theorem optRepeat_appends (b1 b2 : DBuf) (a ml : Nat)
    (h : (if ml > 0 then b1.repeat a ml else Except.ok b1) = .ok b2) :
    ∃ x, DBuf.Appends b1 b2 x ∧ x.size = ml := by
  split at h
  · exact DBuf.repeat_appends b1 b2 a ml h
  · cases h; exact ⟨#[], DBuf.Appends.refl b1, by simp; omega⟩

/-- Every path through `execute_sequences` (also the error and fault paths) only appends to the
buffer, at most `MAX_BLOCK_SIZE − seq_sum` bytes; on `Ok` exactly `seq_sum_final − seq_sum` bytes,
which is what the `assert!(seq_sum == diff)` at the end of the Rust function checks. -/
theorem executeSequences_appends (seqs : List Spec.Seq) (lits : List Nat) (h : Nat × Nat × Nat)
    (q : Nat) (b : DBuf) (hq : q ≤ Gen.maxBlockSize) :
    ∃ x, DBuf.Appends b (executeSequences seqs lits h q b).1.1 x ∧ q + x.size ≤ Gen.maxBlockSize ∧
      ((executeSequences seqs lits h q b).2 = .ok () → q + x.size = finalSeqSum seqs lits q) := by
  fun_induction executeSequences seqs lits h q b with
  | case1 lits h q b he =>
    refine ⟨#[], DBuf.Appends.refl b, by simpa using hq, ?_⟩
    intro _; simp [finalSeqSum]; simpa using he
  | case2 lits h q b he hgt =>
    exact ⟨#[], DBuf.Appends.refl b, by simpa using hq, by intro h; cases h⟩
  | case3 lits h q b he hle =>
    refine ⟨lits.toArray, DBuf.push_appends b _, by simp; omega, ?_⟩
    intro _; simp [finalSeqSum]
  | case4 s rest lits h q b hgt =>
    exact ⟨#[], DBuf.Appends.refl b, by simpa using hq, by intro h; cases h⟩
  | case5 s rest lits h q b hle hll =>
    exact ⟨#[], DBuf.Appends.refl b, by simpa using hq, by intro h; cases h⟩
  | case6 s rest lits h q b hle hll b1 f hf =>
    obtain ⟨x, hx, hs⟩ := litPush_appends b lits s.ll hll
    exact ⟨x, hx, by omega, by intro h; cases h⟩
  | case7 s rest lits h q b hle hll b1 h' hf =>
    obtain ⟨x, hx, hs⟩ := litPush_appends b lits s.ll hll
    exact ⟨x, hx, by omega, by intro h; cases h⟩
  | case8 s rest lits h q b hle hll b1 actual h' hf ha r e hr =>
    obtain ⟨x, hx, hs⟩ := litPush_appends b lits s.ll hll
    exact ⟨x, hx, by omega, by intro h; cases h⟩
  | case9 s rest lits h q b hle hll b1 actual h' hf ha r b2 hr ih =>
    obtain ⟨x, hx, hs⟩ := litPush_appends b lits s.ll hll
    obtain ⟨y, hy, hsy⟩ := optRepeat_appends b1 b2 actual s.ml hr
    obtain ⟨z, hz, hsz, hok⟩ := ih (by omega)
    refine ⟨x ++ y ++ z, (hx.trans hy).trans hz, by simp only [Array.size_append]; omega, ?_⟩
    intro hr
    simp only [Array.size_append, finalSeqSum]
    have := hok hr
    omega


/-! ### literals -/

theorem decodeSymbols_length (t : Spec.Huffman.Table) (n : Nat) (bits : List Bool) (acc r : List Nat)
    (h : Spec.Huffman.decodeSymbols t n bits acc = some r) : r.length = acc.length + n := by
  induction n generalizing bits acc with
  | zero =>
    simp only [Spec.Huffman.decodeSymbols] at h
    split at h
    · cases h; simp
    · cases h
  | succ n ih =>
    simp only [Spec.Huffman.decodeSymbols] at h
    split at h
    · cases h
    · split at h
      · cases h
      · have := ih _ _ h
        simp at this; omega

theorem decodeStream_length (t : Spec.Huffman.Table) (s : List Nat) (n : Nat) (r : List Nat)
    (h : Spec.Huffman.decodeStream t s n = some r) : r.length = n := by
  simp only [Spec.Huffman.decodeStream] at h
  split at h
  · cases h
  · simpa using decodeSymbols_length _ _ _ _ _ h

theorem decodeFourStreams_length (t : Spec.Huffman.Table) (p : List Nat) (regen : Nat) (r : List Nat)
    (h : Spec.decodeFourStreams t p regen = some r) : r.length = regen := by
  simp only [Spec.decodeFourStreams] at h
  split at h
  · cases h
  · split at h
    · cases h
    · split at h
      · cases h
      · split at h
        · rename_i a b c d ha hb hc hd
          cases h
          have := decodeStream_length _ _ _ _ ha
          have := decodeStream_length _ _ _ _ hb
          have := decodeStream_length _ _ _ _ hc
          have := decodeStream_length _ _ _ _ hd
          simp only [List.length_append]; omega
        · cases h

/-- the literals section regenerates exactly `Regenerated_Size` bytes (the Rust code asserts this) -/
theorem decodeLiterals_length (bytes : List Nat) (prev : Option Spec.Huffman.Table)
    (lits : List Nat) (used : Nat) (huf : Option Spec.Huffman.Table)
    (h : Spec.decodeLiterals bytes prev = some (lits, used, huf)) :
    ∃ hd, Spec.parseLitHeader bytes = some hd ∧ lits.length = hd.regen := by
  simp only [Spec.decodeLiterals] at h
  split at h
  · cases h
  · rename_i hd hhd
    refine ⟨hd, hhd, ?_⟩
    split at h
    · split at h
      · cases h
      · rename_i hlen; cases h; simp only [List.length_drop] at hlen; simp; omega
    · split at h
      · split at h
        · cases h
        · cases h; simp
      · split at h
        · cases h
        · split at h
          · cases h
          · split at h
            · cases h
            · split at h
              · cases h
              · rename_i ls hls
                cases h
                split at hls
                · exact decodeStream_length _ _ _ _ hls
                · exact decodeFourStreams_length _ _ _ _ hls


theorem parseLitHeader_take (raw : List Nat) (h : Spec.LitHeader) (m : Nat)
    (hp : Spec.parseLitHeader raw = some h) (hm : h.hdrLen ≤ m) :
    Spec.parseLitHeader (raw.take m) = some h := by
  cases raw with
  | nil => simp [Spec.parseLitHeader] at hp
  | cons b0 tl =>
    have key : ∀ n, n ≤ m → n ≤ (b0 :: tl).length →
        ((b0 :: tl).take m).take n = (b0 :: tl).take n ∧ ¬ ((b0 :: tl).take m).length < n := by
      intro n h1 h2
      refine ⟨by rw [List.take_take]; congr 1; omega, by rw [List.length_take]; omega⟩
    simp only [Spec.parseLitHeader] at hp
    repeat' split at hp
    all_goals first | (cases hp; done) | skip
    all_goals
      cases hp
      simp only at hm
      obtain ⟨m', rfl⟩ : ∃ m', m = m' + 1 := ⟨m - 1, by omega⟩
    all_goals rw [List.take_succ_cons] at key ⊢
    · simp [Spec.parseLitHeader, *]
    · have k := key 2 (by omega) (by omega)
      simp only [Spec.parseLitHeader, *, k.1, k.2]; simp
    · have k := key 3 (by omega) (by omega)
      simp only [Spec.parseLitHeader, *, k.1, k.2]; simp
    all_goals
      simp only [List.length_cons] at *
      simp only [Spec.parseLitHeader, *]
      simp [List.take_take]
      first
        | (rw [Nat.min_eq_left (show 2 ≤ m' by omega)]; simp; omega)
        | (rw [Nat.min_eq_left (show 3 ≤ m' by omega)]; simp; omega)
        | (rw [Nat.min_eq_left (show 4 ≤ m' by omega)]; simp; omega)



/-! ### blocks -/

theorem decodeLiteralsM_length (raw : List Nat) (prev : Option Spec.Huffman.Table)
    (lits : List Nat) (used : Nat) (huf : Option Spec.Huffman.Table) (h : Spec.LitHeader)
    (hd : decodeLiteralsM raw prev = .ok (lits, used, huf, h)) :
    lits.length = h.regen ∧ h.regen ≤ Gen.maxBlockSize := by
  unfold decodeLiteralsM at hd
  cases hh0 : Spec.parseLitHeader raw with
  | none => simp [hh0] at hd
  | some h0 =>
    simp only [hh0] at hd
    by_cases hreg : h0.regen > Gen.maxBlockSize
    · simp [hreg] at hd
    · simp only [hreg, if_false] at hd
      generalize (if h0.ltype = 0 then h0.regen else if h0.ltype = 1 then 1 else h0.comp) = upper at hd
      split at hd
      · cases hd
      · split at hd
        · cases hd
        · rename_i l u hf hdec
          cases hd
          obtain ⟨hd', hp, hl⟩ := decodeLiterals_length _ _ _ _ _ hdec
          rw [parseLitHeader_take raw h _ hh0 (Nat.le_add_right _ _)] at hp
          cases hp
          exact ⟨hl, by omega⟩

/-- `decompress_block` only appends to the buffer, at most `MAX_BLOCK_SIZE` bytes, on every path -/
theorem decompressBlock_appends (content : List Nat) (e : Spec.Entropy) (b : DBuf) :
    ∃ x, DBuf.Appends b (decompressBlock content e b).1.1 x ∧ x.size ≤ Gen.maxBlockSize := by
  unfold decompressBlock
  cases hlit : decodeLiteralsM content e.huf with
  | error er => exact ⟨#[], DBuf.Appends.refl b, Nat.zero_le _⟩
  | ok r =>
    obtain ⟨lits, used, huf, hdr⟩ := r
    have hl := decodeLiteralsM_length _ _ _ _ _ _ hlit
    simp only
    cases hcnt : Spec.parseSeqCount (content.drop used) with
    | none => exact ⟨#[], DBuf.Appends.refl b, Nat.zero_le _⟩
    | some r =>
      obtain ⟨n, u⟩ := r
      simp only
      by_cases hn : n = 0
      · simp only [hn, if_true]
        generalize (if (content.drop used).headD 0 = 0 then 1 else 2) = hdrn
        split
        · exact ⟨#[], DBuf.Appends.refl b, Nat.zero_le _⟩
        · exact ⟨lits.toArray, DBuf.push_appends b _, by simp; omega⟩
      · simp only [hn, if_false]
        cases hseq : decodeSequencesM (content.drop used) { e with huf := huf } with
        | error er => exact ⟨#[], DBuf.Appends.refl b, Nat.zero_le _⟩
        | ok r =>
          obtain ⟨seqs, e'⟩ := r
          simp only
          obtain ⟨x, hx, hs, _⟩ := executeSequences_appends seqs lits (e'.hist.r1, e'.hist.r2, e'.hist.r3) 0 b (Nat.zero_le _)
          exact ⟨x, hx, by omega⟩

theorem parseBlockHeader_ok (b0 b1 b2 : Nat) (bh : BHeader) (h : parseBlockHeader b0 b1 b2 = .ok bh) :
    bh.decompressedSize ≤ Gen.maxBlockSize ∧ bh.contentSize ≤ Gen.maxBlockSize ∧
    (bh.btype = 1 → bh.contentSize = 1) ∧ (bh.btype = 0 → bh.contentSize = bh.decompressedSize) := by
  simp only [parseBlockHeader] at h
  split at h
  · cases h
  · split at h
    · cases h
    · rename_i hsz
      cases h
      simp only [Gen.blockSizeTooLarge, decide_eq_true_eq] at hsz
      have : 1 ≤ Gen.maxBlockSize := by decide
      refine ⟨?_, ?_, ?_, ?_⟩ <;> dsimp only
      · split <;> omega
      · split <;> omega
      · intro h; simp [h]
      · intro h; simp [h]

/-- what one block does to the decoder state, whatever the outcome -/
structure BlockStep (st st' : FState σ) : Prop where
  header : st'.header = st.header
  finished : st'.finished = st.finished
  checksum : st'.checksum = st.checksum
  usingDict : st'.usingDict = st.usingDict
  appends : ∃ x, DBuf.Appends st.buf st'.buf x ∧ x.size ≤ Gen.maxBlockSize
  bytesRead_le : st.bytesRead ≤ st'.bytesRead
  blockCounter : st.blockCounter ≤ st'.blockCounter ∧ st'.blockCounter ≤ st.blockCounter + 1

theorem decodeOneBlock_step (st : FState σ) (s : Src) : BlockStep st (decodeOneBlock st s).1 := by
  have hrefl : BlockStep st st :=
    ⟨rfl, rfl, rfl, rfl, ⟨#[], DBuf.Appends.refl _, Nat.zero_le _⟩, Nat.le_refl _, Nat.le_refl _, Nat.le_succ _⟩
  have hrefl3 : BlockStep st { st with bytesRead := st.bytesRead + 3 } :=
    ⟨rfl, rfl, rfl, rfl, ⟨#[], DBuf.Appends.refl _, Nat.zero_le _⟩, Nat.le_add_right _ _, Nat.le_refl _, Nat.le_succ _⟩
  simp only [decodeOneBlock]
  split
  · exact hrefl
  · split
    · exact hrefl
    · rename_i bh hbh
      have hp := parseBlockHeader_ok _ _ _ _ hbh
      split
      · split
        · exact hrefl3
        · exact ⟨rfl, rfl, rfl, rfl, ⟨_, ⟨rfl, rfl, rfl, rfl⟩, by simp; exact hp.1⟩, by simp; omega, by simp⟩
      · split
        · split
          · exact hrefl3
          · rename_i data s2 hr
            rw [readExact_eq_some] at hr
            refine ⟨rfl, rfl, rfl, rfl, ⟨_, ⟨rfl, rfl, rfl, rfl⟩, ?_⟩, by simp; omega, by simp⟩
            simp [hr.2.1]; have := hp.1; omega
        · split
          · exact hrefl3
          · rename_i content s2 hr
            have ha := BlockContract.appends content st.entropy st.buf
            split <;> rename_i heq <;> rw [heq] at ha <;>
              exact ⟨rfl, rfl, rfl, rfl, ha, by simp <;> omega, by simp⟩



def Out.mapOk {α β} (f : α → β) : Out α → Out β
  | .ok a => .ok (f a)
  | .err e => .err e
  | .fault f => .fault f

/-- `decode_block_content` given the complete block body (the bytes after the 3-byte header) -/
def blockBody (st0 : FState σ) (bh : BHeader) (body : List Nat) : FState σ × Out Unit :=
  let st := { st0 with bytesRead := st0.bytesRead + 3 }
  if bh.btype = 1 then
    ({ st with buf := { st.buf with content := st.buf.content ++ Array.replicate bh.decompressedSize (body.headD 0) },
               bytesRead := st.bytesRead + 1, blockCounter := st.blockCounter + 1 }, .ok ())
  else if bh.btype = 0 then
    ({ st with buf := { st.buf with content := st.buf.content ++ body.toArray },
               bytesRead := st.bytesRead + bh.decompressedSize, blockCounter := st.blockCounter + 1 }, .ok ())
  else
    match BlockDec.run body st.entropy st.buf with
    | ((buf, e), .ok ()) =>
      ({ st with buf := buf, entropy := e, bytesRead := st.bytesRead + bh.contentSize, blockCounter := st.blockCounter + 1 }, .ok ())
    | ((buf, e), .err er) => ({ st with buf := buf, entropy := e }, .err er)
    | ((buf, e), .fault f) => ({ st with buf := buf, entropy := e }, .fault f)

/-- `decodeOneBlock` as a function of the source length, its first three bytes and the block body:
the reads are exact (`3` bytes, then `contentSize` bytes), nothing else of the source is looked at. -/
theorem decodeOneBlock_eq (st : FState σ) (s : Src) :
    decodeOneBlock st s =
      if s.length < 3 then (st, .err .blockHeaderRead)
      else match parseBlockHeader (s.getD 0 0) (s.getD 1 0) (s.getD 2 0) with
        | .error e => (st, .err e)
        | .ok bh =>
          if s.length < 3 + bh.contentSize then ({ st with bytesRead := st.bytesRead + 3 }, .err .blockBodyRead)
          else
            ((blockBody st bh ((s.drop 3).take bh.contentSize)).1,
             (blockBody st bh ((s.drop 3).take bh.contentSize)).2.mapOk (fun _ => (bh, s.drop (3 + bh.contentSize)))) := by
  unfold decodeOneBlock
  cases h3 : readExact 3 s with
  | none =>
    rw [readExact_eq_none] at h3
    simp [h3]
  | some p =>
    obtain ⟨hb, s1⟩ := p
    rw [readExact_eq_some] at h3
    obtain ⟨hlen, rfl, rfl⟩ := h3
    have hg : ∀ i, i < 3 → (s.take 3).getD i 0 = s.getD i 0 := by
      intro i hi
      simp only [List.getD_eq_getElem?_getD, List.getElem?_take, hi, if_true]
    simp only [hg 0 (by omega), hg 1 (by omega), hg 2 (by omega), if_neg (show ¬ s.length < 3 by omega)]
    cases hp : parseBlockHeader (s.getD 0 0) (s.getD 1 0) (s.getD 2 0) with
    | error e => rfl
    | ok bh =>
      have hpo := parseBlockHeader_ok _ _ _ _ hp
      simp only
      by_cases ht1 : bh.btype = 1
      · have hc := hpo.2.2.1 ht1
        simp only [ht1, if_true, hc]
        cases hr : readExact 1 (s.drop 3) with
        | none =>
          rw [readExact_eq_none, List.length_drop] at hr
          rw [if_pos (by omega)]
        | some p =>
          obtain ⟨rb, s2⟩ := p
          rw [readExact_eq_some, List.length_drop] at hr
          obtain ⟨hl, rfl, rfl⟩ := hr
          rw [if_neg (by omega)]
          simp [blockBody, ht1, Out.mapOk, List.drop_drop]
      · by_cases ht0 : bh.btype = 0
        · have hc := hpo.2.2.2 ht0
          rw [if_neg ht1, if_pos ht0]
          cases hr : readExact bh.decompressedSize (s.drop 3) with
          | none =>
            rw [readExact_eq_none, List.length_drop] at hr
            rw [if_pos (by omega)]
          | some p =>
            obtain ⟨rb, s2⟩ := p
            rw [readExact_eq_some, List.length_drop] at hr
            obtain ⟨hl, rfl, rfl⟩ := hr
            rw [if_neg (by omega)]
            simp [blockBody, ht0, Out.mapOk, List.drop_drop, hc]
        · rw [if_neg ht1, if_neg ht0]
          cases hr : readExact bh.contentSize (s.drop 3) with
          | none =>
            rw [readExact_eq_none, List.length_drop] at hr
            rw [if_pos (by omega)]
          | some p =>
            obtain ⟨rb, s2⟩ := p
            rw [readExact_eq_some, List.length_drop] at hr
            obtain ⟨hl, rfl, rfl⟩ := hr
            rw [if_neg (by omega)]
            simp only [blockBody, ht1, ht0, if_false, List.drop_drop]
            split <;> rename_i heq <;> simp [heq, Out.mapOk]


theorem Out.mapOk_eq_ok {α β} {f : α → β} {o : Out α} {b : β} (h : o.mapOk f = .ok b) :
    ∃ a, o = .ok a ∧ f a = b := by
  cases o <;> simp [Out.mapOk] at h
  exact ⟨_, rfl, h⟩

theorem take_getD_lt (s : List Nat) (k i : Nat) (h : i < k) : (s.take k).getD i 0 = s.getD i 0 := by
  simp only [List.getD_eq_getElem?_getD, List.getElem?_take, h, if_true]

theorem take_drop_take (s : List Nat) (k m n : Nat) (h : m + n ≤ k) :
    ((s.take k).drop m).take n = (s.drop m).take n := by
  rw [List.drop_take, List.take_take]; congr 1; omega

theorem blockBody_ok (st st' : FState σ) (bh : BHeader) (body : List Nat)
    (h1 : bh.btype = 1 → bh.contentSize = 1) (h0 : bh.btype = 0 → bh.contentSize = bh.decompressedSize)
    (h : blockBody st bh body = (st', .ok ())) :
    st'.bytesRead = st.bytesRead + (3 + bh.contentSize) ∧ st'.blockCounter = st.blockCounter + 1 := by
  simp only [blockBody] at h
  split at h
  · rename_i ht; cases h; simp [h1 ht]
  · split at h
    · rename_i ht; cases h; simp [h0 ht]; omega
    · split at h
      · cases h; simp; omega
      · cases h
      · cases h

/-- what a successful block did: consumed exactly `3 + contentSize` bytes from the front of the
source (the rest is untouched), and the counters say so -/
theorem decodeOneBlock_ok (st st' : FState σ) (s s1 : Src) (bh : BHeader)
    (h : decodeOneBlock st s = (st', .ok (bh, s1))) :
    3 + bh.contentSize ≤ s.length ∧ s1 = s.drop (3 + bh.contentSize) ∧
    parseBlockHeader (s.getD 0 0) (s.getD 1 0) (s.getD 2 0) = .ok bh ∧
    blockBody st bh ((s.drop 3).take bh.contentSize) = (st', .ok ()) ∧
    st'.bytesRead = st.bytesRead + (3 + bh.contentSize) ∧ st'.blockCounter = st.blockCounter + 1 := by
  rw [decodeOneBlock_eq] at h
  by_cases h3 : s.length < 3
  · rw [if_pos h3] at h; cases h
  · rw [if_neg h3] at h
    cases hp : parseBlockHeader (s.getD 0 0) (s.getD 1 0) (s.getD 2 0) with
    | error e => rw [hp] at h; cases h
    | ok bh' =>
      rw [hp] at h
      simp only at h
      by_cases hlen : s.length < 3 + bh'.contentSize
      · rw [if_pos hlen] at h; cases h
      · rw [if_neg hlen] at h
        simp only [Prod.mk.injEq] at h
        obtain ⟨h1, h2⟩ := h
        obtain ⟨u, hu, hf⟩ := Out.mapOk_eq_ok h2
        simp only [Prod.mk.injEq] at hf
        obtain ⟨rfl, rfl⟩ := hf
        have hpo := parseBlockHeader_ok _ _ _ _ hp
        have hb : blockBody st bh' ((s.drop 3).take bh'.contentSize) = (st', .ok ()) := Prod.ext h1 hu
        have := blockBody_ok _ _ _ _ hpo.2.2.1 hpo.2.2.2 hb
        exact ⟨by omega, rfl, rfl, hb, this.1, this.2⟩

/-- truncated source, block fits in front of the cut: same result, rest truncated -/
theorem decodeOneBlock_take_fits (st st' : FState σ) (s s1 : Src) (bh : BHeader) (k : Nat)
    (h : decodeOneBlock st s = (st', .ok (bh, s1))) (hk : 3 + bh.contentSize ≤ k) :
    decodeOneBlock st (s.take k) = (st', .ok (bh, s1.take (k - (3 + bh.contentSize)))) := by
  obtain ⟨hlen, rfl, hp, hb, -, -⟩ := decodeOneBlock_ok _ _ _ _ _ h
  rw [decodeOneBlock_eq, if_neg (by rw [List.length_take]; omega),
    take_getD_lt _ _ _ (by omega), take_getD_lt _ _ _ (by omega), take_getD_lt _ _ _ (by omega)]
  simp only [hp]
  rw [if_neg (by rw [List.length_take]; omega), take_drop_take _ _ _ _ hk, hb, List.drop_take]
  rfl

/-- truncated source, cut inside the block: `UnexpectedEof` on the header or the body read; nothing
was decoded (only the header's 3 bytes are counted when the body read fails) -/
theorem decodeOneBlock_take_cut (st st' : FState σ) (s s1 : Src) (bh : BHeader) (k : Nat)
    (h : decodeOneBlock st s = (st', .ok (bh, s1))) (hk : k < 3 + bh.contentSize) :
    decodeOneBlock st (s.take k) =
      if k < 3 then (st, .err .blockHeaderRead)
      else ({ st with bytesRead := st.bytesRead + 3 }, .err .blockBodyRead) := by
  obtain ⟨hlen, rfl, hp, hb, -, -⟩ := decodeOneBlock_ok _ _ _ _ _ h
  rw [decodeOneBlock_eq]
  by_cases hk3 : k < 3
  · rw [if_pos (by rw [List.length_take]; omega), if_pos hk3]
  · rw [if_neg (by rw [List.length_take]; omega), if_neg hk3,
      take_getD_lt _ _ _ (by omega), take_getD_lt _ _ _ (by omega), take_getD_lt _ _ _ (by omega)]
    simp only [hp]
    rw [if_pos (by rw [List.length_take]; omega)]


end Zstd.Model
