import Zstd.Proofs.FrameDecoderBuf
/-
Helper lemmas about the drain paths of the frame decoder: `write_all_bytes`, `drain_to` with its
guard, `collect`, `read`, `collect_to_writer`; the vocabulary `DrainOp` / `applyDrain` used by the
C06 / C08 property theorems.
-/
set_option linter.unusedSectionVars false
namespace Zstd.Model
open Zstd

variable {σ : Type} [BlockDec σ]

/-! ### accessors on the whole decoder -/

/-- bytes fed to the hasher since the last (re)initialisation -/
def Decoder.hashed (d : Decoder σ) : Array Nat :=
  match d.state with | none => #[] | some st => st.buf.hashed

/-- bytes currently buffered -/
def Decoder.content (d : Decoder σ) : Array Nat :=
  match d.state with | none => #[] | some st => st.buf.content

def Decoder.window (d : Decoder σ) : Nat :=
  match d.state with | none => 0 | some st => st.buf.window

def Decoder.bytesRead (d : Decoder σ) : Nat :=
  match d.state with | none => 0 | some st => st.bytesRead

/-- `frame_finished` (the last block has been decoded; the checksum may be outstanding) -/
def Decoder.blocksDone (d : Decoder σ) : Bool :=
  match d.state with | none => true | some st => st.finished

/-! ### `write_all_bytes` -/

theorem writeAllBytes_bounds (fuel : Nat) (sc : List SinkResp) (len w : Nat) (h : w ≤ len) :
    w ≤ (writeAllBytes fuel sc len w).1 ∧ (writeAllBytes fuel sc len w).1 ≤ len := by
  induction fuel generalizing sc w with
  | zero => simp [writeAllBytes, h]
  | succ fuel ih =>
    unfold writeAllBytes
    split
    · simp [h]
    · split
      · simp; omega
      · simp [h]
      · rename_i k rest
        simp only
        split
        · simp [h]
        · have := ih rest (w + min k (len - w)) (by omega)
          omega

/-- the loop `while written < buf.len()` runs at most `len − written` times with progress, plus one
final iteration: the fuel given by `drainToSink` (`len + 1`) is never exhausted -/
theorem writeAllBytes_fuel (fuel extra : Nat) (sc : List SinkResp) (len w : Nat) (h : len - w < fuel) :
    writeAllBytes (fuel + extra) sc len w = writeAllBytes fuel sc len w := by
  induction fuel generalizing sc w with
  | zero => omega
  | succ fuel ih =>
    rw [show fuel + 1 + extra = (fuel + extra) + 1 by omega]
    unfold writeAllBytes
    split
    · rfl
    · split
      · rfl
      · rfl
      · rename_i k rest
        simp only
        split
        · rfl
        · exact ih rest _ (by omega)

/-! ### `drain_to` -/

theorem DBuf.take_zero (b : DBuf) : (b.take 0).2 = b := by
  cases b; simp [DBuf.take]

/-- `drain_exact`: for EVERY sink script and every ring split the buffer is left exactly as after
`take written`: the first `written` bytes are hashed and dropped, nothing else changes; and
`written ≤ amount`, `written ≤ content.size`. -/
theorem DBuf.drainToSink_take (b : DBuf) (amount seg1 : Nat) (sc : List SinkResp) :
    (b.drainToSink amount seg1 sc).1 = (b.take (b.drainToSink amount seg1 sc).2.1).2 ∧
    (b.drainToSink amount seg1 sc).2.1 ≤ amount ∧
    (b.drainToSink amount seg1 sc).2.1 ≤ b.content.size := by
  simp only [DBuf.drainToSink]
  split
  · simp [DBuf.take_zero]
  · split
    · simp [DBuf.take_zero]
    · generalize hn1 : min (min seg1 b.content.size) amount = n1
      generalize hn2 : min (b.content.size - min seg1 b.content.size) (amount - n1) = n2
      have hb1 := writeAllBytes_bounds (n1 + 1) sc n1 0 (Nat.zero_le _)
      generalize hw1 : writeAllBytes (n1 + 1) sc n1 0 = r1 at hb1
      obtain ⟨w1, ok1, sc1⟩ := r1
      simp only at hb1 ⊢
      split
      · simp; omega
      · split
        · have hb2 := writeAllBytes_bounds (n2 + 1) sc1 n2 0 (Nat.zero_le _)
          generalize hw2 : writeAllBytes (n2 + 1) sc1 n2 0 = r2 at hb2
          obtain ⟨w2, ok2, sc2⟩ := r2
          simp only at hb2 ⊢
          simp; omega
        · simp; omega

/-- the second ring segment is only attempted when the first was accepted completely; otherwise the
outcome is the first call's outcome (script position included) -/
theorem DBuf.drainToSink_first_partial (b : DBuf) (amount seg1 : Nat) (sc : List SinkResp)
    (h0 : amount ≠ 0) (h1 : min (min seg1 b.content.size) amount ≠ 0)
    (hp : (writeAllBytes (min (min seg1 b.content.size) amount + 1) sc (min (min seg1 b.content.size) amount) 0).1
            < min (min seg1 b.content.size) amount) :
    b.drainToSink amount seg1 sc =
      let r := writeAllBytes (min (min seg1 b.content.size) amount + 1) sc (min (min seg1 b.content.size) amount) 0
      ((b.take r.1).2, r.1, r.2.1, r.2.2) := by
  simp only [DBuf.drainToSink, h0, h1, if_false]
  generalize writeAllBytes (min (min seg1 b.content.size) amount + 1) sc (min (min seg1 b.content.size) amount) 0 = r at hp
  obtain ⟨w1, ok1, sc1⟩ := r
  simp only at hp ⊢
  cases ok1 <;> simp <;> omega

/-! ### sinks with a total budget -/

/-- a sink that accepts `B` more bytes (one per call) and then answers `Err` (`failAfter`) or `Ok(0)` -/
def budgetScript (B : Nat) (failAfter : Bool) : List SinkResp :=
  List.replicate B (.accept 1) ++ [if failAfter then .fail else .accept 0]

/-- what a sink with total budget `B` does to a request of `m` bytes: (written, ok) -/
def budgetOutcome (B : Nat) (failAfter : Bool) (m : Nat) : Nat × Bool :=
  (min B m, decide (m ≤ B) || !failAfter)

theorem writeAllBytes_budget (fuel B : Nat) (failAfter : Bool) (tl : List SinkResp) (len w : Nat)
    (hw : w ≤ len) (hf : len - w < fuel) :
    writeAllBytes fuel (List.replicate B (.accept 1) ++ (if failAfter then SinkResp.fail else .accept 0) :: tl) len w =
      if len - w ≤ B then
        (len, true, List.replicate (B - (len - w)) (.accept 1) ++ (if failAfter then SinkResp.fail else .accept 0) :: tl)
      else (w + B, !failAfter, tl) := by
  induction fuel generalizing B w with
  | zero => omega
  | succ fuel ih =>
    unfold writeAllBytes
    split
    · have : len - w = 0 := by omega
      have : w = len := by omega
      simp [*]
    · cases B with
      | zero =>
        have : ¬ len - w ≤ 0 := by omega
        cases failAfter <;> simp [this]
      | succ B =>
        simp only [List.replicate_succ, List.cons_append]
        have hmin : min 1 (len - w) = 1 := by omega
        simp only [hmin]
        rw [if_neg (by omega), ih B (w + 1) (by omega) (by omega)]
        by_cases hle : len - w ≤ B + 1
        · have : len - (w + 1) ≤ B := by omega
          simp only [this, hle, if_true]
          congr 4; omega
        · have : ¬ len - (w + 1) ≤ B := by omega
          simp only [this, hle, if_false]
          congr 1; omega



/-- `drain_to` in case form -/
theorem DBuf.drainToSink_cases (b : DBuf) (amount seg1 : Nat) (sc : List SinkResp) (n1 n2 : Nat)
    (hn1 : n1 = min (min seg1 b.content.size) amount)
    (hn2 : n2 = min (b.content.size - min seg1 b.content.size) (amount - n1))
    (h0 : amount ≠ 0) (h1 : n1 ≠ 0) (w1 : Nat) (ok1 : Bool) (sc1 : List SinkResp)
    (e1 : writeAllBytes (n1 + 1) sc n1 0 = (w1, ok1, sc1)) :
    b.drainToSink amount seg1 sc =
      if ok1 = false then ((b.take w1).2, w1, false, sc1)
      else if w1 = n1 ∧ n2 ≠ 0 then
        ((b.take (w1 + (writeAllBytes (n2 + 1) sc1 n2 0).1)).2, w1 + (writeAllBytes (n2 + 1) sc1 n2 0).1,
          (writeAllBytes (n2 + 1) sc1 n2 0).2.1, (writeAllBytes (n2 + 1) sc1 n2 0).2.2)
      else ((b.take w1).2, w1, true, sc1) := by
  subst hn1 hn2
  simp only [DBuf.drainToSink, if_neg h0, if_neg h1, e1]
  cases ok1 <;> simp

theorem DBuf.drainToSink_nothing (b : DBuf) (amount seg1 : Nat) (sc : List SinkResp)
    (h : amount = 0 ∨ min (min seg1 b.content.size) amount = 0) :
    b.drainToSink amount seg1 sc = (b, 0, true, sc) := by
  simp only [DBuf.drainToSink]
  split
  · rfl
  · rw [if_pos (by omega)]

theorem DBuf.drainToSink_budget (b : DBuf) (amount seg1 B : Nat) (failAfter : Bool)
    (hseg : 0 < seg1 ∨ b.content.size = 0) :
    ((b.drainToSink amount seg1 (budgetScript B failAfter)).2.1,
     (b.drainToSink amount seg1 (budgetScript B failAfter)).2.2.1)
      = budgetOutcome B failAfter (min amount b.content.size) := by
  by_cases h0 : amount = 0
  · rw [DBuf.drainToSink_nothing _ _ _ _ (Or.inl h0)]; subst h0; simp [budgetOutcome]
  generalize hn1d : min (min seg1 b.content.size) amount = n1
  generalize hn2d : min (b.content.size - min seg1 b.content.size) (amount - n1) = n2
  by_cases h1 : n1 = 0
  · have : min amount b.content.size = 0 := by omega
    rw [DBuf.drainToSink_nothing _ _ _ _ (Or.inr (by omega))]; simp [budgetOutcome, this]
  have hm : min amount b.content.size = n1 + n2 := by omega
  have e1 := writeAllBytes_budget (n1 + 1) B failAfter [] n1 0 (Nat.zero_le _) (by omega)
  simp only [Nat.sub_zero, Nat.zero_add] at e1
  by_cases hle : n1 ≤ B
  · rw [if_pos hle] at e1
    rw [budgetScript, DBuf.drainToSink_cases b amount seg1 _ n1 n2 hn1d.symm hn2d.symm h0 h1 _ _ _ e1]
    have e2 := writeAllBytes_budget (n2 + 1) (B - n1) failAfter [] n2 0 (Nat.zero_le _) (by omega)
    simp only [Nat.sub_zero, Nat.zero_add] at e2
    simp only [e2, budgetOutcome, hm]
    by_cases h2 : n2 = 0
    · subst h2
      simp [hle]
    · by_cases hle2 : n2 ≤ B - n1
      · have : n1 + n2 ≤ B := by omega
        simp [h2, hle2, this]
      · have : ¬ n1 + n2 ≤ B := by omega
        simp [h2, hle2, this]; omega
  · rw [if_neg hle] at e1
    rw [budgetScript, DBuf.drainToSink_cases b amount seg1 _ n1 n2 hn1d.symm hn2d.symm h0 h1 _ _ _ e1]
    have hm' : ¬ n1 + n2 ≤ B := by omega
    have hne : ¬ B = n1 := by omega
    cases failAfter <;> simp [budgetOutcome, hm, hm', hne] <;> omega

theorem DBuf.drainToSink_driverScript (b : DBuf) (amount bud : Nat) (failAfter : Bool) :
    ((b.drainToSink amount b.content.size
        ((if bud > 0 then [SinkResp.accept bud] else []) ++ [if failAfter then SinkResp.fail else .accept 0])).2.1,
     (b.drainToSink amount b.content.size
        ((if bud > 0 then [SinkResp.accept bud] else []) ++ [if failAfter then SinkResp.fail else .accept 0])).2.2.1)
      = budgetOutcome bud failAfter (min amount b.content.size) := by
  by_cases h0 : amount = 0
  · rw [DBuf.drainToSink_nothing _ _ _ _ (Or.inl h0)]; subst h0; simp [budgetOutcome]
  generalize hn1d : min (min b.content.size b.content.size) amount = n1
  by_cases h1 : n1 = 0
  · have : min amount b.content.size = 0 := by omega
    rw [DBuf.drainToSink_nothing _ _ _ _ (Or.inr (by omega))]; simp [budgetOutcome, this]
  have hn2 : 0 = min (b.content.size - min b.content.size b.content.size) (amount - n1) := by omega
  have hm : min amount b.content.size = n1 := by omega
  obtain ⟨m', rfl⟩ : ∃ m', n1 = m' + 1 := ⟨n1 - 1, by omega⟩
  by_cases hb : bud > 0
  · by_cases hle : m' + 1 ≤ bud
    · have e1 : writeAllBytes (m' + 1 + 1) ([SinkResp.accept bud] ++ [if failAfter then SinkResp.fail else .accept 0]) (m' + 1) 0
          = (m' + 1, true, [if failAfter then SinkResp.fail else .accept 0]) := by
        have : min bud (m' + 1) = m' + 1 := by omega
        simp [writeAllBytes, this]
      rw [if_pos hb, DBuf.drainToSink_cases b amount _ _ (m' + 1) 0 hn1d.symm hn2 h0 h1 _ _ _ e1]
      simp [budgetOutcome, hm, hle]
    · have e1 : writeAllBytes (m' + 1 + 1) ([SinkResp.accept bud] ++ [if failAfter then SinkResp.fail else .accept 0]) (m' + 1) 0
          = (bud, !failAfter, []) := by
        have : min bud (m' + 1) = bud := by omega
        have h3 : ¬ bud = 0 := by omega
        have h4 : ¬ m' + 1 ≤ bud := hle
        cases failAfter <;> simp [writeAllBytes, this, h3, h4]
      rw [if_pos hb, DBuf.drainToSink_cases b amount _ _ (m' + 1) 0 hn1d.symm hn2 h0 h1 _ _ _ e1]
      cases failAfter <;> simp [budgetOutcome, hm, hle] <;> omega
  · have hb0 : bud = 0 := by omega
    subst hb0
    have e1 : writeAllBytes (m' + 1 + 1) ([] ++ [if failAfter then SinkResp.fail else .accept 0]) (m' + 1) 0
          = (0, !failAfter, []) := by
      cases failAfter <;> simp [writeAllBytes]
    rw [if_neg hb, DBuf.drainToSink_cases b amount _ _ (m' + 1) 0 hn1d.symm hn2 h0 h1 _ _ _ e1]
    cases failAfter <;> simp [budgetOutcome, hm]


/-! ### drain operations of the public API -/

inductive DrainOp where
  | collect
  | read (n : Nat)
  | toWriter (seg1 : Nat) (script : List SinkResp)
  deriving Repr

/-- run a drain operation; second component = the bytes handed to the caller (for the sink: the bytes
the sink accepted, i.e. the first `written` bytes of the buffer) -/
def applyDrain (d : Decoder σ) : DrainOp → Decoder σ × Array Nat
  | .collect => ((d.collect).1, (d.collect).2.getD #[])
  | .read n => d.read n
  | .toWriter seg1 sc => ((d.collectToWriter seg1 sc).1, d.content.extract 0 (d.collectToWriter seg1 sc).2.1)

/-- every drain operation is a `take k` on the buffer, for some `k` -/
theorem applyDrain_take (d : Decoder σ) (op : DrainOp) :
    (d.state = none ∧ applyDrain d op = (d, #[])) ∨
    ∃ st k, d.state = some st ∧ k ≤ st.buf.content.size ∧
      applyDrain d op = ({ d with state := some { st with buf := (st.buf.take k).2 } }, (st.buf.take k).1) := by
  cases hst : d.state with
  | none =>
    left
    refine ⟨rfl, ?_⟩
    cases op <;> simp [applyDrain, Decoder.collect, Decoder.read, Decoder.collectToWriter, Decoder.content, hst]
  | some st =>
    right
    cases op with
    | collect =>
      simp only [applyDrain, Decoder.collect, hst]
      split
      · exact ⟨st, st.buf.content.size, rfl, Nat.le_refl _, rfl⟩
      · cases hc : st.buf.canDrainToWindow with
        | none =>
          refine ⟨st, 0, rfl, Nat.zero_le _, ?_⟩
          simp only [Option.getD, DBuf.take_zero]
          cases d; simp_all [DBuf.take]
        | some n =>
          refine ⟨st, n, rfl, ?_, rfl⟩
          simp only [DBuf.canDrainToWindow] at hc
          split at hc <;> simp at hc; omega
    | read n =>
      simp only [applyDrain, Decoder.read, hst]
      refine ⟨st, _, rfl, ?_, rfl⟩
      split
      · omega
      · simp only [DBuf.canDrainToWindow]; split <;> simp <;> omega
    | toWriter seg1 sc =>
      simp only [applyDrain, Decoder.collectToWriter, hst, Decoder.content]
      generalize hamt : (if d.isFinished = true then st.buf.content.size else st.buf.canDrainToWindow.getD 0) = amount
      have h := DBuf.drainToSink_take st.buf amount seg1 sc
      refine ⟨st, (st.buf.drainToSink amount seg1 sc).2.1, rfl, h.2.2, ?_⟩
      rw [← h.1]; rfl

end Zstd.Model
