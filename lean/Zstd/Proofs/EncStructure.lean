import Zstd.Proofs.EncContracts
/-
C15 helper lemmas: an independent structure walker over the block bytes, the size accounting of the
block loop, with the block encoder an ARBITRARY function.
-/
namespace Zstd.Proofs.Enc
open Zstd Zstd.Model.Enc

/-- what a structure walk sees of one block -/
structure BlockRec where
  last : Bool
  btype : Nat
  /-- the Block_Size field -/
  size : Nat
  /-- bytes the block occupies after its header -/
  stored : Nat
  deriving Repr, DecidableEq

/-- bytes a block occupies after its header: 1 for RLE, Block_Size otherwise -/
def storedOf (h : Spec.BlockHeader) : Nat := if h.btype = 1 then 1 else h.size

/-- walk block headers up to and including the first block flagged last; returns the blocks and what
follows them.  Knows nothing about the content of compressed blocks. -/
def walkBlocks : Nat → List Byte → Option (List BlockRec × List Byte)
  | 0, _ => none
  | fuel + 1, b0 :: b1 :: b2 :: body =>
    let h := Spec.parseBlockHeader b0 b1 b2
    let stored := storedOf h
    if h.btype = 3 ∨ body.length < stored then none
    else
      let r : BlockRec := ⟨h.last, h.btype, h.size, stored⟩
      if h.last then some ([r], body.drop stored)
      else
        match walkBlocks fuel (body.drop stored) with
        | some (rs, rest) => some (r :: rs, rest)
        | none => none
  | _ + 1, _ => none

/-- a walk ends at the only block flagged last -/
def OneLast : List BlockRec → Prop
  | [] => False
  | [r] => r.last = true
  | r :: rs => r.last = false ∧ OneLast rs

theorem walkBlocks_oneLast : ∀ fuel bytes recs rest, walkBlocks fuel bytes = some (recs, rest) → OneLast recs := by
  intro fuel
  induction fuel with
  | zero => intro bytes recs rest h; simp [walkBlocks] at h
  | succ fuel ih =>
    intro bytes recs rest h
    match bytes with
    | [] => simp [walkBlocks] at h
    | [_] => simp [walkBlocks] at h
    | [_, _] => simp [walkBlocks] at h
    | b0 :: b1 :: b2 :: body =>
      simp only [walkBlocks] at h
      split at h
      · cases h
      · split at h
        · rename_i hl
          simp only [Option.some.injEq, Prod.mk.injEq] at h
          obtain ⟨h1, _⟩ := h
          subst h1
          exact hl
        · rename_i hl
          split at h
          · rename_i rs rest' hrec
            simp only [Option.some.injEq, Prod.mk.injEq] at h
            obtain ⟨h1, _⟩ := h
            subst h1
            have := ih _ _ _ hrec
            cases rs with
            | nil => exact this.elim
            | cons r rs' => exact ⟨by simpa using hl, this⟩
          · cases h

/-- what the walker needs of one emitted block: a header of type raw / RLE / compressed followed by
exactly the bytes that type announces, sizes within 128 KiB -/
def EmitShaped {H : Type} (emit : Emit H) (maxBlk : Nat) : Prop :=
  ∀ (last : Bool) (blk : List Byte) (p : Parse) (st st' : EncState H) (bytes : List Byte),
    blk ≠ [] → blk.length ≤ maxBlk → emit last blk p st = .ok (bytes, st') →
    bytes.length ≤ 3 + blk.length ∧
    ∃ ty size body, ty < 3 ∧ size ≤ 131072 ∧ bytes = blockHeader last ty size ++ body ∧
      body.length = (if ty = 1 then 1 else size) ∧ (ty ≠ 2 → size = blk.length)

theorem walk_one (fuel : Nat) (last : Bool) (ty size : Nat) (body rest : List Byte) (hty : ty < 3)
    (hsize : size ≤ 131072) (hbody : body.length = (if ty = 1 then 1 else size)) :
    walkBlocks (fuel + 1) (blockHeader last ty size ++ body ++ rest) =
      if last then some ([⟨last, ty, size, body.length⟩], rest)
      else match walkBlocks fuel rest with
        | some (rs, rest') => some (⟨last, ty, size, body.length⟩ :: rs, rest')
        | none => none := by
  rw [blockHeader_eq last ty size (by omega) (by omega)]
  simp only [List.cons_append, List.nil_append, walkBlocks, parse_headerVal last ty size (by omega) (by omega)]
  have hst : storedOf ⟨last, ty, size⟩ = body.length := by simp only [storedOf]; exact hbody.symm
  rw [hst]
  have h3 : ¬ (ty = 3 ∨ (body ++ rest).length < body.length) := by
    simp; omega
  simp only [h3, ↓reduceIte, List.drop_left]

/-- the block loop seen by the structure walker and by a byte counter -/
theorem compressLoop_structure {H : Type} (emit : Emit H) (script : Nat → MBlock) (maxBlk : Nat)
    (hspace : ∀ i, 0 < (script i).space) (hmax : ∀ i, (script i).space ≤ maxBlk)
    (hshape : EmitShaped emit maxBlk) :
    ∀ fuel idx st hashed data frags r, data.length < fuel →
      compressLoop emit script fuel idx st hashed data frags = .ok r →
      r.hashed = hashed ++ data ∧ idx < r.idx ∧ r.bytes.length ≤ data.length + 3 * (r.idx - idx) ∧
      ∀ (tail : List Byte) (wfuel : Nat), r.bytes.length ≤ wfuel →
        ∃ recs, walkBlocks wfuel (r.bytes ++ tail) = some (recs, tail) ∧ recs.length = r.idx - idx ∧
          ∀ rec ∈ recs, rec.btype < 3 ∧ rec.size ≤ 131072 ∧ rec.stored ≤ 131072 := by
  apply compressLoop_induct emit script hspace
    (fun idx st hashed data r =>
      r.hashed = hashed ++ data ∧ idx < r.idx ∧ r.bytes.length ≤ data.length + 3 * (r.idx - idx) ∧
      ∀ (tail : List Byte) (wfuel : Nat), r.bytes.length ≤ wfuel →
        ∃ recs, walkBlocks wfuel (r.bytes ++ tail) = some (recs, tail) ∧ recs.length = r.idx - idx ∧
          ∀ rec ∈ recs, rec.btype < 3 ∧ rec.size ≤ 131072 ∧ rec.stored ≤ 131072)
  · intro idx st hashed
    refine ⟨by simp, by simp, by simp [empty_block_bytes], ?_⟩
    intro tail wfuel hw
    simp only [empty_block_bytes, List.length_cons, List.length_nil] at hw
    obtain ⟨d, rfl⟩ : ∃ d, wfuel = d + 1 := ⟨wfuel - 1, by omega⟩
    refine ⟨[⟨true, 0, 0, 0⟩], ?_, by simp, by simp⟩
    simp [empty_block_bytes, walkBlocks, Spec.parseBlockHeader, storedOf]
  · intro idx st hashed data bytes st' hne hlt hem
    obtain ⟨hov, ty, size, body, hty, hsize, hbytes, hbody, _⟩ :=
      hshape true data _ st st' bytes hne (by have := hmax idx; omega) hem
    refine ⟨rfl, by simp, by simp; omega, ?_⟩
    intro tail wfuel hw
    simp only at hw
    have hb3 : 3 ≤ bytes.length := by rw [hbytes]; simp [blockHeader_length]
    obtain ⟨d, rfl⟩ : ∃ d, wfuel = d + 1 := ⟨wfuel - 1, by omega⟩
    refine ⟨[⟨true, ty, size, body.length⟩], ?_, by simp, ?_⟩
    · simp only [hbytes]
      rw [walk_one d true ty size body tail hty hsize hbody]
      simp
    · intro rec hrec
      simp only [List.mem_singleton] at hrec
      subst hrec
      refine ⟨hty, hsize, ?_⟩
      simp only [hbody]; split <;> omega
  · intro idx st hashed data bytes st' r hge hem ih
    obtain ⟨hh, hidx, hlen, hwalk⟩ := ih
    have hsp := hspace idx
    have hne : data.take (script idx).space ≠ [] := by
      intro h
      have h0 : (data.take (script idx).space).length = 0 := by rw [h]; rfl
      rw [List.length_take] at h0; omega
    have htl : (data.take (script idx).space).length = (script idx).space := by
      rw [List.length_take]; omega
    obtain ⟨hov, ty, size, body, hty, hsize, hbytes, hbody, _⟩ :=
      hshape false _ _ st st' bytes hne (by rw [htl]; exact hmax idx) hem
    have hb3 : 3 ≤ bytes.length := by rw [hbytes]; simp [blockHeader_length]
    refine ⟨by simp only [hh, List.append_assoc, List.take_append_drop], by simp only; omega, ?_, ?_⟩
    · simp only [List.length_append, List.length_drop] at hlen ⊢
      rw [htl] at hov
      omega
    · intro tail wfuel hw
      simp only [List.length_append] at hw
      obtain ⟨d, rfl⟩ : ∃ d, wfuel = d + 1 := ⟨wfuel - 1, by omega⟩
      obtain ⟨recs, hrecs, hcount, hall⟩ := hwalk tail d (by omega)
      refine ⟨⟨false, ty, size, body.length⟩ :: recs, ?_, by simp only [List.length_cons, hcount]; omega, ?_⟩
      · simp only [hbytes, List.append_assoc]
        rw [← List.append_assoc, walk_one d false ty size body (r.bytes ++ tail) hty hsize hbody]
        simp [hrecs]
      · intro rec hrec
        simp only [List.mem_cons] at hrec
        rcases hrec with h | h
        · subst h
          refine ⟨hty, hsize, ?_⟩
          simp only [hbody]; split <;> omega
        · exact hall rec h

/-- number of `get_next_space` calls (= blocks) when every space has the same size `S` -/
theorem compressLoop_block_count {H : Type} (emit : Emit H) (script : Nat → MBlock) (S : Nat) (hS : 0 < S)
    (hconst : ∀ i, (script i).space = S) :
    ∀ fuel idx st hashed data frags r, data.length < fuel →
      compressLoop emit script fuel idx st hashed data frags = .ok r → r.idx = idx + data.length / S + 1 := by
  apply compressLoop_induct emit script (fun i => by rw [hconst i]; exact hS)
    (fun idx st hashed data r => r.idx = idx + data.length / S + 1)
  · intro idx st hashed; simp
  · intro idx st hashed data bytes st' _ hlt _
    rw [hconst idx] at hlt
    simp [Nat.div_eq_of_lt hlt]
  · intro idx st hashed data bytes st' r hge _ ih
    rw [hconst idx] at hge ih
    simp only [List.length_drop] at ih
    simp only [ih]
    have : data.length / S = (data.length - S) / S + 1 := by
      rw [← Nat.sub_add_cancel hge, Nat.add_div_right _ hS]; simp
    omega

end Zstd.Proofs.Enc

namespace Zstd.Proofs.Enc
open Zstd Zstd.Model.Enc

/-- the three parts of the frame `compress` writes -/
theorem compressFrame_parts {H : Type} (hash : Bool) (enc : BlockEnc H) (c : Compressor H) (w : Nat)
    (script : Nat → MBlock) (data : List Byte) (frags : List Nat) (hw : w ≤ 2 ^ 41)
    (frame : List Byte) (c' : Compressor H)
    (hrun : compressFrame hash enc c w script data frags = .ok (frame, c')) :
    ∃ (e : Nat) (r : LoopOut H), 1 ≤ e ∧ e ≤ 31 ∧ (w ≤ 2 ^ (10 + e) ∧ 131072 ≤ 2 ^ (10 + e)) ∧ declaredWindow w = 2 ^ (10 + e) ∧
      compressLoop (emitBlock c.level enc) script (data.length + 1) 0 { c.st with lastHuff := none } [] data frags = .ok r ∧
      frame = [40, 181, 47, 253, frameDescriptor hash, e * 8] ++ r.bytes ++
        (if hash then leBytes 4 (Spec.Xxh64.checksum32 r.hashed) else []) ∧
      c'.matcherIdx = r.idx := by
  obtain ⟨e, he1, he31, hwd, hwe, hbe⟩ := headerDescriptor_spec w hw
  unfold compressFrame at hrun
  simp only [frameHeader, hwd, frameResetsMatcher_eq, frameResetsHuff_eq, frameReseedsHasher_eq, ↓reduceIte] at hrun
  split at hrun
  · cases hrun
  · rename_i r hloop
    simp only [Except.ok.injEq, Prod.mk.injEq] at hrun
    obtain ⟨hframe, hc'⟩ := hrun
    refine ⟨e, r, he1, he31, ⟨hwe, hbe⟩, declaredWindow_of w e hwd, hloop, ?_, ?_⟩
    · rw [← hframe, magic_bytes]; rfl
    · rw [← hc']

end Zstd.Proofs.Enc
