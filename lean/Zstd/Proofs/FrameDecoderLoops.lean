import Zstd.Proofs.FrameDecoderBlocks
import Zstd.Proofs.FrameDecoderDrain
/-
Helper lemmas about the loops of the frame decoder: `decode_blocks`, `decode_from_to`, `decode_all`,
`StreamingDecoder::read` — invariants, exact consumption, fuel, memory bounds, truncation.
-/
set_option linter.unusedSectionVars false
namespace Zstd.Model
open Zstd

variable {σ : Type} [BlockDec σ] [BlockContract σ]

/-- the invariant of reachable states: the stored checksum is only set once the last block is in -/
def FState.WF (st : FState σ) : Prop := st.finished = false → st.checksum = none

/-- what a run of the block loop does to the state, whatever the outcome -/
structure LoopStep (st st' : FState σ) : Prop where
  header : st'.header = st.header
  usingDict : st'.usingDict = st.usingDict
  appends : ∃ x, DBuf.Appends st.buf st'.buf x
  bytesRead_le : st.bytesRead ≤ st'.bytesRead
  blockCounter_le : st.blockCounter ≤ st'.blockCounter
  finished_mono : st.finished = true → st'.finished = true
  checksum_keep : st'.finished = false → st'.checksum = st.checksum

theorem LoopStep.refl (st : FState σ) : LoopStep st st :=
  ⟨rfl, rfl, ⟨#[], DBuf.Appends.refl _⟩, Nat.le_refl _, Nat.le_refl _, id, fun _ => rfl⟩

theorem LoopStep.trans {a b c : FState σ} (h1 : LoopStep a b) (h2 : LoopStep b c) : LoopStep a c := by
  obtain ⟨x, hx⟩ := h1.appends
  obtain ⟨y, hy⟩ := h2.appends
  refine ⟨h2.header.trans h1.header, h2.usingDict.trans h1.usingDict, ⟨_, hx.trans hy⟩,
    Nat.le_trans h1.bytesRead_le h2.bytesRead_le, Nat.le_trans h1.blockCounter_le h2.blockCounter_le,
    fun h => h2.finished_mono (h1.finished_mono h), ?_⟩
  intro hf
  have hb : b.finished = false := by
    cases hbf : b.finished with
    | false => rfl
    | true => rw [h2.finished_mono hbf] at hf; cases hf
  rw [h2.checksum_keep hf, h1.checksum_keep hb]

theorem LoopStep.wf {st st' : FState σ} (h : LoopStep st st') (hw : st.WF) : st'.WF := by
  intro hf
  have : st.finished = false := by
    cases hs : st.finished with
    | false => rfl
    | true => rw [h.finished_mono hs] at hf; cases hf
  rw [h.checksum_keep hf, hw this]

theorem BlockStep.loopStep {st st' : FState σ} (h : BlockStep st st') : LoopStep st st' := by
  obtain ⟨x, hx, _⟩ := h.appends
  exact ⟨h.header, h.usingDict, ⟨x, hx⟩, h.bytesRead_le, h.blockCounter.1, fun hf => by rw [h.finished, hf],
    fun _ => h.checksum⟩

/-- the strategy test after a non-last block -/
def stratStop (strat : Strategy) (sizeBefore countBefore : Nat) (st1 : FState σ) : Bool :=
  match strat with
  | .all => false
  | .uptoBlocks n => st1.blockCounter - countBefore ≥ n
  | .uptoBytes n => st1.buf.content.size - sizeBefore ≥ n

/-- one unfolding of the loop, in a form convenient for rewriting -/
theorem decodeBlocksLoop_succ (strat : Strategy) (a c fuel : Nat) (st : FState σ) (s : Src) :
    decodeBlocksLoop strat a c (fuel + 1) st s =
      match decodeOneBlock st s with
      | (st1, .err e) => (st1, .err e)
      | (st1, .fault f) => (st1, .fault f)
      | (st1, .ok (bh, s1)) =>
        if bh.last then
          if st1.header.checksumFlag then
            match readExact 4 s1 with
            | none => ({ st1 with finished := true }, .err .checksumRead)
            | some (cb, s2) =>
              ({ st1 with finished := true, bytesRead := st1.bytesRead + 4, checksum := some (leNat cb) }, .ok s2)
          else ({ st1 with finished := true }, .ok s1)
        else if stratStop strat a c st1 then (st1, .ok s1)
        else decodeBlocksLoop strat a c fuel st1 s1 := by
  rw [decodeBlocksLoop]
  split <;> rename_i heq <;> simp only [heq]
  rename_i st1 bh s1
  split
  · rfl
  · cases strat <;> simp [stratStop]

theorem decodeBlocksLoop_step (strat : Strategy) (a c fuel : Nat) (st : FState σ) (s : Src) :
    LoopStep st (decodeBlocksLoop strat a c fuel st s).1 := by
  induction fuel generalizing st s with
  | zero => exact LoopStep.refl st
  | succ fuel ih =>
    rw [decodeBlocksLoop_succ]
    have hb := (decodeOneBlock_step st s).loopStep
    split <;> rename_i heq <;> rw [heq] at hb
    · exact hb
    · exact hb
    · rename_i st1 bh s1
      simp only at hb
      have hfin : ∀ st2 : FState σ, st2.header = st1.header → st2.usingDict = st1.usingDict →
          st2.buf = st1.buf → st1.bytesRead ≤ st2.bytesRead → st2.blockCounter = st1.blockCounter →
          st2.finished = true → LoopStep st st2 := by
        intro st2 h1 h2 h3 h4 h5 h6
        refine hb.trans ⟨h1, h2, ⟨#[], by rw [h3]; exact DBuf.Appends.refl _⟩, h4, by omega, fun _ => h6, ?_⟩
        intro h; rw [h6] at h; cases h
      split
      · split
        · split
          · exact hfin _ rfl rfl rfl (Nat.le_refl _) rfl rfl
          · exact hfin _ rfl rfl rfl (Nat.le_add_right _ _) rfl rfl
        · exact hfin _ rfl rfl rfl (Nat.le_refl _) rfl rfl
      · split
        · exact hb
        · exact hb.trans (ih st1 s1)

/-- `consumed_exact` for the block loop: on `Ok` the returned source is the given one minus exactly
the bytes counted in `bytes_read_counter` -/
theorem decodeBlocksLoop_ok (strat : Strategy) (a c fuel : Nat) (st st' : FState σ) (s rest : Src)
    (h : decodeBlocksLoop strat a c fuel st s = (st', .ok rest)) :
    ∃ n, n ≤ s.length ∧ rest = s.drop n ∧ st'.bytesRead = st.bytesRead + n := by
  induction fuel generalizing st s with
  | zero =>
    simp only [decodeBlocksLoop, Prod.mk.injEq, Out.ok.injEq] at h
    exact ⟨0, Nat.zero_le _, by simp [h.2], by rw [h.1]; rfl⟩
  | succ fuel ih =>
    rw [decodeBlocksLoop_succ] at h
    split at h
    · cases h
    · cases h
    · rename_i st1 bh s1 heq
      obtain ⟨hlen, rfl, -, -, hbr, -⟩ := decodeOneBlock_ok _ _ _ _ _ heq
      split at h
      · split at h
        · split at h
          · cases h
          · rename_i cb s2 hr
            rw [readExact_eq_some, List.length_drop] at hr
            obtain ⟨h4, rfl, rfl⟩ := hr
            cases h
            exact ⟨3 + bh.contentSize + 4, by omega, by rw [List.drop_drop], by simp [hbr]; omega⟩
        · cases h
          exact ⟨3 + bh.contentSize, hlen, rfl, hbr⟩
      · split at h
        · cases h
          exact ⟨3 + bh.contentSize, hlen, rfl, hbr⟩
        · obtain ⟨n, hn, hr, hb⟩ := ih _ _ h
          rw [List.length_drop] at hn
          exact ⟨3 + bh.contentSize + n, by omega, by rw [hr, List.drop_drop], by rw [hb, hbr]; omega⟩

/-- `fuel_suffices` for `decode_blocks`: every iteration consumes at least 3 source bytes, so any fuel
above `|source|` gives the same result: the fuel of `Decoder.decodeBlocks` is never exhausted -/
theorem decodeBlocksLoop_fuel (strat : Strategy) (a c f1 f2 : Nat) (st : FState σ) (s : Src)
    (h1 : s.length < f1) (h2 : s.length < f2) :
    decodeBlocksLoop strat a c f1 st s = decodeBlocksLoop strat a c f2 st s := by
  induction f1 generalizing f2 st s with
  | zero => omega
  | succ f1 ih =>
    obtain ⟨f2, rfl⟩ : ∃ f, f2 = f + 1 := ⟨f2 - 1, by omega⟩
    rw [decodeBlocksLoop_succ, decodeBlocksLoop_succ]
    split
    · rfl
    · rfl
    · rename_i st1 bh s1 heq
      obtain ⟨hlen, rfl, -⟩ := decodeOneBlock_ok _ _ _ _ _ heq
      split
      · rfl
      · split
        · rfl
        · exact ih _ _ _ (by rw [List.length_drop]; omega) (by rw [List.length_drop]; omega)



/-- memory bound of the loop under `UptoBytes n`: it stops as soon as `n` bytes were added, and one
block adds at most `MAX_BLOCK_SIZE` -/
theorem decodeBlocksLoop_bound_bytes (n a c fuel : Nat) (st : FState σ) (s : Src)
    (h : st.buf.content.size ≤ a + n) :
    (decodeBlocksLoop (.uptoBytes n) a c fuel st s).1.buf.content.size ≤ a + n + Gen.maxBlockSize := by
  induction fuel generalizing st s with
  | zero => simp only [decodeBlocksLoop]; omega
  | succ fuel ih =>
    rw [decodeBlocksLoop_succ]
    have hb := decodeOneBlock_step st s
    obtain ⟨x, hx, hxs⟩ := hb.appends
    have hsz := hx.size
    split <;> rename_i heq <;> rw [heq] at hsz
    · simp only at hsz ⊢; omega
    · simp only at hsz ⊢; omega
    · simp only at hsz
      split
      · split
        · split <;> simp only <;> omega
        · simp only; omega
      · split
        · simp only; omega
        · rename_i hstop
          simp only [stratStop, ge_iff_le, decide_eq_true_eq] at hstop
          exact ih _ _ (by omega)

/-- memory bound under `UptoBlocks k`: at most `max k 1` blocks are decoded (the loop tests the
budget only after a block) -/
theorem decodeBlocksLoop_bound_blocks (k a c fuel : Nat) (st : FState σ) (s : Src)
    (hc : c ≤ st.blockCounter) (h : st.blockCounter - c < max k 1) :
    (decodeBlocksLoop (.uptoBlocks k) a c fuel st s).1.buf.content.size
      ≤ st.buf.content.size + (max k 1 - (st.blockCounter - c)) * Gen.maxBlockSize := by
  induction fuel generalizing st s with
  | zero => simp only [decodeBlocksLoop]; omega
  | succ fuel ih =>
    rw [decodeBlocksLoop_succ]
    have hb := decodeOneBlock_step st s
    obtain ⟨x, hx, hxs⟩ := hb.appends
    have hsz := hx.size
    have hone : Gen.maxBlockSize ≤ (max k 1 - (st.blockCounter - c)) * Gen.maxBlockSize :=
      Nat.le_mul_of_pos_left _ (by omega)
    split <;> rename_i heq <;> rw [heq] at hsz
    · simp only at hsz ⊢; omega
    · simp only at hsz ⊢; omega
    · rename_i st1 bh s1
      simp only at hsz
      split
      · split
        · split <;> simp only <;> omega
        · simp only; omega
      · split
        · simp only; omega
        · rename_i hstop
          simp only [stratStop, ge_iff_le, decide_eq_true_eq] at hstop
          have hbc := (decodeOneBlock_ok _ _ _ _ _ heq).2.2.2.2.2
          have := ih st1 s1 (by omega) (by omega)
          have e : max k 1 - (st.blockCounter - c) = (max k 1 - (st1.blockCounter - c)) + 1 := by omega
          rw [e, Nat.add_mul]
          omega



/-- `a` is a prefix of `b` -/
def IsPrefix (a b : Array Nat) : Prop := ∃ y, b = a ++ y

theorem IsPrefix.refl (a : Array Nat) : IsPrefix a a := ⟨#[], by simp⟩
theorem IsPrefix.trans {a b c : Array Nat} (h1 : IsPrefix a b) (h2 : IsPrefix b c) : IsPrefix a c := by
  obtain ⟨x, rfl⟩ := h1; obtain ⟨y, rfl⟩ := h2; exact ⟨x ++ y, by rw [Array.append_assoc]⟩
theorem LoopStep.isPrefix {st st' : FState σ} (h : LoopStep st st') : IsPrefix st.buf.content st'.buf.content := by
  obtain ⟨x, hx⟩ := h.appends; exact ⟨x, hx.content⟩

/-- Truncation (`prefix_errors`) for the block loop.  If the run on `s` completes the frame (last block
and, when flagged, the checksum) leaving `rest`, then on every strictly shorter cut `s.take k` the run
ends in `UnexpectedEof` at the block header, the block body or the checksum; the frame is not
reported finished; and what is buffered at that point is a prefix of what the full run buffers. -/
theorem decodeBlocksLoop_take (strat : Strategy) (a c fuel fuel' : Nat) (st st' : FState σ) (s rest : Src) (k : Nat)
    (h : decodeBlocksLoop strat a c fuel st s = (st', .ok rest)) (hfin : st'.finished = true)
    (hnf : st.finished = false) (hcs : st.checksum = none)
    (hk : k < s.length - rest.length) (hf : k < fuel') :
    ∃ st'' e, decodeBlocksLoop strat a c fuel' st (s.take k) = (st'', .err e) ∧
      (e = .blockHeaderRead ∨ e = .blockBodyRead ∨ e = .checksumRead) ∧
      IsPrefix st''.buf.content st'.buf.content ∧ st''.header = st.header ∧
      (if st''.header.checksumFlag then st''.finished && st''.checksum.isSome else st''.finished) = false ∧
      st.bytesRead ≤ st''.bytesRead ∧ st''.bytesRead ≤ st.bytesRead + k := by
  induction fuel generalizing fuel' st s k with
  | zero =>
    simp only [decodeBlocksLoop, Prod.mk.injEq] at h
    rw [← h.1, hnf] at hfin; cases hfin
  | succ fuel ih =>
    obtain ⟨fuel', rfl⟩ : ∃ f, fuel' = f + 1 := ⟨fuel' - 1, by omega⟩
    have hfull := decodeBlocksLoop_step strat a c (fuel + 1) st s
    rw [h] at hfull
    rw [decodeBlocksLoop_succ] at h
    rw [decodeBlocksLoop_succ]
    split at h
    · cases h
    · cases h
    · rename_i st1 bh s1 heq
      have hb := decodeOneBlock_step st s
      rw [heq] at hb
      simp only at hb
      obtain ⟨hlen, hs1, -, -, hbr, -⟩ := decodeOneBlock_ok _ _ _ _ _ heq
      by_cases hkc : k < 3 + bh.contentSize
      · -- the cut is inside this block
        rw [decodeOneBlock_take_cut _ _ _ _ _ _ heq hkc]
        by_cases hk3 : k < 3
        · rw [if_pos hk3]
          exact ⟨st, _, rfl, Or.inl rfl, hfull.isPrefix, rfl, by simp [hnf], Nat.le_refl _, Nat.le_add_right _ _⟩
        · rw [if_neg hk3]
          exact ⟨_, _, rfl, Or.inr (Or.inl rfl), hfull.isPrefix, rfl, by simp [hnf], Nat.le_add_right _ _, by simp; omega⟩
      · rw [decodeOneBlock_take_fits _ _ _ _ _ _ heq (by omega)]
        simp only
        split at h
        · rename_i hlast
          rw [if_pos hlast]
          split at h
          · rename_i hflag
            rw [if_pos hflag]
            split at h
            · cases h
            · rename_i cb s2 hr
              cases h
              rw [readExact_eq_some] at hr
              obtain ⟨h4, rfl, rfl⟩ := hr
              have : readExact 4 (s1.take (k - (3 + bh.contentSize))) = none := by
                have hl1 : s1.length = s.length - (3 + bh.contentSize) := by rw [hs1, List.length_drop]
                rw [readExact_eq_none, List.length_take]
                simp only [List.length_drop] at hk
                omega
              rw [this]
              refine ⟨_, _, rfl, Or.inr (Or.inr rfl), IsPrefix.refl _, hb.header, ?_, by simp; omega, by simp; omega⟩
              simp only [hb.header] at hflag ⊢
              simp [hflag, hb.checksum, hcs]
          · cases h
            subst hs1
            rw [List.length_drop] at hk
            omega
        · rename_i hlast
          rw [if_neg hlast]
          split at h
          · cases h
            rw [hb.finished, hnf] at hfin; cases hfin
          · rename_i hstop
            rw [if_neg hstop]
            subst hs1
            obtain ⟨st'', e, h1, h2, h3, h4, h5, h6, h7⟩ := ih (fuel' := fuel') st1 _ (k - (3 + bh.contentSize)) h
              (by rw [hb.finished, hnf]) (by rw [hb.checksum, hcs])
              (by rw [List.length_drop]; omega) (by omega)
            refine ⟨st'', e, h1, h2, h3, h4.trans hb.header, h5, by omega, by omega⟩


end Zstd.Model
