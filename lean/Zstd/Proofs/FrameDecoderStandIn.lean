import Zstd.Proofs.FrameDecoderConcat
import Zstd.Proofs.FrameDecoderNoFault
import Zstd.Proofs.DictCopy
/-
Instance A of the block decoder — the Spec stand-in `decompressBlock` (`decodeLiteralsM` /
`decodeSequencesM` through the Spec, `σ = Spec.Entropy`) — satisfies all three contracts.  Every
frame-level theorem proved for an arbitrary block decoder therefore holds for it; the Props files
state them for this instance (`Dec := Decoder Spec.Entropy`) or generically, as noted there.
-/
namespace Zstd.Model
open Zstd

instance instBlockContractStandIn : BlockContract Spec.Entropy where
  appends := decompressBlock_appends
  counter := fun content e b => (Zstd.Proofs.DictCopy.grows_decompressBlock content e b).count
  twin := decompressBlock_twin

instance instNoFaultStandIn : NoFaultContract Spec.Entropy where
  wf := fun _ => True
  inp := fun _ => True
  inp_take := fun _ _ _ => trivial
  inp_drop := fun _ _ _ => trivial
  wf_fresh := trivial
  wf_run := fun _ _ _ _ _ _ => trivial
  noFault := fun content e b f _ _ => decompressBlock_noFault content e b f

instance instRefinesSpecStandIn : RefinesSpec Spec.Entropy where
  coupled := fun s e => s = e
  coupled_fresh := rfl
  refines := by
    intro bytes s e e' b out' _ hc htot hs
    subst hc
    obtain ⟨b', h1, h2⟩ := decompressBlock_refines bytes s e' b out' htot hs
    exact ⟨b', e', h1, h2, rfl⟩
  offsets_le := by
    intro window dict bytes s e e' out out' _ hc hs hbig
    subst hc
    exact blockOffsets_le window dict bytes s e' out out' hs hbig

/-- the stand-in's decoder type -/
abbrev DecA := Decoder Spec.Entropy

/-- every state of the stand-in is well formed in the sense of `NoFaultContract` (it has no
preconditions) -/
theorem entWF_standIn (d : Decoder Spec.Entropy) : d.entWF :=
  ⟨fun _ _ => trivial, fun _ _ => trivial⟩

/-- the Spec's view of a registered dictionary (stand-in: the same data) -/
def Dict.toSpec (d : Dict Spec.Entropy) : Spec.Dict := { id := d.id, entropy := d.entropy, content := d.content }

theorem dictsCoupled_standIn (dicts : List (Dict Spec.Entropy)) : DictsCoupled dicts (dicts.map Dict.toSpec) := by
  induction dicts with
  | nil => exact .nil
  | cons d l ih => exact .cons rfl rfl rfl ih

end Zstd.Model
