import Zstd.Model.Fse
import Zstd.Spec.Fse
import Zstd.Proofs.BitIO
/-
The model's FSE table-description reader (`DTable.readProbabilities`, mirror of
`ruzstd/src/fse/fse_decoder.rs:224-307`) refines the Spec's (`Spec.Fse.readDescription`,
RFC 8878 §4.1.1 on bit lists).

Main results
  * `fse_readProbabilities_refines`   Spec ok ⇒ Model ok, same accuracy log, probabilities, byte count
  * `fse_readProbabilities_complete`  Model ok ⇒ Spec ok with the same result (no extra hypothesis)
  * `decodeVal_mass_le`               the decoded probability mass never exceeds the remaining mass

Differences between the code and the Spec (all of them are differences of FORM; by the two theorems
the two readers accept exactly the same inputs and return the same result):

  1. Symbol-count bound.  The Spec rejects inside the loop (`acc.length > maxSymbol → none`, checked
     whenever another symbol is still needed), bounds the loop by fuel `maxSymbol + 3` and the zero-run
     loop by fuel `maxSymbol + 2`.  The code has no bound inside the loops (`while counter < sum`,
     `loop { .. }`; the model gives them fuel `8·len + 2` / `4·len + 2`, enough because every iteration
     consumes at least one / exactly two bits) and checks `probs.len() > max_symbol + 1` once at the
     very end (`TooManySymbols`).  Since the list only grows, "final length ≤ maxSymbol + 1" implies all
     the Spec's inner checks and fuel bounds; conversely a Spec-accepted input passes the final check
     because `readDescription` repeats it.  A too-long description is therefore rejected by both, but
     the code may read (and allocate) up to `8·len` further symbols / report a different error first
     (e.g. `NotEnoughRemainingBits` instead of `TooManySymbols`).
  2. `mass > remaining → none` (Spec) and `ProbabilityCounterMismatch` (code) are both unreachable:
     the value decoded from `nbits = ⌊log2(remaining+1)⌋+1` bits is at most `remaining + 1`
     (`decodeVal_mass_le`), so the counter never overshoots and the loop exits with `counter = sum`
     exactly (used in `fse_readProbabilities_complete`).
  3. Peek vs. un-read.  The Spec looks at `nbits` bits (`readLE nbits`) and drops `used ∈ {nbits−1, nbits}`;
     the code reads `nbits` bits and calls `return_bits(1)` in the short case.  Both need `nbits` bits to
     be present even if only `nbits − 1` are consumed.  `return_bits` cannot panic (`nbits ≥ 2`).
  4. Accumulator.  Spec: reversed list, `List.replicate z 0 ++ p :: acc`, total zero-run `z = 3 + 3 + … + r`;
     code: `Vec::push` and `resize(len + skip, 0)` per 2-bit flag.
  5. Byte count.  Spec `(usedBits + 7) / 8`; code `if bits_read % 8 == 0 { /8 } else { /8 + 1 }`.
  6. Accuracy log.  `al = 5 + (4 bits) ≤ 20`, so the code's `u8` addition (`fse_decoder.rs:228`) cannot
     overflow and `AccLogIsZero` is unreachable; both compare `al > maxLog` before reading anything else.
     (No hypothesis `maxLog ≤ …` is needed.)
  7. Side effects on failure (outside the scope of the two theorems): the code leaves `accuracy_log` and
     the partially filled `symbol_probabilities` in the table when it returns an error; the Spec has no
     state.
  8. `get_bits(0)`-at-end panic of the forward reader (`bitReader_getBits_zero_at_end_faults`) is not
     reachable here: every request is for 4, 2 or `nbits ≥ 2` bits.
-/
namespace Zstd.Proofs.FseReadDesc
open Zstd Zstd.Spec Zstd.Model.BitIO Zstd.Model.Fse Zstd.Proofs.BitIO

/-! ### the value decoding shared by both sides -/

/-- `(value, bits used)` decoded from the `nbits`-bit little-endian field `v` when `remaining`
probability mass is left -/
def decodeVal (remaining v : Nat) : Nat × Nat :=
  let nbits := Nat.log2 (remaining + 1) + 1
  let lowerMask := 2 ^ (nbits - 1) - 1
  let threshold := 2 ^ nbits - 1 - (remaining + 1)
  let low := v % 2 ^ (nbits - 1)
  if low < threshold then (low, nbits - 1)
  else if v > lowerMask then (v - threshold, nbits)
  else (v, nbits)

/-- probability mass of a decoded value -/
def massOf (val : Nat) : Nat := if ((val : Int) - 1) < 0 then 1 else ((val : Int) - 1).toNat

theorem decodeVal_used (remaining v : Nat) :
    (decodeVal remaining v).2 = Nat.log2 (remaining + 1) + 1 ∨
    (decodeVal remaining v).2 = Nat.log2 (remaining + 1) := by
  unfold decodeVal
  simp only []
  split
  · right; simp
  · split <;> (left; rfl)

theorem log2_pos {r : Nat} (h : r ≠ 0) : 1 ≤ Nat.log2 (r + 1) := by
  have h1 : ¬ Nat.log2 (r + 1) < 1 := by
    rw [Nat.log2_lt (by omega)]; omega
  omega

theorem decodeVal_used_pos {remaining : Nat} (h : remaining ≠ 0) (v : Nat) :
    1 ≤ (decodeVal remaining v).2 ∧ (decodeVal remaining v).2 ≤ Nat.log2 (remaining + 1) + 1 := by
  have := log2_pos h
  rcases decodeVal_used remaining v with h1 | h1 <;> omega

/-- leniency 2: the decoded mass never exceeds the remaining mass -/
theorem decodeVal_mass_le {remaining v : Nat} (h : remaining ≠ 0)
    (hv : v < 2 ^ (Nat.log2 (remaining + 1) + 1)) :
    massOf (decodeVal remaining v).1 ≤ remaining := by
  have hlo : 2 ^ Nat.log2 (remaining + 1) ≤ remaining + 1 := Nat.log2_self_le (by omega)
  have hhi : remaining + 1 < 2 ^ (Nat.log2 (remaining + 1) + 1) := Nat.lt_log2_self
  have hmod : v % 2 ^ Nat.log2 (remaining + 1) < 2 ^ Nat.log2 (remaining + 1) :=
    Nat.mod_lt _ (Nat.two_pow_pos _)
  unfold decodeVal massOf
  simp only [Nat.add_sub_cancel]
  generalize 2 ^ Nat.log2 (remaining + 1) = A at *
  generalize 2 ^ (Nat.log2 (remaining + 1) + 1) = B at *
  generalize v % A = low at *
  split
  · simp only []; split <;> omega
  · split
    · simp only []; split <;> omega
    · simp only []; split <;> omega

/-! ### unfolding one iteration on each side -/

theorem readLE_some {n : Nat} {bits : List Bool} {v : Nat} {rest : List Bool}
    (h : readLE n bits = some (v, rest)) : n ≤ bits.length ∧ rest = bits.drop n ∧ v < 2 ^ n := by
  rw [Zstd.Proofs.BitIO.readLE_def] at h
  split at h
  · cases h
  · rename_i hlen
    cases h
    refine ⟨by omega, rfl, ?_⟩
    have := valLE_lt (bits.take n)
    rwa [List.length_take, Nat.min_eq_left (by omega)] at this

/-- one iteration of the Spec loop -/
theorem spec_readProbs_succ (fuel maxSymbol remaining : Nat) (bits : List Bool) (acc : List Int) :
    Spec.Fse.readProbs (fuel + 1) maxSymbol remaining bits acc =
      if remaining = 0 then some (acc.reverse, bits)
      else if acc.length > maxSymbol then none
      else
        match readLE (Nat.log2 (remaining + 1) + 1) bits with
        | none => none
        | some (v, _) =>
          let d := decodeVal remaining v
          let p : Int := (d.1 : Int) - 1
          if massOf d.1 > remaining then none
          else if p = 0 then
            match Spec.Fse.readZeroRuns (maxSymbol + 2) (bits.drop d.2) with
            | none => none
            | some (z, rest') =>
              Spec.Fse.readProbs fuel maxSymbol (remaining - massOf d.1) rest' (List.replicate z 0 ++ p :: acc)
          else Spec.Fse.readProbs fuel maxSymbol (remaining - massOf d.1) (bits.drop d.2) (p :: acc) := by
  rw [Spec.Fse.readProbs]
  split
  · rfl
  · split
    · rfl
    · simp only [Spec.Fse.log2]
      cases readLE (Nat.log2 (remaining + 1) + 1) bits with
      | none => rfl
      | some q =>
        obtain ⟨v, r⟩ := q
        rfl

/-- one iteration of the model loop, given the outcome of `get_bits` -/
theorem model_readProbLoop_succ (sum fuel : Nat) (src : Array Nat) (idx counter : Nat) (probs : Array Int)
    (hlt : counter < sum) (v : Nat)
    (hget : ({ src := src, idx := idx } : BitReader).getBits (Nat.log2 (sum - counter + 1) + 1)
      = .ok (v, { src := src, idx := idx + (Nat.log2 (sum - counter + 1) + 1) })) :
    readProbLoop sum (fuel + 1) { src := src, idx := idx } counter probs =
      (let d := decodeVal (sum - counter) v
       let prob : Int := (d.1 : Int) - 1
       let br' : BitReader := { src := src, idx := idx + d.2 }
       let probs' := probs.push prob
       if prob ≠ 0 then
         if prob > 0 then readProbLoop sum fuel br' (counter + prob.toNat) probs'
         else readProbLoop sum fuel br' (counter + 1) probs'
       else
         match Model.Fse.readZeroRuns (src.size * 4 + 2) br' probs' with
         | (probs, .error e) => (probs, .error e)
         | (probs, .ok br) => readProbLoop sum fuel br counter probs) := by
  rw [readProbLoop, if_neg (by omega)]
  simp only [hget, liftBit, Nat.one_shiftLeft, Nat.and_two_pow_sub_one_eq_mod, decodeVal,
    Nat.add_sub_cancel]
  by_cases h1 : v % 2 ^ Nat.log2 (sum - counter + 1)
      < 2 ^ (Nat.log2 (sum - counter + 1) + 1) - 1 - (sum - counter + 1)
  · simp only [if_pos h1, BitReader.returnBits]
    rw [if_neg (by omega)]
    simp only [show idx + (Nat.log2 (sum - counter + 1) + 1) - 1 = idx + Nat.log2 (sum - counter + 1) by omega]
    rfl
  · simp only [if_neg h1]
    by_cases h2 : v > 2 ^ Nat.log2 (sum - counter + 1) - 1
    · simp only [if_pos h2]; rfl
    · simp only [if_neg h2]; rfl

/-! ### zero runs -/

theorem getBits_of_readLE {src : Array Nat} (hb : Bytes src.toList) {idx n v : Nat} {rest : List Bool}
    (hidx : idx ≤ 8 * src.size) (hn : n ≤ 64) (hpos : 0 < n)
    (h : readLE n ((bitsLE src.toList).drop idx) = some (v, rest)) :
    ({ src := src, idx := idx } : BitReader).getBits n = .ok (v, { src := src, idx := idx + n }) ∧
      idx + n ≤ 8 * src.size ∧ rest = (bitsLE src.toList).drop (idx + n) := by
  have h1 := bitReader_refines { src := src, idx := idx } n hb hidx hn (Or.inl hpos)
  simp only [h] at h1
  obtain ⟨hlen, hrest, _⟩ := readLE_some h
  simp only [List.length_drop, length_bitsLE, Array.length_toList] at hlen
  refine ⟨h1, by omega, ?_⟩
  rw [hrest, List.drop_drop]

theorem replicate_append_replicate (a b : Nat) (probs : Array Int) :
    probs ++ Array.replicate a (0 : Int) ++ Array.replicate b 0 = probs ++ Array.replicate (a + b) 0 := by
  apply Array.ext'
  simp

/-- Spec ok ⇒ Model ok for the zero-run flags -/
theorem readZeroRuns_refines {src : Array Nat} (hb : Bytes src.toList) :
    ∀ (sfuel idx mfuel : Nat) (probs : Array Int) (z : Nat) (rest' : List Bool),
      idx ≤ 8 * src.size → 8 * src.size - idx ≤ 2 * mfuel →
      Spec.Fse.readZeroRuns sfuel ((bitsLE src.toList).drop idx) = some (z, rest') →
      ∃ idx', idx ≤ idx' ∧ idx' ≤ 8 * src.size ∧ rest' = (bitsLE src.toList).drop idx' ∧
        Model.Fse.readZeroRuns mfuel { src := src, idx := idx } probs
          = (probs ++ Array.replicate z 0, .ok { src := src, idx := idx' }) := by
  intro sfuel
  induction sfuel with
  | zero => intro idx mfuel probs z rest' _ _ h; simp [Spec.Fse.readZeroRuns] at h
  | succ sfuel ih =>
    intro idx mfuel probs z rest' hidx hfuel h
    rw [Spec.Fse.readZeroRuns] at h
    cases hrd : readLE 2 ((bitsLE src.toList).drop idx) with
    | none => rw [hrd] at h; cases h
    | some q =>
      obtain ⟨r, rest⟩ := q
      rw [hrd] at h
      simp only [] at h
      obtain ⟨hget, hle, hrest⟩ := getBits_of_readLE hb hidx (by omega) (by omega) hrd
      obtain ⟨m, rfl⟩ : ∃ m, mfuel = m + 1 := ⟨mfuel - 1, by omega⟩
      rw [Model.Fse.readZeroRuns]
      simp only [hget, liftBit]
      by_cases h3 : r = 3
      · rw [if_pos h3] at h
        rw [if_neg (by omega)]
        cases hrec : Spec.Fse.readZeroRuns sfuel rest with
        | none => rw [hrec] at h; cases h
        | some q2 =>
          obtain ⟨more, rest2⟩ := q2
          rw [hrec] at h
          cases h
          rw [hrest] at hrec
          obtain ⟨idx', h1, h2, h3', h4⟩ := ih (idx + 2) m (probs ++ Array.replicate r 0) more _ hle (by omega) hrec
          refine ⟨idx', by omega, h2, h3', ?_⟩
          rw [h4, h3, replicate_append_replicate]
      · rw [if_neg h3] at h
        cases h
        rw [if_pos h3]
        exact ⟨idx + 2, by omega, hle, hrest, rfl⟩

/-! ### the probability loop -/

/-- Spec ok ⇒ Model ok for the probability loop -/
theorem readProbLoop_refines {src : Array Nat} (hb : Bytes src.toList) (sum maxSymbol : Nat)
    (hsum : sum ≤ 2 ^ 20) :
    ∀ (sfuel idx mfuel counter : Nat) (probs : Array Int) (acc res : List Int) (rest' : List Bool),
      idx ≤ 8 * src.size → 8 * src.size - idx + 1 ≤ mfuel → counter ≤ sum →
      probs.toList = acc.reverse →
      Spec.Fse.readProbs sfuel maxSymbol (sum - counter) ((bitsLE src.toList).drop idx) acc = some (res, rest') →
      ∃ idx', idx' ≤ 8 * src.size ∧ rest' = (bitsLE src.toList).drop idx' ∧
        readProbLoop sum mfuel { src := src, idx := idx } counter probs
          = (res.toArray, .ok ({ src := src, idx := idx' }, sum)) := by
  intro sfuel
  induction sfuel with
  | zero => intro idx mfuel counter probs acc res rest' _ _ _ _ h; simp [Spec.Fse.readProbs] at h
  | succ sfuel ih =>
    intro idx mfuel counter probs acc res rest' hidx hfuel hcs hacc h
    obtain ⟨m, rfl⟩ : ∃ m, mfuel = m + 1 := ⟨mfuel - 1, by omega⟩
    rw [spec_readProbs_succ] at h
    by_cases hrem : sum - counter = 0
    · rw [if_pos hrem] at h
      cases h
      refine ⟨idx, hidx, rfl, ?_⟩
      rw [readProbLoop, if_pos (by omega), show counter = sum by omega, ← hacc]
    · rw [if_neg hrem] at h
      by_cases hlen : acc.length > maxSymbol
      · rw [if_pos hlen] at h; cases h
      · rw [if_neg hlen] at h
        have hnb : Nat.log2 (sum - counter + 1) + 1 ≤ 64 := by
          have : Nat.log2 (sum - counter + 1) < 21 := by
            rw [Nat.log2_lt (by omega)]
            have : (2 : Nat) ^ 21 = 2 ^ 20 * 2 := by decide
            omega
          omega
        cases hrd : readLE (Nat.log2 (sum - counter + 1) + 1) ((bitsLE src.toList).drop idx) with
        | none => rw [hrd] at h; cases h
        | some q =>
          obtain ⟨v, rest⟩ := q
          rw [hrd] at h
          simp only [] at h
          obtain ⟨hget, hle, _⟩ := getBits_of_readLE hb hidx hnb (by omega) hrd
          obtain ⟨hu1, hu2⟩ := decodeVal_used_pos hrem v
          rw [model_readProbLoop_succ sum m src idx counter probs (by omega) v hget]
          simp only []
          generalize hd : decodeVal (sum - counter) v = d at *
          by_cases hmass : massOf d.1 > sum - counter
          · rw [if_pos hmass] at h; cases h
          · rw [if_neg hmass] at h
            rw [List.drop_drop] at h
            have hidx2 : idx + d.2 ≤ 8 * src.size := by omega
            have hpush : (probs.push ((d.1 : Int) - 1)).toList = (((d.1 : Int) - 1) :: acc).reverse := by
              rw [Array.toList_push, hacc, List.reverse_cons]
            by_cases hp0 : (d.1 : Int) - 1 = 0
            · rw [if_pos hp0] at h
              rw [if_neg (by omega)]
              have hm0 : massOf d.1 = 0 := by unfold massOf; rw [hp0]; simp
              cases hz : Spec.Fse.readZeroRuns (maxSymbol + 2) ((bitsLE src.toList).drop (idx + d.2)) with
              | none => rw [hz] at h; cases h
              | some qz =>
                obtain ⟨z, restz⟩ := qz
                rw [hz] at h
                simp only [] at h
                obtain ⟨idxz, hz1, hz2, hz3, hz4⟩ := readZeroRuns_refines hb (maxSymbol + 2) (idx + d.2)
                  (src.size * 4 + 2) (probs.push ((d.1 : Int) - 1)) z restz hidx2 (by omega) hz
                rw [hz4]
                simp only []
                rw [hz3, hm0, Nat.sub_zero] at h
                refine ih idxz m counter _ _ res rest' hz2 (by omega) hcs ?_ h
                rw [Array.toList_append, hpush, List.reverse_append]
                simp
            · rw [if_neg hp0] at h
              rw [if_pos hp0]
              by_cases hpp : (d.1 : Int) - 1 > 0
              · rw [if_pos hpp]
                have hm : massOf d.1 = ((d.1 : Int) - 1).toNat := by unfold massOf; rw [if_neg (by omega)]
                rw [hm, show sum - counter - ((d.1 : Int) - 1).toNat = sum - (counter + ((d.1 : Int) - 1).toNat) by omega] at h
                exact ih (idx + d.2) m _ _ _ res rest' hidx2 (by omega) (by rw [hm] at hmass; omega) hpush h
              · rw [if_neg hpp]
                have hm : massOf d.1 = 1 := by unfold massOf; rw [if_pos (by omega)]
                rw [hm, show sum - counter - 1 = sum - (counter + 1) by omega] at h
                exact ih (idx + d.2) m _ _ _ res rest' hidx2 (by omega) (by omega) hpush h

/-! ### main theorem, forward direction -/

/-- Spec ok ⇒ Model ok with the same accuracy log, probabilities and byte count.
(`maxLog` needs no bound: the accuracy log is at most `15 + 5`.) -/
theorem fse_readProbabilities_refines (src : Array Nat) (hb : Bytes src.toList) (t : DTable)
    (maxLog maxSymbol : Nat) (hms : t.maxSymbol = maxSymbol)
    {al : Nat} {probs : List Int} {used : Nat}
    (hs : Spec.Fse.readDescription src.toList maxLog maxSymbol = some (al, probs, used)) :
    t.readProbabilities src maxLog = ({ t with probs := probs.toArray, accuracyLog := al }, .ok used) := by
  unfold Spec.Fse.readDescription at hs
  simp only [] at hs
  cases hrd : readLE 4 (bitsLE src.toList) with
  | none => rw [hrd] at hs; cases hs
  | some q =>
    obtain ⟨a, rest⟩ := q
    rw [hrd] at hs
    simp only [] at hs
    have hrd' : readLE 4 ((bitsLE src.toList).drop 0) = some (a, rest) := by rw [List.drop_zero]; exact hrd
    obtain ⟨hget, hle, hrest⟩ := getBits_of_readLE hb (by omega) (by omega) (by omega) hrd'
    have ha : a < 2 ^ 4 := (readLE_some hrd).2.2
    by_cases hal : a + 5 > maxLog
    · rw [if_pos hal] at hs; cases hs
    · rw [if_neg hal] at hs
      have hsum : 2 ^ (a + 5) ≤ 2 ^ 20 := Nat.pow_le_pow_right (by omega) (by omega)
      cases hp : Spec.Fse.readProbs (maxSymbol + 3) maxSymbol (2 ^ (a + 5)) rest [] with
      | none => rw [hp] at hs; cases hs
      | some qp =>
        obtain ⟨ps, rest'⟩ := qp
        rw [hp] at hs
        simp only [] at hs
        by_cases hlen : ps.length > maxSymbol + 1
        · rw [if_pos hlen] at hs; cases hs
        · rw [if_neg hlen] at hs
          cases hs
          rw [hrest] at hp
          obtain ⟨idx', hi1, hi2, hloop⟩ := readProbLoop_refines hb (2 ^ (a + 5)) maxSymbol hsum (maxSymbol + 3)
            (0 + 4) (src.size * 8 + 2) 0 #[] [] _ _ hle (by omega) (Nat.zero_le _) rfl
            (by rw [Nat.sub_zero]; exact hp)
          unfold DTable.readProbabilities
          simp only [BitReader.new, hget, liftBit, Gen.accLogOffset, Nat.one_shiftLeft]
          rw [if_neg (by omega), if_neg (by omega), if_neg (by omega), Nat.add_comm 5 a, hloop]
          simp only []
          rw [if_neg (by simp), if_neg (by simp [hms]; omega)]
          simp only [BitReader.bitsRead, hi2, List.length_drop, length_bitsLE, Array.length_toList]
          have hused : (if idx' % 8 = 0 then idx' / 8 else idx' / 8 + 1)
              = (8 * src.size - (8 * src.size - idx') + 7) / 8 := by split <;> omega
          congr 2

/-! ### converse: Model ok ⇒ Spec ok -/

/-- the two possible outcomes of a model `get_bits(n)` (`0 < n ≤ 64`) in terms of the Spec -/
theorem getBits_cases {src : Array Nat} (hb : Bytes src.toList) {idx n : Nat}
    (hidx : idx ≤ 8 * src.size) (hn : n ≤ 64) (hpos : 0 < n) :
    (∃ e, liftBit (α := Nat × BitReader) (({ src := src, idx := idx } : BitReader).getBits n) = .error e) ∨
    (∃ v, readLE n ((bitsLE src.toList).drop idx) = some (v, (bitsLE src.toList).drop (idx + n)) ∧
      ({ src := src, idx := idx } : BitReader).getBits n = .ok (v, { src := src, idx := idx + n }) ∧
      idx + n ≤ 8 * src.size ∧ v < 2 ^ n) := by
  have h1 := bitReader_refines { src := src, idx := idx } n hb hidx hn (Or.inl hpos)
  cases hrd : readLE n ((bitsLE src.toList).drop idx) with
  | none =>
    left
    simp only [hrd] at h1
    exact ⟨_, by rw [h1]; rfl⟩
  | some q =>
    obtain ⟨v, rest⟩ := q
    right
    obtain ⟨hget, hle, hrest⟩ := getBits_of_readLE hb hidx hn hpos hrd
    exact ⟨v, by rw [← hrest], hget, hle, (readLE_some hrd).2.2⟩

theorem readZeroRuns_complete {src : Array Nat} (hb : Bytes src.toList) :
    ∀ (mfuel idx : Nat) (probs probs' : Array Int) (br' : BitReader), idx ≤ 8 * src.size →
      Model.Fse.readZeroRuns mfuel { src := src, idx := idx } probs = (probs', .ok br') →
      ∃ z idx', br' = { src := src, idx := idx' } ∧ idx ≤ idx' ∧ idx' ≤ 8 * src.size ∧
        probs' = probs ++ Array.replicate z 0 ∧
        ∀ sfuel, z + 3 ≤ 3 * sfuel →
          Spec.Fse.readZeroRuns sfuel ((bitsLE src.toList).drop idx) = some (z, (bitsLE src.toList).drop idx') := by
  intro mfuel
  induction mfuel with
  | zero => intro idx probs probs' br' _ h; simp [Model.Fse.readZeroRuns] at h
  | succ m ih =>
    intro idx probs probs' br' hidx h
    rw [Model.Fse.readZeroRuns] at h
    rcases getBits_cases hb hidx (by omega : 2 ≤ 64) (by omega) with ⟨e, he⟩ | ⟨r, hrd, hget, hle, hr⟩
    · rw [he] at h; simp at h
    · simp only [hget, liftBit] at h
      by_cases h3 : r = 3
      · rw [if_neg (by omega)] at h
        obtain ⟨z, idx', hbr, h1, h2, hp, hspec⟩ := ih (idx + 2) _ probs' br' hle h
        refine ⟨3 + z, idx', hbr, by omega, h2, ?_, ?_⟩
        · rw [hp, h3, replicate_append_replicate]
        · intro sfuel hs
          obtain ⟨s, rfl⟩ : ∃ s, sfuel = s + 1 := ⟨sfuel - 1, by omega⟩
          rw [Spec.Fse.readZeroRuns, hrd]
          simp only []
          rw [if_pos h3, hspec s (by omega)]
      · rw [if_pos h3] at h
        simp only [Prod.mk.injEq, Except.ok.injEq] at h
        obtain ⟨hp, hbr⟩ := h
        refine ⟨r, idx + 2, hbr.symm, by omega, hle, hp.symm, ?_⟩
        intro sfuel hs
        obtain ⟨s, rfl⟩ : ∃ s, sfuel = s + 1 := ⟨sfuel - 1, by omega⟩
        rw [Spec.Fse.readZeroRuns, hrd]
        simp only []
        rw [if_neg h3]

theorem readProbLoop_complete {src : Array Nat} (hb : Bytes src.toList) (sum maxSymbol : Nat)
    (hsum : sum ≤ 2 ^ 20) :
    ∀ (mfuel idx counter : Nat) (probs : Array Int) (acc : List Int) (res : Array Int) (br' : BitReader) (c' : Nat),
      idx ≤ 8 * src.size → counter ≤ sum → probs.toList = acc.reverse →
      readProbLoop sum mfuel { src := src, idx := idx } counter probs = (res, .ok (br', c')) →
      res.size ≤ maxSymbol + 1 →
      c' = sum ∧ probs.size ≤ res.size ∧ ∃ idx', br' = { src := src, idx := idx' } ∧ idx' ≤ 8 * src.size ∧
        ∀ sfuel, res.size + 1 ≤ sfuel + probs.size →
          Spec.Fse.readProbs sfuel maxSymbol (sum - counter) ((bitsLE src.toList).drop idx) acc
            = some (res.toList, (bitsLE src.toList).drop idx') := by
  intro mfuel
  induction mfuel with
  | zero => intro idx counter probs acc res br' c' _ _ _ h; simp [readProbLoop] at h
  | succ m ih =>
    intro idx counter probs acc res br' c' hidx hcs hacc h hres
    have hacclen : acc.length = probs.size := by
      have := congrArg List.length hacc; simp at this; omega
    by_cases hlt : counter < sum
    · have hrem : sum - counter ≠ 0 := by omega
      have hnb : Nat.log2 (sum - counter + 1) + 1 ≤ 64 := by
        have : Nat.log2 (sum - counter + 1) < 21 := by
          rw [Nat.log2_lt (by omega)]
          have : (2 : Nat) ^ 21 = 2 ^ 20 * 2 := by decide
          omega
        omega
      rcases getBits_cases hb hidx hnb (by omega) with ⟨e, he⟩ | ⟨v, hrd, hget, hle, hv⟩
      · rw [readProbLoop, if_neg (by omega)] at h
        simp only [he] at h
        simp at h
      · rw [model_readProbLoop_succ sum m src idx counter probs hlt v hget] at h
        simp only [] at h
        obtain ⟨hu1, hu2⟩ := decodeVal_used_pos hrem v
        have hmass := decodeVal_mass_le hrem hv
        generalize hd : decodeVal (sum - counter) v = d at *
        have hidx2 : idx + d.2 ≤ 8 * src.size := by omega
        have hpush : (probs.push ((d.1 : Int) - 1)).toList = (((d.1 : Int) - 1) :: acc).reverse := by
          rw [Array.toList_push, hacc, List.reverse_cons]
        -- the Spec side of this iteration, for any fuel `s + 1`
        have hspec : ∀ s, probs.size + 1 ≤ res.size →
            Spec.Fse.readProbs (s + 1) maxSymbol (sum - counter) ((bitsLE src.toList).drop idx) acc =
              if (d.1 : Int) - 1 = 0 then
                match Spec.Fse.readZeroRuns (maxSymbol + 2) ((bitsLE src.toList).drop (idx + d.2)) with
                | none => none
                | some (z, rest') =>
                  Spec.Fse.readProbs s maxSymbol (sum - counter - massOf d.1) rest'
                    (List.replicate z 0 ++ ((d.1 : Int) - 1) :: acc)
              else Spec.Fse.readProbs s maxSymbol (sum - counter - massOf d.1)
                ((bitsLE src.toList).drop (idx + d.2)) (((d.1 : Int) - 1) :: acc) := by
          intro s hsz
          rw [spec_readProbs_succ, if_neg hrem, if_neg (by omega), hrd]
          simp only [hd]
          rw [if_neg (by omega), List.drop_drop]
        by_cases hp0 : (d.1 : Int) - 1 = 0
        · rw [if_neg (by omega)] at h
          have hm0 : massOf d.1 = 0 := by unfold massOf; rw [hp0]; simp
          cases hzr : Model.Fse.readZeroRuns (src.size * 4 + 2) { src := src, idx := idx + d.2 }
              (probs.push ((d.1 : Int) - 1)) with
          | mk p2 r2 =>
            rw [hzr] at h
            cases r2 with
            | error e => simp at h
            | ok br2 =>
              simp only [] at h
              obtain ⟨z, idxz, hbr2, hz1, hz2, hp2, hzspec⟩ := readZeroRuns_complete hb _ _ _ _ _ hidx2 hzr
              subst hbr2
              have hacc2 : p2.toList = (List.replicate z 0 ++ ((d.1 : Int) - 1) :: acc).reverse := by
                rw [hp2, Array.toList_append, hpush, List.reverse_append]; simp
              obtain ⟨hc, hsz, idx', hbr, hi, hs⟩ := ih idxz counter p2 _ res br' c' hz2 hcs hacc2 h hres
              have hp2size : p2.size = probs.size + 1 + z := by rw [hp2]; simp
              refine ⟨hc, by omega, idx', hbr, hi, ?_⟩
              intro sfuel hsf
              obtain ⟨s, rfl⟩ : ∃ s, sfuel = s + 1 := ⟨sfuel - 1, by omega⟩
              rw [hspec s (by omega), if_pos hp0, hzspec (maxSymbol + 2) (by omega)]
              simp only []
              rw [hm0, Nat.sub_zero]
              exact hs s (by omega)
        · rw [if_pos hp0] at h
          by_cases hpp : (d.1 : Int) - 1 > 0
          · rw [if_pos hpp] at h
            have hm : massOf d.1 = ((d.1 : Int) - 1).toNat := by unfold massOf; rw [if_neg (by omega)]
            obtain ⟨hc, hsz, idx', hbr, hi, hs⟩ := ih (idx + d.2) _ _ _ res br' c' hidx2
              (by rw [hm] at hmass; omega) hpush h hres
            rw [Array.size_push] at hsz
            refine ⟨hc, by omega, idx', hbr, hi, ?_⟩
            intro sfuel hsf
            obtain ⟨s, rfl⟩ : ∃ s, sfuel = s + 1 := ⟨sfuel - 1, by omega⟩
            rw [hspec s (by omega), if_neg hp0, hm,
              show sum - counter - ((d.1 : Int) - 1).toNat = sum - (counter + ((d.1 : Int) - 1).toNat) by omega]
            exact hs s (by rw [Array.size_push]; omega)
          · rw [if_neg hpp] at h
            have hm : massOf d.1 = 1 := by unfold massOf; rw [if_pos (by omega)]
            obtain ⟨hc, hsz, idx', hbr, hi, hs⟩ := ih (idx + d.2) _ _ _ res br' c' hidx2
              (by omega) hpush h hres
            rw [Array.size_push] at hsz
            refine ⟨hc, by omega, idx', hbr, hi, ?_⟩
            intro sfuel hsf
            obtain ⟨s, rfl⟩ : ∃ s, sfuel = s + 1 := ⟨sfuel - 1, by omega⟩
            rw [hspec s (by omega), if_neg hp0, hm, show sum - counter - 1 = sum - (counter + 1) by omega]
            exact hs s (by rw [Array.size_push]; omega)
    · rw [readProbLoop, if_pos hlt] at h
      simp only [Prod.mk.injEq, Except.ok.injEq] at h
      obtain ⟨hp, hbr, hc⟩ := h
      subst hp
      refine ⟨by omega, Nat.le_refl _, idx, hbr.symm, hidx, ?_⟩
      intro sfuel hsf
      obtain ⟨s, rfl⟩ : ∃ s, sfuel = s + 1 := ⟨sfuel - 1, by omega⟩
      rw [spec_readProbs_succ, if_pos (by omega), hacc]

/-- Model ok ⇒ Spec ok with the same result: the code accepts nothing that the Spec rejects.
(Together with `fse_readProbabilities_refines`: the two readers agree on every successful parse;
`ProbabilityCounterMismatch` and the Spec's `mass > remaining` are never hit.) -/
theorem fse_readProbabilities_complete (src : Array Nat) (hb : Bytes src.toList) (t : DTable)
    (maxLog : Nat) {t' : DTable} {used : Nat}
    (hm : t.readProbabilities src maxLog = (t', .ok used)) :
    Spec.Fse.readDescription src.toList maxLog t.maxSymbol
      = some (t'.accuracyLog, t'.probs.toList, used) := by
  unfold DTable.readProbabilities at hm
  simp only [BitReader.new] at hm
  by_cases hsz : 4 ≤ 8 * src.size
  · rcases getBits_cases hb (by omega : 0 ≤ 8 * src.size) (by omega : 4 ≤ 64) (by omega) with
      ⟨e, he⟩ | ⟨a, hrd, hget, hle, ha⟩
    · rw [he] at hm; simp at hm
    · simp only [hget, liftBit, Gen.accLogOffset, Nat.one_shiftLeft] at hm
      rw [if_neg (by omega)] at hm
      by_cases hal : 5 + a > maxLog
      · rw [if_pos hal] at hm; simp at hm
      · rw [if_neg hal, if_neg (by omega)] at hm
        have hsum : 2 ^ (5 + a) ≤ 2 ^ 20 := Nat.pow_le_pow_right (by omega) (by omega)
        cases hloop : readProbLoop (2 ^ (5 + a)) (src.size * 8 + 2) { src := src, idx := 0 + 4 } 0 #[] with
        | mk ps r =>
          rw [hloop] at hm
          cases r with
          | error e => simp at hm
          | ok q =>
            obtain ⟨br, c⟩ := q
            simp only [] at hm
            by_cases hc : c ≠ 2 ^ (5 + a)
            · rw [if_pos hc] at hm; simp at hm
            · rw [if_neg hc] at hm
              by_cases hlen : ps.size > t.maxSymbol + 1
              · rw [if_pos hlen] at hm; simp at hm
              · rw [if_neg hlen] at hm
                simp only [Prod.mk.injEq, Except.ok.injEq] at hm
                obtain ⟨ht', hused⟩ := hm
                obtain ⟨_, _, idx', hbr, hi, hs⟩ := readProbLoop_complete hb (2 ^ (5 + a)) t.maxSymbol hsum _ _ _ _ []
                  ps br c hle (Nat.zero_le _) rfl hloop (by omega)
                subst hbr
                have hspec := hs (t.maxSymbol + 3) (by simp; omega)
                rw [Nat.sub_zero] at hspec
                unfold Spec.Fse.readDescription
                simp only []
                rw [List.drop_zero] at hrd
                rw [hrd]
                simp only []
                rw [Nat.add_comm a 5, if_neg hal, hspec]
                simp only []
                rw [if_neg (by simp; omega), ← ht', ← hused]
                simp only [BitReader.bitsRead, List.length_drop, length_bitsLE, Array.length_toList]
                have hu : (if idx' % 8 = 0 then idx' / 8 else idx' / 8 + 1)
                    = (8 * src.size - (8 * src.size - idx') + 7) / 8 := by split <;> omega
                congr 3
                exact hu.symm
  · -- fewer than 4 bits: `get_bits(4)` fails
    have h1 := bitReader_getBits_notEnough { src := src, idx := 0 } 4 (by omega) (by simp) (by simp; omega)
    rw [h1] at hm
    simp [liftBit] at hm

/-- both directions in one statement: successful parses coincide -/
theorem fse_readProbabilities_ok_iff (src : Array Nat) (hb : Bytes src.toList) (t : DTable)
    (maxLog al : Nat) (probs : List Int) (used : Nat) :
    t.readProbabilities src maxLog = ({ t with probs := probs.toArray, accuracyLog := al }, .ok used) ↔
      Spec.Fse.readDescription src.toList maxLog t.maxSymbol = some (al, probs, used) := by
  constructor
  · intro h
    have := fse_readProbabilities_complete src hb t maxLog h
    simpa using this
  · intro h
    exact fse_readProbabilities_refines src hb t maxLog t.maxSymbol rfl h

/-- the model never reports `ProbabilityCounterMismatch` and never hits its fuel bounds or a panic
site when the Spec accepts; conversely any `.ok` of the model is a Spec parse.  Hence the inputs on
which the two differ are exactly those where BOTH fail, and there only the kind of error differs. -/
theorem fse_readProbabilities_ok_eq (src : Array Nat) (hb : Bytes src.toList) (t : DTable)
    (maxLog : Nat) {t' : DTable} {used : Nat}
    (hm : t.readProbabilities src maxLog = (t', .ok used)) :
    t' = { t with probs := t'.probs, accuracyLog := t'.accuracyLog } := by
  have h1 := fse_readProbabilities_complete src hb t maxLog hm
  have h2 := fse_readProbabilities_refines src hb t maxLog t.maxSymbol rfl h1
  rw [hm] at h2
  simp only [Prod.mk.injEq] at h2
  rw [h2.1]

end Zstd.Proofs.FseReadDesc
