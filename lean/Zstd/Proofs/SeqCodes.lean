import Zstd.Model.SeqCodes
import Zstd.Spec.Tables
/-
Helper lemmas for C14 (sequence codes).  The encoder's range-arm table (rows extracted from the
source) is checked against the decoder's lookup by ONE decidable predicate over the rows
(`rowsOk`, discharged by `decide` in the Props file); the lemmas below lift that finite check to
every value of the range by induction over the row list — no sampling, no per-value enumeration.
-/
namespace Zstd.Proofs.SeqCodes
open Zstd Zstd.Model

abbrev Row := Nat × Nat × Nat × Nat × Nat

/-- Consistency of encoder rows `(lo, hi, code, base, bits)` with a decoder `dec`:
rows are contiguous from `start`, codes count up from `c0`, `base = lo`, the row spans exactly
`2^bits` values, and the decoder maps the row's code to `(lo, bits)`. -/
def rowsOk (dec : Nat → Except Fault (Nat × Nat)) : List Row → Nat → Nat → Bool
  | [], _, _ => true
  | (lo, hi, code, base, bits) :: rest, start, c0 =>
    lo == start && base == lo && hi + 1 == lo + 2 ^ bits && code == c0 &&
      dec code == .ok (lo, bits) && rowsOk dec rest (hi + 1) (c0 + 1)

/-- one past the last value covered by the rows -/
def rowsEnd : List Row → Nat → Nat
  | [], start => start
  | (_, hi, _, _, _) :: rest, _ => rowsEnd rest (hi + 1)

theorem rowsEnd_ge (dec) : ∀ (rows : List Row) (start c0 : Nat), rowsOk dec rows start c0 = true → start ≤ rowsEnd rows start := by
  intro rows
  induction rows with
  | nil => intro start c0 _; exact Nat.le_refl _
  | cons r rest ih =>
    intro start c0 h
    obtain ⟨lo, hi, code, base, bits⟩ := r
    simp only [rowsOk, Bool.and_eq_true, beq_iff_eq] at h
    obtain ⟨⟨⟨⟨⟨h1, _⟩, h3⟩, _⟩, _⟩, h6⟩ := h
    have := ih (hi + 1) (c0 + 1) h6
    simp only [rowsEnd]
    have : 0 < 2 ^ bits := Nat.two_pow_pos bits
    omega

/-- value → code: every value covered by the rows is encoded by some row, the decoder inverts it,
and the extra value fits the row's bit count. -/
theorem enc_of_rowsOk (dec) : ∀ (rows : List Row) (start c0 v : Nat), rowsOk dec rows start c0 = true →
    start ≤ v → v < rowsEnd rows start →
    ∃ code base bits, encRow rows v = some (.ok (code, v - base, bits)) ∧ dec code = .ok (base, bits) ∧
      base ≤ v ∧ v - base < 2 ^ bits ∧ c0 ≤ code ∧ code < c0 + rows.length := by
  intro rows
  induction rows with
  | nil => intro start c0 v _ h1 h2; simp only [rowsEnd] at h2; omega
  | cons r rest ih =>
    intro start c0 v h h1 h2
    obtain ⟨lo, hi, code, base, bits⟩ := r
    simp only [rowsOk, Bool.and_eq_true, beq_iff_eq] at h
    obtain ⟨⟨⟨⟨⟨e1, e2⟩, e3⟩, e4⟩, e5⟩, e6⟩ := h
    subst e1 e2 e4
    by_cases hv : v ≤ hi
    · refine ⟨code, base, bits, ?_, e5, h1, by omega, Nat.le_refl _, by simp⟩
      simp only [encRow, h1, hv, and_self, if_true]
    · have hv' : hi + 1 ≤ v := by omega
      simp only [rowsEnd] at h2
      obtain ⟨c, b, n, g1, g2, g3, g4, g5, g6⟩ := ih (hi + 1) (code + 1) v e6 hv' h2
      refine ⟨c, b, n, ?_, g2, g3, g4, by omega, by simp only [List.length_cons]; omega⟩
      simp only [encRow, hv, and_false, if_false]
      exact g1

/-- code → value: for every code of the rows, every in-range extra value is encoded back to
exactly (code, extra, bits). -/
theorem dec_of_rowsOk (dec) : ∀ (rows : List Row) (start c0 c : Nat), rowsOk dec rows start c0 = true →
    c0 ≤ c → c < c0 + rows.length →
    ∃ base bits, dec c = .ok (base, bits) ∧ start ≤ base ∧ base + 2 ^ bits ≤ rowsEnd rows start ∧
      ∀ e, e < 2 ^ bits → encRow rows (base + e) = some (.ok (c, e, bits)) := by
  intro rows
  induction rows with
  | nil => intro start c0 c _ h1 h2; simp only [List.length_nil] at h2; omega
  | cons r rest ih =>
    intro start c0 c h h1 h2
    obtain ⟨lo, hi, code, base, bits⟩ := r
    have hfull := h
    simp only [rowsOk, Bool.and_eq_true, beq_iff_eq] at h
    obtain ⟨⟨⟨⟨⟨e1, e2⟩, e3⟩, e4⟩, e5⟩, e6⟩ := h
    subst e1 e2 e4
    by_cases hc : c = code
    · subst hc
      refine ⟨base, bits, e5, Nat.le_refl _, ?_, ?_⟩
      · have := rowsEnd_ge dec rest (hi + 1) (c + 1) e6
        simp only [rowsEnd]; omega
      · intro e he
        have a1 : base ≤ base + e := by omega
        have a2 : base + e ≤ hi := by omega
        simp only [encRow, a1, a2, and_self, if_true]
        have : base + e - base = e := by omega
        rw [this]
    · have hc' : code + 1 ≤ c := by omega
      simp only [List.length_cons] at h2
      obtain ⟨b, n, g1, g2, g3, g4⟩ := ih (hi + 1) (code + 1) c e6 hc' (by omega)
      have hp : 0 < 2 ^ bits := Nat.two_pow_pos bits
      refine ⟨b, n, g1, by omega, by simp only [rowsEnd]; exact g3, ?_⟩
      intro e he
      have : ¬ (b + e ≤ hi) := by omega
      simp only [encRow, this, and_false, if_false]
      exact g4 e he

end Zstd.Proofs.SeqCodes
