import Zstd.Proofs.EncFrame
/-
The frame written by `FrameCompressor::compress`, decoded by `Spec.decodeFrame`, for any per-block
emitter that satisfies `EmitDecodes`.
-/
namespace Zstd.Proofs.Enc
open Zstd Zstd.Model.Enc

theorem frameResetsMatcher_eq : Gen.frameResetsMatcher = true := rfl
theorem frameResetsHuff_eq : Gen.frameResetsHuff = true := rfl
theorem frameReseedsHasher_eq : Gen.frameReseedsHasher = true := rfl

theorem checksum32_lt (d : List Nat) : Spec.Xxh64.checksum32 d < 2 ^ 32 := by
  unfold Spec.Xxh64.checksum32; exact Nat.mod_lt _ (by decide)

/-- the Spec's view of the header `compress` writes -/
def specHeader (hash : Bool) (w : Nat) : Spec.FrameHeader :=
  { desc := ⟨0, false, hash, 0⟩, window := declaredWindow w, dictId := none, contentSize := none, hdrLen := 6 }

/-- the result the strict frame decoder must give for `frame` as an encoding of `data` -/
def specResult (hash : Bool) (w : Nat) (data frame : List Byte) : Spec.FrameResult :=
  ⟨data, frame.length, specHeader hash w, if hash then some (Spec.Xxh64.checksum32 data) else none⟩

theorem compressFrame_decodes {H : Type} (hash : Bool) (enc : BlockEnc H) (c : Compressor H) (w : Nat)
    (script : Nat → MBlock) (data : List Byte) (frags : List Nat)
    (Inv : EncState H → Spec.Entropy → Prop) (Pre : List Byte → List Byte → Parse → Prop)
    (hw : w ≤ 2 ^ 41) (hspace : ∀ i, 0 < (script i).space)
    (hemit : EmitDecodes (declaredWindow w) Inv Pre (emitBlock c.level enc))
    (hinv0 : ∀ st : EncState H, Inv { st with lastHuff := none } {})
    (hpre : ∀ i, blockAt script data i ≠ [] →
      Pre (data.take (blockStart script i)) (blockAt script data i) (script i).parse)
    (frame : List Byte) (c' : Compressor H)
    (hrun : compressFrame hash enc c w script data frags = .ok (frame, c')) :
    Spec.decodeFrame frame = some (specResult hash w data frame) := by
  obtain ⟨e, he1, he31, hwd, _, _⟩ := headerDescriptor_spec w hw
  have hdw : declaredWindow w = 2 ^ (10 + e) := declaredWindow_of w e hwd
  unfold compressFrame at hrun
  simp only [frameHeader, hwd, frameResetsMatcher_eq, frameResetsHuff_eq, frameReseedsHasher_eq, ↓reduceIte] at hrun
  split at hrun
  · cases hrun
  · rename_i r hloop
    simp only [Except.ok.injEq, Prod.mk.injEq] at hrun
    obtain ⟨hframe, _⟩ := hrun
    obtain ⟨hhashed, hdec⟩ := compressLoop_decodes (declaredWindow w) Inv Pre (emitBlock c.level enc) script hspace
      hemit data hpre (data.length + 1) 0 _ [] data frags r (by omega) hloop (by simp [blockStart]) (by simp [blockStart])
    simp only [List.nil_append] at hhashed
    have hparse := parseFrameHeader_ours hash e he1 he31
      (r.bytes ++ (if hash then leBytes 4 (Spec.Xxh64.checksum32 r.hashed) else []))
    rw [List.append_assoc] at hframe
    rw [hframe] at hparse
    have hdrop : frame.drop 6 = r.bytes ++ (if hash then leBytes 4 (Spec.Xxh64.checksum32 r.hashed) else []) := by
      rw [← hframe, magic_bytes]; rfl
    have hblocks := hdec {} (hinv0 c.st) (if hash then leBytes 4 (Spec.Xxh64.checksum32 r.hashed) else [])
      (frame.length + 1) 6 (by rw [← hframe]; simp; omega)
    simp only [blockStart, List.take_zero] at hblocks
    rw [← hdrop, hdw] at hblocks
    have hlenf : frame.length = 6 + r.bytes.length + (if hash then 4 else 0) := by
      rw [← hframe, magic_bytes]; cases hash <;> simp <;> omega
    unfold Spec.decodeFrame
    simp only [hparse, hblocks]
    cases hash
    · simp [specResult, specHeader, hdw, hlenf]
    · have hcs : (List.drop (6 + r.bytes.length) frame).take 4 = leBytes 4 (Spec.Xxh64.checksum32 data) := by
        rw [← hframe, magic_bytes, hhashed]
        simp only [↓reduceIte, List.cons_append, List.nil_append]
        have : 6 + r.bytes.length = (40 :: 181 :: 47 :: 253 :: frameDescriptor true :: (e * 8) :: r.bytes).length := by
          simp; omega
        rw [show (40 :: 181 :: 47 :: 253 :: frameDescriptor true :: (e * 8) :: (r.bytes ++ leBytes 4 (Spec.Xxh64.checksum32 data)))
            = (40 :: 181 :: 47 :: 253 :: frameDescriptor true :: (e * 8) :: r.bytes) ++ leBytes 4 (Spec.Xxh64.checksum32 data) from rfl]
        rw [this, List.drop_left]
        exact List.take_of_length_le (by simp)
      have hle : leNat (leBytes 4 (Spec.Xxh64.checksum32 data)) = Spec.Xxh64.checksum32 data := by
        rw [leNat_leBytes]; exact Nat.mod_eq_of_lt (checksum32_lt data)
      simp [hcs, hle, specResult, specHeader, hdw, hlenf]

end Zstd.Proofs.Enc

namespace Zstd.Proofs.Enc
open Zstd Zstd.Model.Enc

/-- `compress` does not panic when the per-block emitter does not (header representable, spaces
non-empty; in particular the model's fuel suffices) -/
theorem compressFrame_no_fault {H : Type} (hash : Bool) (enc : BlockEnc H) (c : Compressor H) (w : Nat)
    (script : Nat → MBlock) (data : List Byte) (frags : List Nat)
    (hw : w ≤ 2 ^ 41) (hspace : ∀ i, 0 < (script i).space)
    (htotal : ∀ last blk i st, blk ≠ [] → blk.length ≤ (script i).space →
      ∃ r, emitBlock c.level enc last blk (script i).parse st = .ok r) :
    ∃ frame c', compressFrame hash enc c w script data frags = .ok (frame, c') := by
  obtain ⟨e, _, _, hwd, _, _⟩ := headerDescriptor_spec w hw
  unfold compressFrame
  simp only [frameHeader, hwd]
  split
  · rename_i f hloop
    obtain ⟨last, blk, i, st0, hne, hlen, herr⟩ :=
      compressLoop_error (emitBlock c.level enc) script hspace _ _ _ _ _ _ f (by omega) hloop
    obtain ⟨r, hr⟩ := htotal last blk i st0 hne hlen
    rw [hr] at herr; cases herr
  · exact ⟨_, _, rfl⟩

end Zstd.Proofs.Enc
