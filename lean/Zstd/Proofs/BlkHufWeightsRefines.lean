import Zstd.Proofs.BlkHufRefDefs
import Zstd.Proofs.BlkSeqStream
import Zstd.Proofs.BlkHufWeights
/-
C01 (refinement Spec ⇒ Model), Huffman tree description: whenever the RFC semantics
`Spec.Huffman.readWeights` accepts a description, the model of `HuffmanTable::read_weights` returns
the same weights and the same byte count.  The FSE table of the compressed form is taken from
`WeightsTableRefines` (proved separately).
-/
namespace Zstd.Proofs.Blk
open Zstd Zstd.Model Zstd.Model.BitIO Zstd.Proofs.BitIO

/-! ## the direct form -/

theorem nibbles_eq : ∀ (l : List Nat) (n : Nat), (n + 1) / 2 ≤ l.length →
    Huf.nibbles n l = .ok ((List.range n).map fun i =>
      let b := l.getD (i / 2) 0
      if i % 2 = 0 then b / 16 else b % 16) := by
  intro l
  induction l with
  | nil =>
    intro n h
    have : n = 0 := by simp at h; omega
    subst this; rfl
  | cons b bs ih =>
    intro n h
    match n with
    | 0 => rfl
    | 1 => rfl
    | n + 2 =>
      simp only [List.length_cons] at h
      rw [Huf.nibbles, ih n (by omega)]
      simp only [Gen.hufEvenIdxHigh, if_true]
      rw [List.range_succ_eq_map, List.range_succ_eq_map]
      simp only [List.map_cons, List.map_map]
      have h0 : ∀ i, (i + 1 + 1) / 2 = i / 2 + 1 := by intro i; omega
      have h1 : ∀ i, (i + 1 + 1) % 2 = i % 2 := by intro i; omega
      simp [Function.comp_def, h0, h1]

/-! ## the FSE form: stream end test, state init / update against the Spec table -/

theorem fseStreamEnd_true {br : BitReaderRev} (h : br.bitsRemaining ≤ -1) : Huf.fseStreamEnd br = true := by
  unfold Huf.fseStreamEnd Gen.hufFseStreamEnd Gen.hufFseStreamEndK
  simp only [decide_eq_true_eq]; omega

theorem fseStreamEnd_false {br : BitReaderRev} (h : 0 ≤ br.bitsRemaining) : Huf.fseStreamEnd br = false := by
  unfold Huf.fseStreamEnd Gen.hufFseStreamEnd Gen.hufFseStreamEndK
  simp only [decide_eq_false_iff_not]; omega

theorem specOf_entry {ft : Fse.DTable} {s : Nat} {e : Fse.DEntry} (h : ft.decode[s]? = some e) :
    (specOf ft).entries[s]? = some (FseDecTable.toSpecEntry e) := by
  simp only [specOf, Array.getElem?_map, h, Option.map_some]

/-- `init_state` against the Spec's strict read of `accLog` bits -/
theorem init_refines {ft : Fse.DTable} (hft : FseBuilt 6 ft) (d : Fse.Decoder)
    {src : Array Nat} {br : BitReaderRev} {bits rest : List Bool} {st : Nat}
    (hr : RdRel src br bits) (hi : Spec.Fse.initState (specOf ft) bits = some (st, rest)) :
    ∃ d' br', d.initState ft br = .ok (d', br') ∧ RdRel src br' rest ∧ ft.decode[st]? = some d'.state := by
  have hi' : Spec.readBE ft.accuracyLog bits = some (st, rest) := hi
  have hal := hft.al_le
  have hpos := hft.al_pos
  obtain ⟨br', e, hv, hr'⟩ := rd_read hr (by omega) hi'
  have hlt : st < ft.decode.size := by rw [hft.size]; exact hv
  refine ⟨⟨ft.decode[st]⟩, br', ?_, hr', Array.getElem?_eq_getElem hlt⟩
  unfold Fse.Decoder.initState
  rw [if_neg (by omega), e]
  simp only []
  rw [Array.getElem?_eq_getElem hlt]

/-- `update_state` against the Spec's zero-padding read: it always succeeds on a built table; when
bits were missing the reader is past the start of the stream (`bits_remaining ≤ -1`), otherwise it
stands at the Spec's rest -/
theorem upd_refines {ft : Fse.DTable} (hft : FseBuilt 6 ft) {src : Array Nat} {br : BitReaderRev}
    {bits : List Bool} {d : Fse.Decoder} {s : Nat}
    (hd : ft.decode[s]? = some d.state) (hr : RdRel src br bits) :
    ∃ d' br', d.updateState ft br = .ok (d', br') ∧
      ft.decode[d.state.baseLine + (Spec.readBEPad d.state.numBits bits).1]? = some d'.state ∧
      (if (Spec.readBEPad d.state.numBits bits).2.2 > 0 then Huf.fseStreamEnd br' = true
       else Huf.fseStreamEnd br' = false ∧ RdRel src br' (Spec.readBEPad d.state.numBits bits).2.1) := by
  obtain ⟨pos, hi, hp, rfl⟩ := hr
  have hal := hft.al_le
  obtain ⟨_, hbl, hnb⟩ := hft.entries _ (mem_of_getElem? hd)
  obtain ⟨br', e, hi'⟩ := bitReaderRev_refines hi (by omega : d.state.numBits ≤ 56)
  have hv := readBEPad_lt hi.bytes pos d.state.numBits
  have h6 : 2 ^ ft.accuracyLog ≤ 2 ^ 6 := Nat.pow_le_pow_right (by omega) hal
  have hlt : d.state.baseLine + (Spec.readBEPad d.state.numBits ((stream src).drop pos)).1 < ft.decode.size := by
    rw [hft.size]; omega
  refine ⟨⟨ft.decode[d.state.baseLine + (Spec.readBEPad d.state.numBits ((stream src).drop pos)).1]⟩, br', ?_,
    Array.getElem?_eq_getElem hlt, ?_⟩
  · unfold Fse.Decoder.updateState
    rw [e]
    simp only []
    rw [if_neg (by omega), Array.getElem?_eq_getElem hlt]
  · have hbr := RevInv_bitsRemaining hi'
    have hlen : ((stream src).drop pos).length = 8 * src.size - pos := by
      rw [List.length_drop, length_stream]
    rw [readBEPad_def]
    split
    · simp only []
      rw [if_pos (by omega)]
      exact fseStreamEnd_true (by omega)
    · simp only []
      rw [if_neg (by omega)]
      exact ⟨fseStreamEnd_false (by omega), pos + d.state.numBits, hi', by omega, by rw [List.drop_drop]⟩

/-- one step of the Spec's alternating decoder -/
theorem spec_step {T : Spec.Fse.Table} {fS s1 s2 : Nat} {bits : List Bool} {acc ws : List Nat}
    {e1 e2 : Spec.Fse.Entry} (h1 : T.entries[s1]? = some e1) (h2 : T.entries[s2]? = some e2)
    (h : Spec.Huffman.decodeFseWeights T fS s1 s2 bits acc = some ws) :
    ∃ fS', fS = fS' + 1 ∧
      (if (Spec.readBEPad e1.nbBits bits).2.2 > 0 then ws = (e2.symbol :: e1.symbol :: acc).reverse
       else acc.length + 1 ≤ 255 ∧
         Spec.Huffman.decodeFseWeights T fS' s2 (e1.baseline + (Spec.readBEPad e1.nbBits bits).1)
           (Spec.readBEPad e1.nbBits bits).2.1 (e1.symbol :: acc) = some ws) := by
  cases fS with
  | zero => simp [Spec.Huffman.decodeFseWeights] at h
  | succ fS' =>
    refine ⟨fS', rfl, ?_⟩
    rw [Spec.Huffman.decodeFseWeights] at h
    simp only [h1, h2] at h
    split at h
    · rename_i hm
      rw [if_pos hm]
      simp only [Option.some.injEq] at h
      exact h.symm
    · rename_i hm
      rw [if_neg hm]
      split at h
      · cases h
      · rename_i hl
        simp only [List.length_cons] at hl
        exact ⟨by omega, h⟩

/-- the same step on the Spec table of a model table, in terms of the model's entries -/
theorem spec_step' {ft : Fse.DTable} {fS s1 s2 : Nat} {bits : List Bool} {acc ws : List Nat}
    {e1 e2 : Fse.DEntry} (h1 : ft.decode[s1]? = some e1) (h2 : ft.decode[s2]? = some e2)
    (h : Spec.Huffman.decodeFseWeights (specOf ft) fS s1 s2 bits acc = some ws) :
    ∃ fS', fS = fS' + 1 ∧
      (if (Spec.readBEPad e1.numBits bits).2.2 > 0 then ws = (e2.symbol :: e1.symbol :: acc).reverse
       else acc.length + 1 ≤ 255 ∧
         Spec.Huffman.decodeFseWeights (specOf ft) fS' s2 (e1.baseLine + (Spec.readBEPad e1.numBits bits).1)
           (Spec.readBEPad e1.numBits bits).2.1 (e1.symbol :: acc) = some ws) :=
  spec_step (specOf_entry h1) (specOf_entry h2) h

/-! ## the loop: one round of the code = two steps of the Spec -/

theorem fseWeightsLoop_refines {ft : Fse.DTable} (hft : FseBuilt 6 ft) {src : Array Nat} :
    ∀ (fM fS s1 s2 : Nat) (bits : List Bool) (acc : List Nat) (d1 d2 : Fse.Decoder) (br : BitReaderRev)
      (k : Nat) (ws : List Nat),
      ft.decode[s1]? = some d1.state → ft.decode[s2]? = some d2.state → RdRel src br bits →
      acc.length = 2 * k → k ≤ 127 → 128 ≤ k + fM →
      Spec.Huffman.decodeFseWeights (specOf ft) fS s1 s2 bits acc = some ws →
      Huf.fseWeightsLoop ft fM d1 d2 br acc = .ok (.ok ws) := by
  intro fM
  induction fM with
  | zero => intro fS s1 s2 bits acc d1 d2 br k ws _ _ _ _ h1 h2 _; omega
  | succ fM ih =>
    intro fS s1 s2 bits acc d1 d2 br k ws hd1 hd2 hr hlen hk hfuel h
    obtain ⟨fS1, rfl, hs1⟩ := spec_step' hd1 hd2 h
    obtain ⟨d1', br1, hu1, hd1', hc1⟩ := upd_refines hft hd1 hr
    unfold Huf.fseWeightsLoop
    simp only [hu1]
    by_cases hm1 : (Spec.readBEPad d1.state.numBits bits).2.2 > 0
    · rw [if_pos hm1] at hs1 hc1
      rw [if_pos hc1, hs1]
      rfl
    · rw [if_neg hm1] at hs1 hc1
      obtain ⟨hl1, hs1⟩ := hs1
      obtain ⟨hc1, hr1⟩ := hc1
      rw [if_neg (by simp [hc1])]
      obtain ⟨fS2, rfl, hs2⟩ := spec_step' hd2 hd1' hs1
      obtain ⟨d2', br2, hu2, hd2', hc2⟩ := upd_refines hft hd2 hr1
      simp only [hu2]
      by_cases hm2 : (Spec.readBEPad d2.state.numBits (Spec.readBEPad d1.state.numBits bits).2.1).2.2 > 0
      · rw [if_pos hm2] at hs2 hc2
        rw [if_pos hc2, hs2]
        rfl
      · rw [if_neg hm2] at hs2 hc2
        obtain ⟨hl2, hs2⟩ := hs2
        obtain ⟨hc2, hr2⟩ := hc2
        rw [if_neg (by simp [hc2])]
        simp only [List.length_cons] at hl2
        rw [if_neg (by simp [Gen.hufTooManyWeights, Gen.hufTooManyWeightsBound]; omega)]
        exact ih fS2 _ _ _ _ d1' d2' br2 (k + 1) ws hd1' hd2' hr2 (by simp only [List.length_cons]; omega)
          (by omega) (by omega) hs2

/-! ## `read_weights` -/

/-- both forms; the table hypothesis and the byte range are only used by the FSE form (`header < 128`) -/
theorem readWeights_refines_aux {bytes : List Nat}
    (HT : bytes.headD 0 < 128 → WeightsTableRefines) (hb : bytes.headD 0 < 128 → Bytes bytes)
    {ws : List Nat} {used : Nat} (hs : Spec.Huffman.readWeights bytes = some (ws, used)) (t : Huf.DecTable) :
    Huf.readWeights t bytes = ({ t with weights := ws }, .ok used) := by
  cases bytes with
  | nil => simp [Spec.Huffman.readWeights] at hs
  | cons header rest =>
    unfold Spec.Huffman.readWeights at hs
    simp only [] at hs
    unfold Huf.readWeights
    simp only []
    by_cases hh : header ≥ 128
    · -- direct form
      rw [if_pos hh] at hs
      rw [if_neg (by simp only [Gen.hufFseHeaderMax]; omega)]
      have hnum : header - Gen.hufDirectHeaderSubDec = header - 127 := rfl
      rw [hnum]
      generalize header - 127 = n at hs ⊢
      split at hs
      · cases hs
      · rename_i hlen
        simp only [Option.some.injEq, Prod.mk.injEq] at hs
        obtain ⟨rfl, rfl⟩ := hs
        rw [if_neg (by split <;> omega), nibbles_eq rest n (by omega)]
        have hu : (if (8 + 4 * n) % 8 = 0 then (8 + 4 * n) / 8 else (8 + 4 * n) / 8 + 1) = 1 + (n + 1) / 2 := by
          split <;> omega
        simp only [hu]
    · rw [if_neg hh] at hs
      rw [if_pos (by simp only [Gen.hufFseHeaderMax]; omega)]
      have hlt : (header :: rest).headD 0 < 128 := by simp only [List.headD_cons]; omega
      have HT := HT hlt
      have hb := hb hlt
      have hbr : Bytes rest := fun x hx => hb x (List.mem_cons_of_mem _ hx)
      split at hs
      · cases hs
      · rename_i hlen
        rw [if_neg (by omega)]
        cases hrd : Spec.Fse.readDescription (rest.take header) 6 255 with
        | none => rw [hrd] at hs; cases hs
        | some p =>
        obtain ⟨al, probs, used0⟩ := p
        rw [hrd] at hs
        simp only [] at hs
        split at hs
        · cases hs
        · rename_i hu
          cases hT : Spec.Fse.buildTable al probs with
          | none => rw [hT] at hs; cases hs
          | some T =>
          cases hbs : Spec.backwardStream ((rest.take header).drop used0) with
          | none => rw [hT, hbs] at hs; cases hs
          | some bits =>
          rw [hT, hbs] at hs
          simp only [] at hs
          cases hi1 : Spec.Fse.initState T bits with
          | none => rw [hi1] at hs; cases hs
          | some p1 =>
          obtain ⟨s1, bits1⟩ := p1
          rw [hi1] at hs
          simp only [] at hs
          cases hi2 : Spec.Fse.initState T bits1 with
          | none => rw [hi2] at hs; cases hs
          | some p2 =>
          obtain ⟨s2, bits2⟩ := p2
          rw [hi2] at hs
          simp only [] at hs
          cases hl : Spec.Huffman.decodeFseWeights T 300 s1 s2 bits2 [] with
          | none => rw [hl] at hs; cases hs
          | some ws' =>
          rw [hl] at hs
          simp only [Option.some.injEq, Prod.mk.injEq] at hs
          obtain ⟨rfl, rfl⟩ := hs
          obtain ⟨ft, hbd, hft, rfl⟩ := HT rest header al used0 probs T hbr hrd hT
          rw [hbd]
          simp only []
          rw [if_neg (by omega), if_neg (by rw [List.length_drop]; omega)]
          have hsrc : ((rest.drop used0).take (header - used0)).toArray.toList = (rest.take header).drop used0 := by
            rw [List.toList_toArray, List.drop_take]
          have hbsrc : Bytes ((rest.drop used0).take (header - used0)).toArray.toList := by
            rw [List.toList_toArray]
            exact fun x hx => hbr x (List.mem_of_mem_drop (List.mem_of_mem_take hx))
          obtain ⟨br0, e0, hr0⟩ := skipEndMark_backwardStream hbsrc (by rw [hsrc]; exact hbs)
          rw [e0]
          simp only []
          obtain ⟨d1, br1, e1, hr1, hd1⟩ := init_refines hft (Fse.Decoder.new ft) hr0 hi1
          rw [e1]
          simp only []
          obtain ⟨d2, br2, e2, hr2, hd2⟩ := init_refines hft (Fse.Decoder.new ft) hr1 hi2
          rw [e2]
          simp only []
          rw [fseWeightsLoop_refines hft 130 300 s1 s2 bits2 [] d1 d2 br2 0 ws' hd1 hd2 hr2 rfl (by omega) (by omega) hl]

/-- **Spec ⇒ Model for the Huffman tree description** (`HuffmanTable::read_weights`): whenever the RFC
semantics accepts the description with weights `ws` and `used` bytes, the code stores exactly `ws` in
`self.weights` and reports `used` bytes.  `HT` = the FSE table of the compressed form
(`Proofs/BlkHufWeightsTable`). -/
theorem readWeights_refines (HT : WeightsTableRefines) {bytes : List Nat} (hb : Bytes bytes)
    {ws : List Nat} {used : Nat} (hs : Spec.Huffman.readWeights bytes = some (ws, used)) (t : Huf.DecTable) :
    Huf.readWeights t bytes = ({ t with weights := ws }, .ok used) :=
  readWeights_refines_aux (fun _ => HT) (fun _ => hb) hs t

/-- the direct form (`header ≥ 128`) needs neither the table hypothesis nor the byte range -/
theorem readWeights_refines_direct {header : Nat} {rest : List Nat} (hh : 128 ≤ header)
    {ws : List Nat} {used : Nat} (hs : Spec.Huffman.readWeights (header :: rest) = some (ws, used))
    (t : Huf.DecTable) :
    Huf.readWeights t (header :: rest) = ({ t with weights := ws }, .ok used) :=
  readWeights_refines_aux (fun h => by simp only [List.headD_cons] at h; omega)
    (fun h => by simp only [List.headD_cons] at h; omega) hs t

/-- non-vacuity, direct form: three weights in two bytes -/
example (t : Huf.DecTable) :
    Huf.readWeights t [130, 0x12, 0x30] = ({ t with weights := [1, 2, 3] }, .ok 3) :=
  readWeights_refines_direct (by decide) (by decide) t

/-- non-vacuity, FSE form: a two-byte table description (accuracy log 5, probabilities 15, 11, 6) and a
two-byte stream; the Spec accepts it with the weights `0, 0, 2, 0` -/
example (HT : WeightsTableRefines) (t : Huf.DecTable) :
    Huf.readWeights t [4, 0, 249, 0, 37] = ({ t with weights := [0, 0, 2, 0] }, .ok 5) :=
  readWeights_refines HT (by intro x hx; simp at hx; omega) (by decide +kernel) t

end Zstd.Proofs.Blk
