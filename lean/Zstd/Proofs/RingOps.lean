import Zstd.Proofs.RingWithin
/-
Helper lemmas for C04, layer 4d: `drop_first_n`, `clear`, `get`, `as_slices`, `new`.
-/
namespace Zstd.Model
open Zstd

namespace RingBuffer

variable {r : RingBuffer}

theorem inv_new : RingBuffer.new.Inv := by
  refine ⟨rfl, ?_, Or.inl ⟨rfl, rfl, rfl⟩⟩
  intro j hj
  simp [occupied, new] at hj

theorem abs_new : RingBuffer.new.abs = [] := by simp [abs, len, new]

theorem clear_ok (hI : r.Inv) : r.clear.Inv ∧ r.clear.abs = [] ∧ r.clear.cap = r.cap := by
  refine ⟨⟨hI.alloc, ?_, ?_⟩, ?_, rfl⟩
  · intro j hj
    simp [occupied, clear] at hj
  · rcases hI.bounds with ⟨h0, _, _⟩ | ⟨hh, _⟩
    · left; exact ⟨h0, rfl, rfl⟩
    · right; show 0 < r.cap ∧ 0 < r.cap; omega
  · simp [abs, len, clear]

/-- a buffer whose head was advanced by `n ≤ len` -/
theorem dropped (hI : r.Inv) (hc : 0 < r.cap) {n : Nat} (hn : n ≤ r.len) {r' : RingBuffer}
    (hcap : r'.cap = r.cap) (htail : r'.tail = r.tail) (hmem : r'.mem = r.mem)
    (hhead : r'.head = (r.head + n) % r.cap) :
    r'.Inv ∧ r'.abs = r.abs.drop n ∧ r'.len = r.len - n ∧ r'.cap = r.cap := by
  have hh := hI.head_lt hc; have ht := hI.tail_lt hc; have hll := hI.len_lt hc
  rw [wrap_eq hh (by omega)] at hhead
  have hlc := len_cases r; have hlc' := len_cases r'
  have hlen : r'.len = r.len - n := by split at hhead <;> omega
  have hphys : ∀ i, i < r'.len → r'.phys i = r.phys (n + i) := by
    intro i hi
    have := phys_cases r' i; have := phys_cases r (n + i)
    split at hhead <;> omega
  refine ⟨⟨by rw [hmem, hcap]; exact hI.alloc, ?_, ?_⟩, ?_, hlen, hcap⟩
  · intro j hj
    rw [hmem]
    apply hI.init
    rw [occupied_iff] at hj ⊢
    split at hhead <;> omega
  · right; split at hhead <;> omega
  · apply List.ext_getElem
    · rw [abs_length, List.length_drop, abs_length, hlen]
    · intro i h1 h2
      rw [getElem_abs, List.getElem_drop, getElem_abs, hmem, hphys i (by rwa [abs_length] at h1)]

theorem dropFirstN_ok (hI : r.Inv) (hc : 0 < r.cap) {n : Nat} (hn : n ≤ r.len) :
    ∃ r', r.dropFirstN n = .ok r' ∧ r'.Inv ∧ r'.abs = Queue.dropFront r.abs n ∧ r'.len = r.len - n ∧
      r'.cap = r.cap := by
  unfold dropFirstN
  rw [hI.lenC_eq, ok_bind, check_ok hn, ok_bind, umod_ok hc, ok_bind, pure_eq_ok]
  refine ⟨_, rfl, dropped hI hc hn rfl rfl rfl ?_⟩
  show (r.head + min n r.len) % r.cap = _
  rw [Nat.min_eq_left hn]

/-- `drop_first_n` with `amount > len()` trips its `debug_assert!` -/
theorem dropFirstN_asserts (hI : r.Inv) {n : Nat} (hn : ¬ n ≤ r.len) :
    ∃ f, r.dropFirstN n = .error f := by
  unfold dropFirstN
  rw [hI.lenC_eq, ok_bind, check_err hn, error_bind]
  exact ⟨_, rfl⟩

theorem get_ok (hI : r.Inv) (idx : Nat) :
    ∃ r', r.get idx = .ok (r.abs[idx]?, r') ∧ r'.cap = r.cap ∧ r'.head = r.head ∧ r'.tail = r.tail ∧
      r'.mem = r.mem := by
  unfold get
  rw [hI.lenC_eq, ok_bind]
  by_cases hi : idx < r.len
  · simp only [hi, ↓reduceIte]
    have hc := hI.cap_pos_of_len (by omega)
    have hh := hI.head_lt hc; have hll := hI.len_lt hc
    have hp : (r.head + idx) % r.cap = r.phys idx := by
      rw [wrap_eq hh (by omega)]; rfl
    rw [umod_ok hc, ok_bind, hp, Mem.rd_ok (hI.cellL hi), ok_bind, pure_eq_ok]
    have : r.abs[idx]? = some (r.mem.val (r.phys idx)) := by
      rw [List.getElem?_eq_getElem (by rwa [abs_length]), getElem_abs]
    rw [this]
    exact ⟨_, rfl, rfl, rfl, rfl, rfl⟩
  · simp only [hi, ↓reduceIte, pure_eq_ok]
    have : r.abs[idx]? = none := by
      rw [List.getElem?_eq_none]; rw [abs_length]; omega
    rw [this]
    exact ⟨r, rfl, rfl, rfl, rfl, rfl⟩

theorem asSlices_ok (hI : r.Inv) :
    ∃ a b r', r.asSlices = .ok ((a, b), r') ∧ a ++ b = r.abs ∧
      a.length = (if r.tail ≥ r.head then r.tail - r.head else r.cap - r.head) ∧
      r'.cap = r.cap ∧ r'.head = r.head ∧ r'.tail = r.tail ∧ r'.mem = r.mem := by
  unfold asSlices
  rw [hI.dataSliceLengths_eq, ok_bind]
  generalize hs : (if r.tail ≥ r.head then (r.tail - r.head, 0) else (r.cap - r.head, r.tail)) = s
  have hsd : (r.head ≤ r.tail ∧ s.1 = r.tail - r.head ∧ s.2 = 0) ∨
      (r.tail < r.head ∧ s.1 = r.cap - r.head ∧ s.2 = r.tail) := by
    rw [← hs]; split
    · left; exact ⟨by omega, rfl, rfl⟩
    · right; exact ⟨by omega, rfl, rfl⟩
  have hlc := len_cases r
  have hle := hI.head_le
  have hle' := hI.tail_le
  have hr1 : ∀ i, i < s.1 → (r.mem.cell (r.head + i)).isSome := by
    intro i hi; apply hI.init; rw [occupied_iff]; omega
  have hr2 : ∀ i, i < s.2 → (r.mem.cell (0 + i)).isSome := by
    intro i hi; apply hI.init; rw [occupied_iff]; omega
  rw [Mem.readN_ok hr1, ok_bind, Mem.readN_ok hr2, ok_bind, pure_eq_ok]
  refine ⟨_, _, _, rfl, ?_, ?_, rfl, rfl, rfl, rfl⟩
  · apply List.ext_getElem
    · rw [List.length_append, Mem.vals_length, Mem.vals_length, abs_length]; omega
    · intro i h1 h2
      rw [getElem_abs]
      have hpc := phys_cases r i
      rw [abs_length] at h2
      by_cases hi : i < s.1
      · rw [List.getElem_append_left (by rwa [Mem.vals_length]), Mem.getElem_vals]
        congr 1; omega
      · rw [List.getElem_append_right (by rw [Mem.vals_length]; omega), Mem.getElem_vals, Mem.vals_length]
        congr 1; omega
  · rw [Mem.vals_length]; split <;> omega

end RingBuffer

end Zstd.Model
