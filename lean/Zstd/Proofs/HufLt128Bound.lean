import Zstd.Proofs.HufFseContract
import Zstd.Proofs.HufLt128Desc
import Zstd.Proofs.HufLt128Stream
import Zstd.Proofs.HufLt128Def
/-
The analytic size bound of the FSE-compressed weight description: `8 · |Enc.fseWeights ws|` is at most
`boundOf (histogram ws)`, a function of the normalised distribution only.
-/
namespace Zstd.Proofs.Huf
open Zstd Zstd.Spec Zstd.Model Zstd.Model.BitIO Zstd.Model.Fse Zstd.Model.Huf Zstd.Proofs.BitIO
open Zstd.Proofs.HufLt128

/-! ### sums over a weight vector as sums over its histogram -/

theorem sum_map_zero {α : Type} (g : α → Nat) : ∀ (l : List α), (∀ v ∈ l, g v = 0) → (l.map g).sum = 0
  | [], _ => rfl
  | x :: xs, h => by
    rw [List.map_cons, List.sum_cons, h x List.mem_cons_self,
      sum_map_zero g xs (fun v hv => h v (List.mem_cons_of_mem _ hv))]

theorem sum_map_add' {α : Type} (a b : α → Nat) : ∀ (l : List α),
    (l.map fun v => a v + b v).sum = (l.map a).sum + (l.map b).sum
  | [] => rfl
  | x :: xs => by
    simp only [List.map_cons, List.sum_cons, sum_map_add' a b xs]; omega

theorem sum_indicator (f : Nat → Nat) (x : Nat) : ∀ K, x < K →
    ((List.range K).map fun v => (if x = v then 1 else 0) * f v).sum = f x := by
  intro K
  induction K with
  | zero => intro h; omega
  | succ K ih =>
    intro h
    rw [List.range_succ, List.map_append, List.sum_append]
    by_cases hx : x = K
    · subst hx
      have : ((List.range x).map fun v => (if x = v then 1 else 0) * f v).sum = 0 := by
        apply sum_map_zero
        intro v hv
        have : v < x := List.mem_range.mp hv
        have : ¬ x = v := by omega
        simp [this]
      rw [this]; simp
    · rw [ih (by omega)]; simp [hx]

theorem sum_map_eq_count (f : Nat → Nat) (K : Nat) : ∀ (ws : List Nat), (∀ x ∈ ws, x < K) →
    (ws.map f).sum = ((List.range K).map fun v => ws.count v * f v).sum
  | [], _ => by
    symm; apply sum_map_zero; intro v _; simp
  | x :: xs, h => by
    have hx : x < K := h x List.mem_cons_self
    rw [List.map_cons, List.sum_cons, sum_map_eq_count f K xs (fun y hy => h y (List.mem_cons_of_mem _ hy))]
    rw [← sum_indicator f x K hx, ← sum_map_add']
    congr 1
    apply List.map_congr_left
    intro v _
    rw [List.count_cons, Nat.add_mul, Nat.add_comm]
    congr 2
    by_cases hxv : x = v
    · simp [hxv]
    · have : (x == v) = false := by simpa using hxv
      simp [hxv, this]

theorem costSum_acc (al : Nat) : ∀ (h : List Nat) (p : List Int) (acc : Nat),
    costSum al h p acc = acc + costSum al h p 0
  | [], _, acc => by simp [costSum]
  | _ :: _, [], acc => by simp [costSum]
  | c :: cs, q :: ps, acc => by
    simp only [costSum]
    rw [costSum_acc al cs ps (acc + _), costSum_acc al cs ps (0 + _)]
    omega

theorem costSum_range (al : Nat) : ∀ (h : List Nat) (p : List Int), h.length = p.length →
    costSum al h p 0 = ((List.range h.length).map fun v => h.getD v 0 * (al - Nat.log2 (p.getD v 0).toNat)).sum
  | [], _, _ => by simp [costSum]
  | c :: cs, [], hl => by simp at hl
  | c :: cs, q :: ps, hl => by
    simp only [List.length_cons] at hl
    simp only [costSum, List.length_cons]
    rw [costSum_acc, costSum_range al cs ps (by omega), List.range_succ_eq_map, List.map_cons, List.sum_cons,
      List.map_map]
    simp only [List.getD_cons_zero, Nat.zero_add]
    congr 1

/-! ### the bound -/

/-- **Size of the FSE-compressed weights**: under the hypotheses of `fseWeights_roundtrip`, the output
of the real FSE coder has at most `boundOf (histogram ws) / 8` bytes. -/
theorem fseWeights_size (ws : List Nat) (h4 : 4 ≤ ws.length) (h257 : ws.length ≤ 257)
    (hle : ∀ w ∈ ws, w ≤ 11) (hpos : ∃ w ∈ ws, 1 ≤ w) (bytes : List Nat)
    (hencb : Enc.fseWeights ws = .ok bytes) : 8 * bytes.length ≤ boundOf (Fse.histogram ws) := by
  obtain ⟨hh2, hh12, hhget, hhmem, hhlast⟩ := histogram_weights ws hle hpos
  obtain ⟨probs, al, hnorm, hal5, hal6, hplen, hpge, hpsum, hpocc, hpav⟩ :=
    FseNormalize.normalize_valid_partial (Fse.histogram ws) 6 true (by decide) hh2 (by omega)
      (by have : (2 : Nat) ^ 6 = 64 := by decide
          omega) (by
        obtain ⟨w0, hw0, _⟩ := hpos
        have hlt := hhmem w0 hw0
        refine ⟨(Fse.histogram ws).getD w0 0, ?_, ?_⟩
        · rw [List.getD_eq_getElem?_getD, List.getElem?_eq_getElem hlt]; exact List.getElem_mem _
        · rw [hhget w0 hlt]; exact List.count_pos_iff.mpr hw0)
  have hn5 : Gen.normLogMin = 5 := rfl
  have hmass : FseTableDesc.mass probs = 2 ^ al := by
    have := mass_of_nonneg probs hpge
    rw [hpsum] at this
    exact_mod_cast this
  have hvalid : FseEncTable.ValidDist al probs :=
    ⟨by omega, by omega, by omega, fun p hp => by have := hpge p hp; omega, hmass⟩
  have hbuildable : FseEncTable.EncBuildable al probs := by
    refine ⟨hvalid, ?_⟩
    have : probs.filter (· = -1) = [] := by
      rw [List.filter_eq_nil_iff]
      intro p hp; have := hpge p hp; simp; omega
    rw [this]; exact Nat.two_pow_pos al
  have hms : probs.length ≤ 255 + 1 := by omega
  obtain ⟨et, dec, ctr, het, hdec, hsz, hst256, _, _, _, hprob, _⟩ :=
    FseEncTable.enc_table_eq_dec_table hbuildable hms
  have hcar : FseTableDesc.Carries et al probs := ⟨hsz, hst256, fun i _ => hprob i⟩
  have husable : ∀ x ∈ ws, probs.getD x 0 ≠ 0 := by
    intro x hx
    have hlt := hhmem x hx
    have := hpocc x (by rw [hhget x hlt]; exact List.count_pos_iff.mpr hx)
    omega
  have hlast : probs.getLast? ≠ some 0 := by
    intro h0
    rw [List.getLast?_eq_getElem?] at h0
    have hc := hhlast ((Fse.histogram ws).getD ((Fse.histogram ws).length - 1) 0) (by
      rw [List.getLast?_eq_getElem?, List.getD_eq_getElem?_getD, List.getElem?_eq_getElem (by omega)]; rfl)
    have := hpocc _ hc
    rw [List.getD_eq_getElem?_getD, ← hplen, h0] at this
    simp at this
  -- the description and its size
  obtain ⟨w1, D, hwt, hw1, hD8, _⟩ := FseTableDesc.write_read_table et al probs (by omega) (by omega) (by omega)
    (fun p hp => by have := hpge p hp; omega) hmass hlast hcar WInv_new (by simp)
  have hDlen : D.length ≤ 4 + (al + 3) * probs.length + 7 :=
    writeTable_len et al probs (by omega) (by omega) (by omega) (fun p hp => by have := hpge p hp; omega)
      hmass hlast hcar WInv_new hwt hw1
  simp only [List.nil_append] at hw1
  -- the stream and its size
  let dt : DTable := { maxSymbol := 255, decode := dec, accuracyLog := al, probs := probs.toArray, symbolCounter := ctr }
  have hc2 : FseStreamInter.Coupled2 et dt al (FseCoupled.usableOf probs) :=
    FseCoupled.coupled2_of_buildable hbuildable hms (fun p hp => hpav rfl p hp) het hdec rfl rfl
  obtain ⟨w2, S, henc, hw2, hDS8, hSlen⟩ :=
    interleaved_len hc2 (symCost al probs)
      (fun s st _ hg => good_numBits_le (FseCoupled.validDist_iff.mp hvalid) hms hdec rfl hg)
      ws h4 husable hw1
  obtain ⟨out, hdump, hbits, _⟩ := bitWriter_dump hw2 (by rw [List.length_append]; exact hDS8)
  have hfse : Enc.fseWeights ws = .ok out.toList := by
    unfold Enc.fseWeights Fse.buildTableFromData Fse.buildTableFromCounts
    rw [hnorm]
    simp only [het]
    unfold Fse.encodeInterleaved Enc.dumpBytes
    rw [hwt]
    simp only [henc, hdump]
  rw [hencb] at hfse
  simp only [Except.ok.injEq] at hfse
  subst hfse
  have hlenout : 8 * out.toList.length = D.length + S.length := by
    have := congrArg List.length hbits
    rw [length_bitsLE, List.length_append] at this; exact this
  -- the per-symbol costs as a sum over the histogram
  have hcost : (ws.map (symCost al probs)).sum = costSum al (Fse.histogram ws) probs 0 := by
    rw [sum_map_eq_count (symCost al probs) (Fse.histogram ws).length ws hhmem,
      costSum_range al _ _ hplen.symm]
    congr 1
    apply List.map_congr_left
    intro v hv
    have hv' : v < (Fse.histogram ws).length := List.mem_range.mp hv
    rw [hhget v hv']
    congr 1
    unfold symCost FseDecTable.nStates
    have hp0 : 0 ≤ probs.getD v 0 := by
      rcases Nat.lt_or_ge v probs.length with hlt | hge
      · rw [List.getD_eq_getElem?_getD, List.getElem?_eq_getElem hlt]
        exact hpge _ (List.getElem_mem _)
      · rw [List.getD_eq_getElem?_getD, List.getElem?_eq_none hge]; simp
    have : ¬ probs.getD v 0 = -1 := by omega
    simp only [this, if_false]
  unfold boundOf
  rw [hnorm]
  simp only
  rw [hlenout, ← hcost]
  omega

end Zstd.Proofs.Huf
