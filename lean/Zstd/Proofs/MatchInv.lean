import Zstd.Proofs.MatchBytes
/-
Helper lemmas for C17, part 4: the well-formedness `WF` of the generator state (base offsets,
window-size accounting, indices) is established by `new` and preserved by every operation:
`add_data` (with eviction in `reserve`), `next_sequence`/`start_matching`, `skip_matching`, `reset`.
Independent of the hash function and of the content of the suffix stores and pools.
-/
namespace Zstd.Proofs.MG
open Zstd Zstd.Model.MG

theorem wf_new (m : Nat) : WF (MatchGenerator.new m) :=
  ⟨trivial, rfl, Nat.zero_le _, rfl, by intro l h; simp [MatchGenerator.new] at h⟩

theorem wf_reset (g : MatchGenerator) : WF g.reset.1 :=
  ⟨trivial, rfl, Nat.zero_le _, rfl, by intro l h; simp [MatchGenerator.reset] at h⟩

theorem shape_setLast (g : MatchGenerator) (last : Entry) (st : SuffixStore)
    (h : g.window.getLast? = some last) : shape (g.setLast last st) = shape g.window := by
  have hw := eq_dropLast_append_of_getLast? g.window last h
  simp only [MatchGenerator.setLast]
  conv => rhs; rw [hw]
  simp [shape]

theorem getLast?_setLast (g : MatchGenerator) (last : Entry) (st : SuffixStore) :
    (g.setLast last st).getLast? = some { last with suffixes := st } := by
  simp [MatchGenerator.setLast]

theorem skipMatching_spec (key : KeyFn) (g g' : MatchGenerator) (hwf : WF g)
    (h : g.skipMatching key = .ok g') :
    WF g' ∧ shape g'.window = shape g.window ∧ g'.maxWindowSize = g.maxWindowSize ∧
    ∃ last', g'.window.getLast? = some last' ∧ g'.suffixIdx = last'.data.size := by
  unfold MatchGenerator.skipMatching at h
  split at h
  · simp at h
  · rename_i last hl
    simp only [] at h
    split at h
    · simp at h
    · rename_i st _
      simp only [Except.ok.injEq] at h
      subst h
      have hsh := shape_setLast g last st hl
      refine ⟨⟨by simp only [hsh]; exact hwf.base, by simp only [hsh]; exact hwf.size, hwf.le_max, rfl, ?_⟩,
        hsh, rfl, ⟨_, getLast?_setLast g last st, rfl⟩⟩
      intro l hl2
      simp only [getLast?_setLast] at hl2
      cases hl2
      exact Nat.le_refl _

/-! ### `reserve` / `add_data` -/

theorem reserveLoop_spec (maxW amount : Nat) : ∀ (w : List Entry) (ws : Nat) (w' : List Entry) (ws' : Nat) (ev : List Entry),
    reserveLoop maxW amount w ws = .ok (w', ws', ev) →
    w = ev ++ w' ∧ ws = total (shape ev) + ws' ∧ ws' + amount ≤ maxW := by
  intro w
  induction w with
  | nil =>
    intro ws w' ws' ev h
    unfold reserveLoop at h
    simp only [Zstd.Gen.mgEvictWhile, decide_eq_true_eq] at h
    split at h
    · simp at h
    · simp only [Except.ok.injEq, Prod.mk.injEq] at h
      obtain ⟨h1, h2, h3⟩ := h
      subst h1 h2 h3
      simp; omega
  | cons e rest ih =>
    intro ws w' ws' ev h
    unfold reserveLoop at h
    simp only [Zstd.Gen.mgEvictWhile, decide_eq_true_eq] at h
    split at h
    · split at h
      · simp at h
      · split at h
        · simp at h
        · rename_i w1 ws1 ev1 hrec
          simp only [Except.ok.injEq, Prod.mk.injEq] at h
          obtain ⟨h1, h2, h3⟩ := h
          subst h1 h2 h3
          obtain ⟨g1, g2, g3⟩ := ih _ _ _ _ hrec
          refine ⟨by simp [g1], ?_, g3⟩
          simp; omega
    · simp only [Except.ok.injEq, Prod.mk.injEq] at h
      obtain ⟨h1, h2, h3⟩ := h
      subst h1 h2 h3
      simp; omega

theorem total_dropLast_add_last : ∀ (w : Shape) (x : Array Byte × Nat), w.getLast? = some x →
    total w.dropLast + x.1.size = total w := by
  intro w x h
  have := eq_dropLast_append_of_getLast? w x h
  conv => rhs; rw [this]
  simp

theorem total_map_base (f : Nat → Nat) (w : Shape) : total (w.map (fun e => (e.1, f e.2))) = total w := by
  induction w with
  | nil => rfl
  | cons e r ih => simp [ih]

/-- `for entry in window { entry.base_offset += last_len }` followed by pushing the new entry with
base offset 0 keeps the base offsets right -/
theorem baseOk_push (d : Array Byte) (L : Nat) : ∀ (w : Shape), (∀ x, w.getLast? = some x → x.1.size = L) →
    BaseOk w → BaseOk (w.map (fun e => (e.1, e.2 + L)) ++ [(d, 0)]) := by
  intro w
  induction w with
  | nil => intro _ _; simp [BaseOk]
  | cons e r ih =>
    intro hl hb
    obtain ⟨hb1, hb2⟩ := hb
    simp only [List.map_cons, List.cons_append, BaseOk]
    constructor
    · rw [← List.cons_append, List.dropLast_concat]
      simp only [total_cons]
      have hm : total (List.map (fun e => (e.fst, e.snd + L)) r) = total r := total_map_base (fun x => x + L) r
      rw [hm]
      -- e.2 + L = e.1.size + total r
      cases hr : (e :: r).getLast? with
      | none => simp at hr
      | some x =>
        have h1 := total_dropLast_add_last (e :: r) x hr
        have h2 := hl x hr
        simp only [total_cons] at h1
        omega
    · apply ih _ hb2
      intro x hx
      apply hl
      cases r with
      | nil => simp at hx
      | cons y ys => rw [List.getLast?_cons_cons]; exact hx

theorem addData_spec (g g' : MatchGenerator) (data : Array Byte) (cap : Nat) (st : SuffixStore) (ev : List Entry)
    (hwf : WF g) (h : g.addData data cap st = .ok (g', ev)) :
    WF g' ∧ g'.maxWindowSize = g.maxWindowSize ∧ g'.suffixIdx = 0 ∧
    (∃ kept, g.window = ev ++ kept ∧
      g'.window = shiftBases kept ++ [{ data := data, cap := cap, suffixes := st, baseOffset := 0 }]) ∧
    g'.windowSize ≤ g.maxWindowSize := by
  unfold MatchGenerator.addData at h
  split at h
  · simp at h
  · split at h
    · simp at h
    · rename_i g1 ev1 hres
      simp only [Except.ok.injEq, Prod.mk.injEq] at h
      obtain ⟨hg, hev⟩ := h
      subst hg hev
      unfold MatchGenerator.reserve at hres
      split at hres
      · simp at hres
      · split at hres
        · simp at hres
        · rename_i w ws ev2 hloop
          simp only [Except.ok.injEq, Prod.mk.injEq] at hres
          obtain ⟨hg1, hev2⟩ := hres
          subst hg1 hev2
          obtain ⟨hw, hws, hle⟩ := reserveLoop_spec _ _ _ _ _ _ _ hloop
          have hbw : BaseOk (shape w) := by
            have := hwf.base
            rw [hw, shape_append] at this
            exact baseOk_tail _ _ this
          have hsz : ws = total (shape w) := by
            have := hwf.size
            rw [hw, shape_append, total_append] at this
            omega
          refine ⟨?_, rfl, rfl, ⟨w, hw, rfl⟩, by show ws + data.size ≤ g.maxWindowSize; omega⟩
          refine ⟨?_, ?_, by show ws + data.size ≤ g.maxWindowSize; omega, rfl, ?_⟩
          · -- base offsets
            simp only [shape_append, shape_cons, shape_nil, shiftBases]
            cases hl : w.getLast? with
            | none =>
              have : w = [] := List.getLast?_eq_none_iff.mp hl
              subst this
              simp [BaseOk]
            | some last =>
              simp only []
              have hm : shape (w.map (fun e => { e with baseOffset := e.baseOffset + last.data.size }))
                  = (shape w).map (fun e => (e.1, e.2 + last.data.size)) := by
                simp [shape, List.map_map, Function.comp_def]
              rw [hm]
              apply baseOk_push _ _ _ _ hbw
              intro x hx
              simp only [shape, List.getLast?_map, hl, Option.map_some, Option.some.injEq] at hx
              rw [← hx]
          · -- window_size
            simp only [shape_append, shape_cons, shape_nil, total_append, total_cons, total_nil, shiftBases]
            cases hl : w.getLast? with
            | none => simp only []; omega
            | some last =>
              simp only []
              have hm : total (shape (w.map (fun e => { e with baseOffset := e.baseOffset + last.data.size })))
                  = total (shape w) := by
                simp [shape, total, List.map_map, Function.comp_def]
              rw [hm]; omega
          · intro l hl
            simp only [List.getLast?_concat, Option.some.injEq] at hl
            subst hl
            exact Nat.zero_le _

theorem startMatching_spec (key : KeyFn) (g g' : MatchGenerator) (seqs : List Seq) (hwf : WF g)
    (h : g.startMatching key = .ok (g', seqs)) :
    ∃ last, g.window.getLast? = some last ∧ shape g'.window = shape g.window ∧
      (∃ last', g'.window.getLast? = some last' ∧ last'.data = last.data) ∧
      g'.maxWindowSize = g.maxWindowSize ∧ WF g' ∧
      g'.suffixIdx = last.data.size ∧ Parse last.data (shape g.window) g.suffixIdx seqs :=
  startLoop_spec key _ g g' seqs hwf h

end Zstd.Proofs.MG
