import Zstd.Proofs.BlkWF
import Zstd.Proofs.BlkFseSpec
import Zstd.Proofs.BlkFseRead
/-
FSE tables of the block decoder: what `FSETable::build_decoder` / `build_from_probabilities`
(`fse_decoder.rs`) establish, in the vocabulary of `Proofs/BlkWF`.

In `Proofs/BlkFseSpec` (no reader involved):
  1. `readDescription_valid` (+ `readDescription_validDist`)
  2. `buildCore_entries` (+ `buildCore_ok`)
  6. `buildFromProbabilities_ll`, `_of`, `_ml` (+ the general `buildFromProbabilities_built`)
  7. `specFseOK`
In `Proofs/BlkFseRead`: `readProbabilities_no_fault`, `readProbabilities_maxSymbol`,
  `buildDecodingTable_maxSymbol`.
Here:
  3. `buildDecoder_no_fault`   `build_decoder` reaches no panic site on byte input
  4. `buildDecoder_ok`         on `Ok(n)` the table is `FseBuilt`, `max_symbol` is kept, `n ≤ |src|`
  5. `buildDecoder_maxSymbol`  `max_symbol` is kept on every outcome
-/
namespace Zstd.Proofs.Blk
open Zstd Zstd.Model Zstd.Model.Fse
open Zstd.Proofs.BitIO (Bytes)

/-- when `read_probabilities` succeeds (byte input, `max_log ≤ 9`, `max_symbol ≤ 255`),
`build_decoding_table` succeeds too and leaves a built table -/
theorem buildDecoder_of_read_ok (t t1 : DTable) (src : Array Nat) (maxLog n : Nat)
    (hb : Bytes src.toList) (hml : maxLog ≤ 9) (hms : t.maxSymbol ≤ 255)
    (hr : ({ t with accuracyLog := 0 } : DTable).readProbabilities src maxLog = (t1, .ok n)) :
    ∃ dec ctr, t.buildDecoder src maxLog = ({ t1 with decode := dec, symbolCounter := ctr }, .ok n) ∧
      FseBuilt maxLog { t1 with decode := dec, symbolCounter := ctr } ∧
      t1.maxSymbol = t.maxSymbol ∧ n ≤ src.size := by
  have hspec := Zstd.Proofs.FseReadDesc.fse_readProbabilities_complete src hb _ maxLog hr
  have hms1 : t1.maxSymbol = t.maxSymbol := by
    have := readProbabilities_maxSymbol { t with accuracyLog := 0 } src maxLog
    rw [hr] at this
    exact this
  have hspec' : Spec.Fse.readDescription src.toList maxLog t.maxSymbol
      = some (t1.accuracyLog, t1.probs.toList, n) := hspec
  have hv := readDescription_validDist hml hms hspec'
  obtain ⟨h5, hle, hlen, _, _, hused⟩ := readDescription_valid hspec'
  obtain ⟨dec, ctr, hbuild, _, hsz, hent⟩ := buildCore_ok (maxSymbol := t1.maxSymbol) hv (by omega)
  rw [Array.toArray_toList] at hbuild
  refine ⟨dec, ctr, ?_, ⟨by show 1 ≤ t1.accuracyLog; omega, hle, hsz, hent⟩, hms1, by simpa using hused⟩
  unfold DTable.buildDecoder
  simp only [hr]
  unfold DTable.buildDecodingTable
  simp only [hbuild]

/-- **3.** `build_decoder` reaches no panic site on byte input (`max_log ≤ 9`, `max_symbol ≤ 255`:
all callers — 9/9/8 with 35/52/31 for the sequence tables, 6 with 255 for Huffman weights) -/
theorem buildDecoder_no_fault (t : DTable) (src : Array Nat) (maxLog : Nat) (hb : Bytes src.toList)
    (hml : maxLog ≤ 9) (hms : t.maxSymbol ≤ 255) (f : Fault) :
    (t.buildDecoder src maxLog).2 ≠ .error (.fault f) := by
  cases hr : ({ t with accuracyLog := 0 } : DTable).readProbabilities src maxLog with
  | mk t1 r =>
    cases r with
    | error e =>
      have hnf := readProbabilities_no_fault { t with accuracyLog := 0 } src maxLog hb f
      rw [hr] at hnf
      unfold DTable.buildDecoder
      simp only [hr]
      exact hnf
    | ok n =>
      obtain ⟨dec, ctr, h, _⟩ := buildDecoder_of_read_ok t t1 src maxLog n hb hml hms hr
      rw [h]
      simp

/-- **4.** what a successful `build_decoder` leaves behind -/
theorem buildDecoder_ok (t t' : DTable) (src : Array Nat) (maxLog n : Nat) (hb : Bytes src.toList)
    (hml : maxLog ≤ 9) (hms : t.maxSymbol ≤ 255) (h : t.buildDecoder src maxLog = (t', .ok n)) :
    FseBuilt maxLog t' ∧ t'.maxSymbol = t.maxSymbol ∧ n ≤ src.size := by
  cases hr : ({ t with accuracyLog := 0 } : DTable).readProbabilities src maxLog with
  | mk t1 r =>
    cases r with
    | error e =>
      unfold DTable.buildDecoder at h
      simp only [hr] at h
      simp at h
    | ok n1 =>
      obtain ⟨dec, ctr, h1, hbuilt, hmax, hn⟩ := buildDecoder_of_read_ok t t1 src maxLog n1 hb hml hms hr
      rw [h1] at h
      simp only [Prod.mk.injEq, Except.ok.injEq] at h
      obtain ⟨rfl, rfl⟩ := h
      exact ⟨hbuilt, hmax, hn⟩

/-- **5.** `build_decoder` never changes `max_symbol` (any input, any outcome) -/
theorem buildDecoder_maxSymbol (t : DTable) (src : Array Nat) (maxLog : Nat) :
    (t.buildDecoder src maxLog).1.maxSymbol = t.maxSymbol := by
  have h1 := readProbabilities_maxSymbol { t with accuracyLog := 0 } src maxLog
  unfold DTable.buildDecoder
  simp only []
  cases hr : ({ t with accuracyLog := 0 } : DTable).readProbabilities src maxLog with
  | mk t1 r =>
    rw [hr] at h1
    cases r with
    | error e => exact h1
    | ok n =>
      simp only []
      have h2 := buildDecodingTable_maxSymbol t1
      cases hb : t1.buildDecodingTable with
      | mk t2 r2 =>
        rw [hb] at h2
        cases r2 with
        | error e => simp only []; exact h2.trans h1
        | ok u => simp only []; exact h2.trans h1

/-- the error outcomes of `build_decoder` are exactly those of `read_probabilities`: the accuracy log
it leaves is `0` (nothing read) or in `[5, 20]`, never a built table's -/
theorem buildDecoder_error_is_read_error (t t' : DTable) (src : Array Nat) (maxLog : Nat) (e : Err)
    (hb : Bytes src.toList) (hml : maxLog ≤ 9) (hms : t.maxSymbol ≤ 255)
    (h : t.buildDecoder src maxLog = (t', .error e)) :
    ({ t with accuracyLog := 0 } : DTable).readProbabilities src maxLog = (t', .error e) := by
  cases hr : ({ t with accuracyLog := 0 } : DTable).readProbabilities src maxLog with
  | mk t1 r =>
    cases r with
    | error e1 =>
      unfold DTable.buildDecoder at h
      simp only [hr] at h
      exact h
    | ok n1 =>
      obtain ⟨dec, ctr, h1, _⟩ := buildDecoder_of_read_ok t t1 src maxLog n1 hb hml hms hr
      rw [h1] at h
      simp at h

/-! ### non-vacuity -/

/-- a real description (the predefined offset distribution as `write_table` of the encoder model emits
it, 14 bytes) builds; `buildDecoder_ok` then says the table is `FseBuilt` -/
example : FseBuilt 8 ((DTable.new 31).buildDecoder #[32, 132, 16, 66, 102, 70, 68, 68, 68, 68, 36, 73, 2, 0] 8).1 := by
  have hb : Bytes (#[32, 132, 16, 66, 102, 70, 68, 68, 68, 68, 36, 73, 2, 0] : Array Nat).toList := by
    intro b hb; simp at hb; omega
  have h2 : ((DTable.new 31).buildDecoder #[32, 132, 16, 66, 102, 70, 68, 68, 68, 68, 36, 73, 2, 0] 8).2 = .ok 14 := by
    decide +kernel
  exact (buildDecoder_ok (DTable.new 31) _ _ 8 14 hb (by decide) (by decide) (Prod.ext rfl h2)).1

/-- an error outcome exists too (truncated description) and is not a fault -/
example : ((DTable.new 31).buildDecoder #[32, 132] 8).2 = .error (.getBitsNotEnough 5 2) := by decide +kernel

/-! ### caution for the composition: error outcomes do not preserve `FseWF` -/

/-- `read_probabilities` stores the new accuracy log before it reads (or rejects) anything else and
`build_decoder` returns early, so after an `Err` the table holds the NEW accuracy log next to the OLD
`decode` vector: here a built 32-entry offsets table, then a one-byte description announcing `AL = 6`.
The table left behind is not `FseWF` (`accuracy_log = 6`, 32 entries); a later `init_state` on it would
read 6 bits and index up to 63.  Harmless as long as an error aborts the frame and the scratch is reset
before reuse — the invariant `FseWF` can only be claimed on the `Ok` path. -/
theorem buildDecoder_error_breaks_wf :
    ∃ (t : DTable) (src : Array Nat), FseBuilt 8 t ∧ Bytes src.toList ∧
      (t.buildDecoder src 8).2 = .error (.getBitsNotEnough 7 4) ∧ ¬ FseWF 8 (t.buildDecoder src 8).1 := by
  obtain ⟨t, ht, hbuilt, _⟩ := buildFromProbabilities_of (DTable.new Gen.maxOffsetCode) rfl
  have ht' : t = ((DTable.new Gen.maxOffsetCode).buildFromProbabilities Gen.ofDefaultAccLog Gen.ofDistDec).1 := by
    rw [ht]
  refine ⟨t, #[0x01], hbuilt, by intro b hb; simp at hb; omega, ?_, ?_⟩
  · rw [ht']; decide +kernel
  · have h1 : (t.buildDecoder #[0x01] 8).1.accuracyLog = 6 := by rw [ht']; decide +kernel
    have h2 : (t.buildDecoder #[0x01] 8).1.decode.size = 32 := by rw [ht']; decide +kernel
    rintro (h | h)
    · omega
    · have := h.size
      rw [h1, h2] at this
      omega

end Zstd.Proofs.Blk
