import Zstd.Proofs.HufEnc
/-
`build_from_counts`: the weights handed to `build_from_weights` are the shape weights scattered
over the symbols that occur (zeros elsewhere), so their Kraft sum is the shape's.
-/
namespace Zstd.Proofs.Huf
open Zstd Zstd.Model.Huf

def mass1 (w : Nat) : Nat := if w > 0 then 2 ^ (w - 1) else 0

theorem setNat_ok : ∀ (out : List Nat) (i v : Nat), i < out.length →
    ∃ out', setNat out i v = .ok out' ∧ out'.length = out.length ∧ out'[i]? = some v ∧
      (∀ j, j ≠ i → out'[j]? = out[j]?) ∧ weightSum out' + mass1 (out[i]?.getD 0) = weightSum out + mass1 v
  | [], i, v, h => by simp at h
  | c :: cs, 0, v, _ => ⟨v :: cs, rfl, rfl, rfl, fun j hj => by
      cases j with
      | zero => exact absurd rfl hj
      | succ j => rfl, by simp [weightSum, mass1]; omega⟩
  | c :: cs, i + 1, v, h => by
    obtain ⟨cs', h1, h2, h3, h4, h5⟩ := setNat_ok cs i v (by simpa using h)
    refine ⟨c :: cs', by simp [setNat, h1], by simp [h2], by simpa using h3, ?_, ?_⟩
    · intro j hj
      cases j with
      | zero => rfl
      | succ j => simpa using h4 j (by omega)
    · simp only [weightSum, List.getElem?_cons_succ]; omega

/-- the scatter loop: distinct in-range indices pointing at zeros, as many "occurs" flags as weights -/
theorem scatter_spec : ∀ (order : List (Nat × Bool)) (ws out : List Nat),
    order.Pairwise (fun a b => a.1 ≠ b.1) → (∀ p ∈ order, p.1 < out.length ∧ out[p.1]? = some 0) →
    (order.filter (fun p => !p.2)).length = ws.length →
    ∃ wd, scatter order ws out = .ok wd ∧ wd.length = out.length ∧
      weightSum wd = weightSum out + weightSum ws ∧ (∀ w ∈ wd, w ∈ out ∨ w ∈ ws ∨ w = 0)
  | [], ws, out, _, _, hcnt => by
    have : ws = [] := by simpa using hcnt.symm
    subst this
    exact ⟨out, rfl, rfl, by simp [weightSum], fun w hw => Or.inl hw⟩
  | (idx, true) :: rest, ws, out, hnd, hin, hcnt => by
    rw [List.pairwise_cons] at hnd
    obtain ⟨hi1, hi2⟩ := hin (idx, true) List.mem_cons_self
    obtain ⟨out', s1, s2, s3, s4, s5⟩ := setNat_ok out idx 0 hi1
    simp only at hi2
    rw [hi2] at s5
    obtain ⟨wd, r1, r2, r3, r4⟩ := scatter_spec rest ws out' hnd.2
      (fun p hp => by
        obtain ⟨a, b⟩ := hin p (List.mem_cons_of_mem _ hp)
        refine ⟨by rw [s2]; exact a, ?_⟩
        rw [s4 p.1 (fun h => hnd.1 p hp h.symm)]; exact b)
      (by simpa using hcnt)
    refine ⟨wd, by simp [scatter, s1, r1], by rw [r2, s2], ?_, ?_⟩
    · rw [r3]; simp [mass1] at s5; omega
    · intro w hw
      rcases r4 w hw with h | h | h
      · rcases List.mem_iff_getElem?.mp h with ⟨j, hj⟩
        by_cases hji : j = idx
        · subst hji; rw [s3] at hj; simp at hj; exact Or.inr (Or.inr hj.symm)
        · rw [s4 j hji] at hj; exact Or.inl (List.mem_iff_getElem?.mpr ⟨j, hj⟩)
      · exact Or.inr (Or.inl h)
      · exact Or.inr (Or.inr h)
  | (idx, false) :: rest, [], out, _, _, hcnt => by simp at hcnt
  | (idx, false) :: rest, w :: ws, out, hnd, hin, hcnt => by
    rw [List.pairwise_cons] at hnd
    obtain ⟨hi1, hi2⟩ := hin (idx, false) List.mem_cons_self
    obtain ⟨out', s1, s2, s3, s4, s5⟩ := setNat_ok out idx w hi1
    simp only at hi2
    rw [hi2] at s5
    obtain ⟨wd, r1, r2, r3, r4⟩ := scatter_spec rest ws out' hnd.2
      (fun p hp => by
        obtain ⟨a, b⟩ := hin p (List.mem_cons_of_mem _ hp)
        refine ⟨by rw [s2]; exact a, ?_⟩
        rw [s4 p.1 (fun h => hnd.1 p hp h.symm)]; exact b)
      (by simpa using hcnt)
    refine ⟨wd, by simp [scatter, s1, r1], by rw [r2, s2], ?_, ?_⟩
    · rw [r3]; simp only [weightSum, gt_iff_lt]; simp only [mass1, gt_iff_lt, Option.getD_some, Nat.lt_irrefl, if_false, Nat.add_zero] at s5; omega
    · intro x hx
      rcases r4 x hx with h | h | h
      · rcases List.mem_iff_getElem?.mp h with ⟨j, hj⟩
        by_cases hji : j = idx
        · subst hji; rw [s3] at hj; simp at hj; exact Or.inr (Or.inl (by rw [← hj]; exact List.mem_cons_self))
        · rw [s4 j hji] at hj; exact Or.inl (List.mem_iff_getElem?.mpr ⟨j, hj⟩)
      · exact Or.inr (Or.inl (List.mem_cons_of_mem _ h))
      · exact Or.inr (Or.inr h)

theorem zipIdx_snd_pairwise (l : List Nat) (k : Nat) :
    (l.zipIdx k).Pairwise (fun a b => a.2 ≠ b.2) ∧ ∀ p ∈ l.zipIdx k, k ≤ p.2 ∧ p.2 < k + l.length := by
  induction l generalizing k with
  | nil => simp
  | cons x xs ih =>
    obtain ⟨h1, h2⟩ := ih (k + 1)
    rw [List.zipIdx_cons]
    refine ⟨List.pairwise_cons.mpr ⟨?_, h1⟩, ?_⟩
    · intro p hp; have := h2 p hp; simp only; omega
    · intro p hp
      rcases List.mem_cons.mp hp with rfl | hp
      · simp
      · have := h2 p hp; simp only [List.length_cons]; omega

theorem filter_not_length {α : Type} (l : List α) (f : α → Bool) :
    (l.filter fun p => !f p).length = l.length - (l.filter f).length := by
  induction l with
  | nil => rfl
  | cons x xs ih =>
    have hle : (xs.filter f).length ≤ xs.length := List.length_filter_le _ _
    simp only [List.filter_cons]
    cases f x <;> simp [ih] <;> omega

theorem rankOrder_props (counts : List Nat) :
    (rankOrder counts).Pairwise (fun a b => a.1 ≠ b.1) ∧ (∀ p ∈ rankOrder counts, p.1 < counts.length) ∧
      (rankOrder counts).length = counts.length := by
  unfold rankOrder
  have hperm := stableSort_perm (fun (a b : Nat × Nat) => decide (a.1 ≤ b.1)) counts.zipIdx
  obtain ⟨z1, z2⟩ := zipIdx_snd_pairwise counts 0
  refine ⟨?_, ?_, ?_⟩
  · rw [List.pairwise_map]
    exact (List.Perm.pairwise_iff (fun h => Ne.symm h) hperm).mpr z1
  · intro p hp
    obtain ⟨q, hq, rfl⟩ := List.mem_map.mp hp
    have := z2 q (hperm.mem_iff.mp hq)
    simp only; omega
  · rw [List.length_map, hperm.length_eq]; simp

/-- where the scatter loop puts what: a symbol that does not occur gets weight 0, a symbol that
occurs gets one of the shape weights, and every shape weight is used -/
theorem scatter_where : ∀ (order : List (Nat × Bool)) (ws out : List Nat),
    order.Pairwise (fun a b => a.1 ≠ b.1) → (∀ p ∈ order, p.1 < out.length) →
    (order.filter (fun p => !p.2)).length = ws.length →
    ∀ wd, scatter order ws out = .ok wd →
      (∀ p ∈ order, p.2 = true → wd[p.1]? = some 0) ∧
      (∀ p ∈ order, p.2 = false → ∃ w ∈ ws, wd[p.1]? = some w) ∧
      (∀ w ∈ ws, w ∈ wd) ∧ (∀ j, (∀ p ∈ order, p.1 ≠ j) → wd[j]? = out[j]?)
  | [], ws, out, _, _, hcnt, wd, h => by
    have : ws = [] := by simpa using hcnt.symm
    subst this
    simp only [scatter, Except.ok.injEq] at h
    subst h
    exact ⟨fun p hp _ => (by cases hp), fun p hp _ => (by cases hp), fun w hw => (by cases hw), fun _ _ => rfl⟩
  | (idx, true) :: rest, ws, out, hnd, hin, hcnt, wd, h => by
    rw [List.pairwise_cons] at hnd
    have hi1 := hin (idx, true) List.mem_cons_self
    obtain ⟨out', s1, s2, s3, s4, _⟩ := setNat_ok out idx 0 hi1
    simp only [scatter, s1] at h
    obtain ⟨r1, r2, r3, r4⟩ := scatter_where rest ws out' hnd.2
      (fun p hp => by rw [s2]; exact hin p (List.mem_cons_of_mem _ hp)) (by simpa using hcnt) wd h
    refine ⟨?_, ?_, r3, ?_⟩
    · intro p hp hf
      rcases List.mem_cons.mp hp with rfl | hp
      · rw [r4 idx (fun q hq => (hnd.1 q hq).symm)]; exact s3
      · exact r1 p hp hf
    · intro p hp hf
      rcases List.mem_cons.mp hp with rfl | hp
      · cases hf
      · exact r2 p hp hf
    · intro j hj
      rw [r4 j (fun q hq => hj q (List.mem_cons_of_mem _ hq))]
      exact s4 j (fun h => hj (idx, true) List.mem_cons_self h.symm)
  | (idx, false) :: rest, [], out, _, _, hcnt, _, _ => by simp at hcnt
  | (idx, false) :: rest, w :: ws, out, hnd, hin, hcnt, wd, h => by
    rw [List.pairwise_cons] at hnd
    have hi1 := hin (idx, false) List.mem_cons_self
    obtain ⟨out', s1, s2, s3, s4, _⟩ := setNat_ok out idx w hi1
    simp only [scatter, s1] at h
    obtain ⟨r1, r2, r3, r4⟩ := scatter_where rest ws out' hnd.2
      (fun p hp => by rw [s2]; exact hin p (List.mem_cons_of_mem _ hp)) (by simpa using hcnt) wd h
    have hidx : wd[idx]? = some w := by
      rw [r4 idx (fun q hq => (hnd.1 q hq).symm)]; exact s3
    refine ⟨?_, ?_, ?_, ?_⟩
    · intro p hp hf
      rcases List.mem_cons.mp hp with rfl | hp
      · cases hf
      · exact r1 p hp hf
    · intro p hp hf
      rcases List.mem_cons.mp hp with rfl | hp
      · exact ⟨w, List.mem_cons_self, hidx⟩
      · obtain ⟨x, hx, hx'⟩ := r2 p hp hf
        exact ⟨x, List.mem_cons_of_mem _ hx, hx'⟩
    · intro x hx
      rcases List.mem_cons.mp hx with rfl | hx
      · exact List.mem_iff_getElem?.mpr ⟨idx, hidx⟩
      · exact r3 x hx
    · intro j hj
      rw [r4 j (fun q hq => hj q (List.mem_cons_of_mem _ hq))]
      exact s4 j (fun h => hj (idx, false) List.mem_cons_self h.symm)

theorem mem_zipIdx_of_getElem (l : List Nat) (k i : Nat) (h : i < l.length) : (l[i], k + i) ∈ l.zipIdx k := by
  induction l generalizing k i with
  | nil => simp at h
  | cons x xs ih =>
    rw [List.zipIdx_cons]
    cases i with
    | zero => simp
    | succ i =>
      have := ih (k + 1) i (by simpa using h)
      have e : k + 1 + i = k + (i + 1) := by omega
      rw [e] at this
      simpa using this

theorem rankOrder_mem (counts : List Nat) (i : Nat) (h : i < counts.length) :
    (i, counts[i] == 0) ∈ rankOrder counts := by
  unfold rankOrder
  have hperm := stableSort_perm (fun (a b : Nat × Nat) => decide (a.1 ≤ b.1)) counts.zipIdx
  have := mem_zipIdx_of_getElem counts 0 i h
  rw [Nat.zero_add] at this
  exact List.mem_map.mpr ⟨(counts[i], i), hperm.mem_iff.mpr this, rfl⟩

theorem weightSum_replicate_zero (k : Nat) : weightSum (List.replicate k 0) = 0 := by
  induction k with
  | zero => rfl
  | succ k ih => simp [List.replicate_succ, weightSum, ih]

theorem weightSum_ge_of_mem {ws : List Nat} (h1 : ∀ w ∈ ws, 1 ≤ w) {w : Nat} (hw : w ∈ ws) :
    2 ^ (w - 1) + (ws.length - 1) ≤ weightSum ws := by
  have hlen : ∀ l : List Nat, (∀ w ∈ l, 1 ≤ w) → l.length ≤ weightSum l := by
    intro l hl
    induction l with
    | nil => simp [weightSum]
    | cons x xs ih =>
      have hx : 1 ≤ x := hl x List.mem_cons_self
      have := ih (fun w hw => hl w (List.mem_cons_of_mem _ hw))
      have hp := Nat.two_pow_pos (x - 1)
      simp only [weightSum, List.length_cons]
      rw [if_pos (by omega)]; omega
  induction ws with
  | nil => cases hw
  | cons x xs ih =>
    have hx : 1 ≤ x := h1 x List.mem_cons_self
    have hxs : ∀ w ∈ xs, 1 ≤ w := fun w hw => h1 w (List.mem_cons_of_mem _ hw)
    simp only [weightSum, List.length_cons]
    rw [if_pos (by omega)]
    rcases List.mem_cons.mp hw with rfl | hw
    · have := hlen xs hxs; omega
    · have := ih hxs hw
      have hp := Nat.two_pow_pos (x - 1)
      have : 1 ≤ xs.length := List.length_pos_of_mem hw
      omega


end Zstd.Proofs.Huf
