import Zstd.Proofs.MatchNoFault
/-
Helper lemmas for C17, part 7: the driver (`MatchGeneratorDriver`): the invariant is established by
`new` and preserved by every call of the `Matcher` trait that does not panic; calls made in the
documented order do not panic.
-/
namespace Zstd.Proofs.MG
open Zstd Zstd.Model.MG

/-! ### `WF` along arbitrary histories (no assumption on the hash) -/

theorem wf_commitSpace (d d' : Driver) (space : Array Byte) (cap : Nat) (hwf : WF d.mg)
    (h : d.commitSpace space cap = .ok d') : WF d'.mg ∧ d'.mg.maxWindowSize = d.mg.maxWindowSize := by
  unfold Driver.commitSpace at h
  split at h
  · simp at h
  · rename_i g released hadd
    simp only [Except.ok.injEq] at h
    subst h
    obtain ⟨h1, h2, _⟩ := addData_spec _ _ _ _ _ _ hwf hadd
    exact ⟨h1, h2⟩

theorem wf_step (key : KeyFn) (d d' : Driver) (op : Op) (hwf : WF d.mg) (h : d.step key op = .ok d') :
    WF d'.mg ∧ d'.mg.maxWindowSize = d.mg.maxWindowSize := by
  cases op with
  | reset =>
    simp only [Driver.step, Except.ok.injEq] at h
    subst h
    exact ⟨wf_reset d.mg, rfl⟩
  | getNextSpace =>
    simp only [Driver.step, Except.ok.injEq] at h
    subst h
    unfold Driver.getNextSpace
    split <;> exact ⟨hwf, rfl⟩
  | commitSpace space cap => exact wf_commitSpace d d' space cap hwf h
  | startMatching =>
    simp only [Driver.step] at h
    split at h
    · simp at h
    · rename_i d1 seqs hs
      simp only [Except.ok.injEq] at h
      subst h
      unfold Driver.startMatching at hs
      split at hs
      · simp at hs
      · rename_i g sq hg
        simp only [Except.ok.injEq, Prod.mk.injEq] at hs
        obtain ⟨rfl, rfl⟩ := hs
        obtain ⟨_, _, _, _, hm, hwf', _, _⟩ := startMatching_spec key _ _ _ hwf hg
        exact ⟨hwf', hm⟩
  | skipMatching =>
    simp only [Driver.step] at h
    unfold Driver.skipMatching at h
    split at h
    · simp at h
    · rename_i g hg
      simp only [Except.ok.injEq] at h
      subst h
      obtain ⟨hwf', _, hm, _⟩ := skipMatching_spec key _ _ hwf hg
      exact ⟨hwf', hm⟩

theorem reachable_wf (key : KeyFn) (sl n : Nat) (d : Driver) (h : Reachable key sl n d) :
    WF d.mg ∧ d.mg.maxWindowSize = n * sl := by
  induction h with
  | init => exact ⟨wf_new _, rfl⟩
  | step op _ hs ih =>
    obtain ⟨h1, h2⟩ := wf_step key _ _ op ih.1 hs
    exact ⟨h1, by rw [h2, ih.2]⟩

/-! ### the complete invariant (needs a hash that stays inside the slot array) -/

theorem storeOk_recycle {st : SuffixStore} (h : StoreOk st) : StoreOk st.recycle ∧ StoreEmpty st.recycle := by
  refine ⟨⟨h.1, by simp [SuffixStore.recycle]; exact h.2⟩, ?_⟩
  intro k hk
  simp [SuffixStore.recycle]

theorem pool_recycle (d : Driver) (released : List Entry)
    (hp : ∀ st ∈ d.suffixPool, StoreOk st ∧ StoreEmpty st) (hr : ∀ e ∈ released, StoreOk e.suffixes) :
    ∀ st ∈ (d.recycle released).suffixPool, StoreOk st ∧ StoreEmpty st := by
  intro st hst
  simp only [Driver.recycle, List.mem_append, List.mem_map] at hst
  rcases hst with hst | ⟨e, he, rfl⟩
  · exact hp st hst
  · exact storeOk_recycle (hr e he)

theorem inv_new (sl n : Nat) : Inv (Driver.new sl n) := by
  refine ⟨wf_new _, ⟨?_, ?_⟩, ?_⟩
  · intro e he; simp [Driver.new, MatchGenerator.new] at he
  · intro l hl; simp [Driver.new, MatchGenerator.new] at hl
  · intro st hst; simp [Driver.new] at hst

theorem inv_reset (d : Driver) (h : Inv d) : Inv d.reset := by
  have hpool := pool_recycle { d with mg := d.mg.reset.1 } d.mg.window h.pool (sok_entry_storeOk h.sok)
  refine ⟨wf_reset d.mg, ⟨?_, ?_⟩, hpool⟩
  · intro e he; simp [Driver.reset, Driver.recycle, MatchGenerator.reset] at he
  · intro l hl; simp [Driver.reset, Driver.recycle, MatchGenerator.reset] at hl

theorem inv_getNextSpace (d : Driver) (h : Inv d) : Inv d.getNextSpace.1 := by
  unfold Driver.getNextSpace
  split
  · exact ⟨h.wf, h.sok, h.pool⟩
  · exact h

theorem takeStore_mem (r : Nat) : ∀ (pool : List SuffixStore) (st : SuffixStore) (rest : List SuffixStore),
    takeStore r pool = some (st, rest) → st ∈ pool ∧ ∀ x ∈ rest, x ∈ pool := by
  intro pool
  induction pool with
  | nil => intro st rest h; simp [takeStore] at h
  | cons p ps ih =>
    intro st rest h
    unfold takeStore at h
    split at h
    · simp only [Option.some.injEq, Prod.mk.injEq] at h
      obtain ⟨rfl, rfl⟩ := h
      exact ⟨by simp, fun x hx => by simp [hx]⟩
    · split at h
      · simp at h
      · rename_i c rest' hrec
        simp only [Option.some.injEq, Prod.mk.injEq] at h
        obtain ⟨rfl, rfl⟩ := h
        obtain ⟨h1, h2⟩ := ih _ _ hrec
        refine ⟨by simp [h1], ?_⟩
        intro x hx
        simp only [List.mem_cons] at hx
        rcases hx with hx | hx
        · simp [hx]
        · simp [h2 x hx]

theorem storeOk_withCapacity (c : Nat) (hc : 2 ≤ c) :
    StoreOk (SuffixStore.withCapacity c) ∧ StoreEmpty (SuffixStore.withCapacity c) := by
  refine ⟨⟨?_, by simp [SuffixStore.withCapacity]; omega⟩, ?_⟩
  · simp only [SuffixStore.withCapacity]
    have : 1 ≤ Nat.log2 c := (Nat.le_log2 (by omega)).mpr (by simpa using hc)
    exact this
  · intro k hk
    simp [SuffixStore.withCapacity]

theorem commitSpace_ok (d : Driver) (space : Array Byte) (cap : Nat) (h : Inv d)
    (hp : d.mg.processed = true) (hd : space.size ≤ d.mg.maxWindowSize) :
    ∃ d', d.commitSpace space cap = .ok d' ∧ Inv d' := by
  unfold Driver.commitSpace
  -- the store that is chosen is OK and empty, what stays in the pool is part of the old pool
  have hsel : (StoreOk (selectStore (requestedStoreSize space.size) d.suffixPool).1 ∧
      StoreEmpty (selectStore (requestedStoreSize space.size) d.suffixPool).1) ∧
      ∀ x ∈ (selectStore (requestedStoreSize space.size) d.suffixPool).2, x ∈ d.suffixPool := by
    unfold selectStore
    split
    · rename_i st rest ht
      obtain ⟨h1, h2⟩ := takeStore_mem _ _ _ _ ht
      exact ⟨h.pool _ h1, h2⟩
    · refine ⟨storeOk_withCapacity _ ?_, fun x hx => hx⟩
      have : (2 : Nat) ≤ Zstd.Gen.suffixStoreMinCapacity := by decide
      exact Nat.le_trans this (Nat.le_max_left _ _)
  generalize (selectStore (requestedStoreSize space.size) d.suffixPool) = sp at hsel ⊢
  obtain ⟨suffixes, pool⟩ := sp
  obtain ⟨⟨hs1, hs2⟩, hpool⟩ := hsel
  simp only [] at hs1 hs2 hpool ⊢
  obtain ⟨g', ev, hadd, hsok, hev⟩ := addData_ok d.mg space cap suffixes h.wf h.sok hp hd hs1 hs2
  simp only [hadd]
  refine ⟨_, rfl, ?_⟩
  have hwf' := (addData_spec _ _ _ _ _ _ h.wf hadd).1
  refine ⟨hwf', hsok, ?_⟩
  exact pool_recycle { d with suffixPool := pool, mg := g' } ev (fun st hst => h.pool st (hpool st hst)) hev

/-- if `commit_space` did not panic its two assertions held -/
theorem commitSpace_asserts (d d' : Driver) (space : Array Byte) (cap : Nat)
    (h : d.commitSpace space cap = .ok d') : d.mg.processed = true ∧ space.size ≤ d.mg.maxWindowSize := by
  unfold Driver.commitSpace at h
  split at h
  · simp at h
  · rename_i g released hadd
    unfold MatchGenerator.addData at hadd
    split at hadd
    · simp at hadd
    · rename_i hproc
      split at hadd
      · simp at hadd
      · rename_i g1 ev hres
        unfold MatchGenerator.reserve at hres
        split at hres
        · simp at hres
        · rename_i hassert
          simp only [Zstd.Gen.mgReserveAssert, Bool.not_eq_true', decide_eq_false_iff_not, ge_iff_le, Nat.not_le,
            Nat.not_lt] at hassert
          refine ⟨by simpa using hproc, ?_⟩
          simpa [Zstd.Gen.mgReserveAssert] using hassert

theorem inv_step (key : KeyFn) (hk : KeyOk key) (d d' : Driver) (op : Op) (hinv : Inv d)
    (h : d.step key op = .ok d') : Inv d' := by
  cases op with
  | reset =>
    simp only [Driver.step, Except.ok.injEq] at h
    subst h
    exact inv_reset d hinv
  | getNextSpace =>
    simp only [Driver.step, Except.ok.injEq] at h
    subst h
    exact inv_getNextSpace d hinv
  | commitSpace space cap =>
    simp only [Driver.step] at h
    obtain ⟨h1, h2⟩ := commitSpace_asserts d d' space cap h
    obtain ⟨d'', e, hi⟩ := commitSpace_ok d space cap hinv h1 h2
    rw [h] at e
    cases e
    exact hi
  | startMatching =>
    simp only [Driver.step] at h
    split at h
    · simp at h
    · rename_i d1 seqs hs
      simp only [Except.ok.injEq] at h
      subst h
      unfold Driver.startMatching at hs
      split at hs
      · simp at hs
      · rename_i g sq hg
        simp only [Except.ok.injEq, Prod.mk.injEq] at hs
        obtain ⟨rfl, rfl⟩ := hs
        have hne : d.mg.window ≠ [] := by
          obtain ⟨last, hl, _⟩ := startMatching_spec key _ _ _ hinv.wf hg
          intro hnil
          rw [hnil] at hl
          simp at hl
        obtain ⟨g', seqs', e, hsok⟩ := startMatching_ok key hk d.mg hinv.wf hinv.sok hne
        rw [hg] at e
        cases e
        obtain ⟨_, _, _, _, _, hwf', _, _⟩ := startMatching_spec key _ _ _ hinv.wf hg
        exact ⟨hwf', hsok, hinv.pool⟩
  | skipMatching =>
    simp only [Driver.step] at h
    unfold Driver.skipMatching at h
    split at h
    · simp at h
    · rename_i g hg
      simp only [Except.ok.injEq] at h
      subst h
      have hne : d.mg.window ≠ [] := by
        obtain ⟨_, _, _, last', hl, _⟩ := skipMatching_spec key _ _ hinv.wf hg
        intro hnil
        unfold MatchGenerator.skipMatching at hg
        rw [hnil] at hg
        simp at hg
      obtain ⟨g', e, hsok⟩ := skipMatching_ok key hk d.mg hinv.wf hinv.sok hne
      rw [hg] at e
      cases e
      exact ⟨(skipMatching_spec key _ _ hinv.wf hg).1, hsok, hinv.pool⟩

theorem reachable_inv (key : KeyFn) (hk : KeyOk key) (sl n : Nat) (d : Driver) (h : Reachable key sl n d) : Inv d := by
  induction h with
  | init => exact inv_new _ _
  | step op _ hs ih => exact inv_step key hk _ _ op ih hs

/-! ### the hash of the code stays inside the slot array -/

theorem realKey_ok : KeyOk realKey := by
  intro lenLog n kb h1 h2 h3
  have h5 : kb.length = 5 := h3
  match kb, h5 with
  | [b0, b1, b2, b3, b4], _ =>
    unfold realKey
    have hs : Zstd.Gen.keyShifts = [24, 32, 40, 48, 56] := rfl
    rw [hs]
    have : lenLog ≠ 0 := by omega
    simp only [this, if_false]
    exact Nat.mod_lt _ h2

end Zstd.Proofs.MG
