import Zstd.Model.FrameFaithful
import Zstd.Proofs.FrameDecoderConcat
import Zstd.Proofs.FrameDecoderNoFault
import Zstd.Proofs.DictCopy
import Zstd.Proofs.BlockNoFault
import Zstd.Proofs.BlockRefines
import Zstd.Proofs.BlkLitFull
/-
Instance B of the frame-level model: the faithful block decoder `Blk.decompressBlock`
(`instBlockDecFaithful`, Model/FrameFaithful.lean) satisfies the frame level's contracts.

* `BlockContract Blk.Scratch` — PROVED here, unconditionally (`instBlockContractFaithful`): only
  appends, ≤ 128 KiB per block on every outcome, counter, twin.  Hence every theorem of Props
  C05 / C06 (schedule independence part) / C08 / C10 and the generic parts of C01 C03 C07 C09 hold
  for `DecB = Decoder Blk.Scratch`, the decoder the drivers run.
* `NoFaultContract` and `RefinesSpec` rest on the block-level theorems of Proofs/BlockNoFault.lean
  and Proofs/BlockRefines.lean + Proofs/BlkLitFull.lean.  The interface is stated HERE, in one place,
  as the two named obligations `NoFaultObligation` and `RefinesObligation` (in the very shape of
  those files' final theorems); `noFaultFaithful` / `refinesSpecFaithful` turn them into the
  contracts; the last section DISCHARGES both (`noFaultObligation_proved`,
  `refinesObligation_proved`) and registers the instances `instNoFaultFaithful`,
  `instRefinesSpecFaithful`.  Nothing is open: instance B satisfies all three contracts.
-/
set_option linter.unusedSectionVars false
namespace Zstd.Model.Blk
open Zstd Zstd.Model Zstd.Proofs.DictCopy
open Zstd.Proofs.BitIO (Bytes)

/-! ### the stage factorisation -/

theorem decompressBody_eq_stage (s : Scratch) (b : DBuf) (sec : Hdr.LitSection) (raw : List Nat) (upper : Nat) :
    decompressBody s b sec raw upper = (stageBody s sec raw upper).apply b := by
  unfold decompressBody stageBody
  by_cases h1 : raw.length < upper
  · rw [if_pos h1, if_pos h1]; rfl
  · rw [if_neg h1, if_neg h1]
    simp only []
    generalize Huf.decodeLiterals _ s.huf (raw.take upper) [] = r
    obtain ⟨huf, r⟩ := r
    cases r with
    | error e => cases e <;> rfl
    | ok p =>
      obtain ⟨lits, used⟩ := p
      simp only []
      by_cases h2 : sec.regen ≠ lits.length
      · rw [if_pos h2, if_pos h2]; rfl
      · rw [if_neg h2, if_neg h2]
        by_cases h3 : used ≠ upper
        · rw [if_pos h3, if_pos h3]; rfl
        · rw [if_neg h3, if_neg h3]
          generalize parseSeqHeader (raw.drop upper) = r
          cases r with
          | error e => rfl
          | ok p =>
            obtain ⟨n, modes, shLen⟩ := p
            simp only []
            by_cases h4 : n ≠ 0
            · rw [if_pos h4, if_pos h4]
              generalize decodeSequences n modes _ s.fse = r
              obtain ⟨fse, r⟩ := r
              cases r with
              | error e => cases e <;> rfl
              | ok seqs => rfl
            · rw [if_neg h4, if_neg h4]
              by_cases h5 : (!((raw.drop upper).drop shLen).isEmpty) = true
              · rw [if_pos h5, if_pos h5]; rfl
              · rw [if_neg h5, if_neg h5]; rfl

/-- `decompress_block` = the buffer-independent stage, then one buffer operation -/
theorem decompressBlock_eq_stage (content : List Nat) (s : Scratch) (b : DBuf) :
    decompressBlock content s b = (stage content s).apply b := by
  unfold decompressBlock stage
  generalize Hdr.parseLitHeader Hdr.LitSection.new content = r
  cases r with
  | error e => cases e <;> rfl
  | ok p =>
    obtain ⟨sec, hdrLen⟩ := p
    simp only []
    by_cases h1 : sec.regen > Gen.maxBlockSize
    · rw [if_pos h1, if_pos h1]; rfl
    · rw [if_neg h1, if_neg h1]
      generalize upperLimit sec = r
      cases r with
      | error e => rfl
      | ok upper => exact decompressBody_eq_stage _ _ _ _ _

theorem stageBody_push {s : Scratch} {sec : Hdr.LitSection} {raw : List Nat} {upper : Nat} {s' : Scratch}
    {lits : List Nat} (h : stageBody s sec raw upper = .push s' lits) : sec.regen = lits.length := by
  unfold stageBody at h
  repeat' (first | split at h | simp only [] at h)
  all_goals (cases h; try omega)

/-- the literals pushed by a block without sequences are at most `MAX_BLOCK_SIZE` bytes: the code checks
`regenerated_size > MAX_BLOCK_SIZE` (error) and `regenerated_size == literals.len()` (assert) itself -/
theorem stage_push {content : List Nat} {s s' : Scratch} {lits : List Nat}
    (h : stage content s = .push s' lits) : lits.length ≤ Gen.maxBlockSize := by
  unfold stage at h
  repeat' (first | split at h | simp only [] at h)
  all_goals (first | (cases h; done) | skip)
  have := stageBody_push h
  omega

/-- the block decoder of instance B through the stage factorisation -/
theorem run_eq (content : List Nat) (s : Scratch) (b : DBuf) :
    Blk.run content s b =
      match stage content s with
      | .stop s' _ o => ((b, s'), o.toOut)
      | .push s' lits => ((b.push lits.toArray, s'), .ok ())
      | .exec s' lits seqs =>
        (((executeSequences seqs lits s'.hist 0 b).1.1,
          { s' with hist := (executeSequences seqs lits s'.hist 0 b).1.2 }),
         (executeSequences seqs lits s'.hist 0 b).2) := by
  unfold Blk.run
  rw [decompressBlock_eq_stage]
  cases stage content s with
  | stop s' lits o => rfl
  | push s' lits => rfl
  | exec s' lits seqs =>
    simp only [Stage.apply]
    split <;> rename_i heq <;> simp only [heq] <;> rfl

/-! ### `BlockContract` -/

theorem run_appends (content : List Nat) (s : Scratch) (b : DBuf) :
    ∃ x, DBuf.Appends b (Blk.run content s b).1.1 x ∧ x.size ≤ Gen.maxBlockSize := by
  rw [run_eq]
  cases hst : stage content s with
  | stop s' lits o => exact ⟨#[], DBuf.Appends.refl b, Nat.zero_le _⟩
  | push s' lits => exact ⟨lits.toArray, DBuf.push_appends b _, by simpa using stage_push hst⟩
  | exec s' lits seqs =>
    obtain ⟨x, hx, hs, -⟩ := executeSequences_appends seqs lits s'.hist 0 b (Nat.zero_le _)
    exact ⟨x, hx, by omega⟩

theorem run_grows (content : List Nat) (s : Scratch) (b : DBuf) : Grows b (Blk.run content s b).1.1 := by
  rw [run_eq]
  cases stage content s with
  | stop s' lits o => exact Grows.refl b
  | push s' lits => exact grows_push _ _
  | exec s' lits seqs => exact grows_executeSequences seqs lits s'.hist 0 b

theorem run_twin (W : Nat) (d x : Array Nat) (content : List Nat) (s : Scratch) (b : DBuf)
    (hW : W ≤ b.content.size) (hoff : ∀ o ∈ Blk.offsets content s, o ≤ W) :
    Blk.run content s (b.twin d x) =
      (((Blk.run content s b).1.1.twin d x, (Blk.run content s b).1.2), (Blk.run content s b).2) := by
  rw [run_eq, run_eq]
  unfold Blk.offsets at hoff
  cases hst : stage content s with
  | stop s' lits o => rfl
  | push s' lits => simp only [DBuf.twin_push]
  | exec s' lits seqs =>
    rw [hst] at hoff
    simp only [executeSequences_twin W d x seqs lits s'.hist 0 b hW hoff]

end Zstd.Model.Blk

namespace Zstd.Model
open Zstd Zstd.Proofs.DictCopy
open Zstd.Proofs.BitIO (Bytes)

/-- **the faithful block decoder satisfies the frame level's buffer contract** (no hypotheses) -/
instance instBlockContractFaithful : BlockContract Blk.Scratch where
  appends := Blk.run_appends
  counter := fun content e b => (Blk.run_grows content e b).count
  twin := Blk.run_twin

/-! ### the two obligations that come from the block-level proofs -/

/-- **Obligation 1 (C03, block level)** — discharged by Proofs/BlockNoFault.lean with
`WF := Blk.WF`: `⟨Blk.WF_new, fun c s b hb hw => ⟨(Blk.decompressBlock_spec hb hw b).1,
(Blk.decompressBlock_spec hb hw b).2.1, fun e he h1 h2 => ⟨((Blk.decompressBlock_spec hb hw b).2.2 e he).1 h1,
((Blk.decompressBlock_spec hb hw b).2.2 e he).2 h2⟩⟩⟩` (`Blk.Post` unfolded).

On a well-formed scratch and byte input `decompress_block` never faults; the scratch stays well
formed on `Ok` and on every error except `literals` / `sequences` (the two after which a table can
be left half built). -/
structure NoFaultObligation (WF : Blk.Scratch → Prop) : Prop where
  fresh : WF {}
  block : ∀ (content : List Nat) (s : Blk.Scratch) (b : DBuf), Bytes content → WF s →
    (∀ f, (Blk.decompressBlock content s b).2 ≠ .fault f) ∧
    ((Blk.decompressBlock content s b).2 = .ok → WF (Blk.decompressBlock content s b).1.1) ∧
    (∀ e, (Blk.decompressBlock content s b).2 = .err e → e ≠ .literals → e ≠ .sequences →
      WF (Blk.decompressBlock content s b).1.1)

/-- **Obligation 2 (C01, block level)** — `fresh` and `block` are `Proofs.Blk.coupled_fresh` and
`Proofs.Blk.decompressBlock_refines_full` of Proofs/BlockRefines.lean verbatim (with
`Coupled := Proofs.Blk.Coupled`); `seqs` says that the sequences the faithful decoder executes are
the Spec's (from `Proofs.Blk.decodeSequences_refines` and the literals stage `LitStage`), stated on
the ghost offsets, which is all the frame level uses of it. -/
structure RefinesObligation (Coupled : Spec.Entropy → Blk.Scratch → Prop) : Prop where
  fresh : Coupled {} {}
  block : ∀ (window : Nat) (dict : Array Nat) (bytes : List Nat) (e e' : Spec.Entropy) (out out' : Array Nat)
    (s : Blk.Scratch) (b : DBuf),
    Bytes bytes → Coupled e s → b.dict = dict → b.window = window → b.hashed ++ b.content = out →
    CounterOk b → Retained b →
    Spec.decodeCompressedBlock window dict bytes e out = some (out', e') →
    ∃ s' b' lits seqs, Blk.decompressBlock bytes s b = ((s', b', lits, seqs), .ok) ∧ Coupled e' s' ∧
      b'.hashed = b.hashed ∧ b.hashed ++ b'.content = out' ∧ b'.dict = dict ∧ b'.window = window ∧
      CounterOk b' ∧ Retained b'
  seqs : ∀ (bytes : List Nat) (e e1 : Spec.Entropy) (s : Blk.Scratch) (lits : List Nat) (used : Nat)
    (huf : Option Spec.Huffman.Table) (sq : List Spec.Seq),
    Bytes bytes → Coupled e s → Spec.decodeLiterals bytes e.huf = some (lits, used, huf) →
    Spec.decodeSequences (bytes.drop used) { e with huf := huf } = some (sq, e1) →
    ∀ o ∈ Blk.offsets bytes s, o ∈ resolvedOffsets sq (e1.hist.r1, e1.hist.r2, e1.hist.r3)

/-! ### obligation 1 ⇒ `NoFaultContract` -/

/-- the no-fault contract of the faithful decoder, from obligation 1 -/
@[reducible] def noFaultFaithful (WF : Blk.Scratch → Prop) (h : NoFaultObligation WF) : NoFaultContract Blk.Scratch where
  wf := WF
  inp := Bytes
  inp_take := fun _ n hl x hx => hl x (List.mem_of_mem_take hx)
  inp_drop := fun _ n hl x hx => hl x (List.mem_of_mem_drop hx)
  wf_fresh := h.fresh
  wf_run := by
    intro content e b hw hi hc
    obtain ⟨hnf, hok, herr⟩ := h.block content e b hi hw
    show WF (Blk.run content e b).1.2
    have hc' : (Blk.run content e b).2.clean := hc
    unfold Blk.run at hc' ⊢
    cases hd : Blk.decompressBlock content e b with
    | mk p o =>
      obtain ⟨s', b', l, q⟩ := p
      rw [hd] at hnf hok herr hc'
      cases o with
      | ok => exact hok rfl
      | err er =>
        refine herr er rfl ?_ ?_
        · rintro rfl; exact hc'.1 rfl
        · rintro rfl; exact hc'.2 rfl
      | fault f => exact absurd rfl (hnf f)
  noFault := by
    intro content e b f hw hi
    obtain ⟨hnf, -, -⟩ := h.block content e b hi hw
    show (Blk.run content e b).2 ≠ .fault f
    unfold Blk.run
    cases hd : Blk.decompressBlock content e b with
    | mk p o =>
      obtain ⟨s', b', l, q⟩ := p
      rw [hd] at hnf
      cases o with
      | ok => simp [Blk.BOut.toOut]
      | err er => simp [Blk.BOut.toOut]
      | fault f' => exact absurd rfl (hnf f')

end Zstd.Model

/-! ### obligation 2 ⇒ `RefinesSpec` -/

namespace Zstd.Model
open Zstd Zstd.Proofs.DictCopy
open Zstd.Proofs.BitIO (Bytes)

/-- the hasher input is a write-only field for the match copy -/
theorem DBuf.repeat_hashed (b : DBuf) (x : Array Nat) (off ml : Nat) :
    ({ b with hashed := x } : DBuf).repeat off ml =
      (b.repeat off ml).map (fun b' => { b' with hashed := x }) := by
  unfold DBuf.repeat
  simp only []
  repeat' split
  all_goals rfl

/-- … and for sequence execution as a whole -/
theorem executeSequences_hashed (x : Array Nat) (seqs : List Spec.Seq) (lits : List Nat)
    (h : Nat × Nat × Nat) (q : Nat) (b : DBuf) :
    executeSequences seqs lits h q { b with hashed := x } =
      (({ (executeSequences seqs lits h q b).1.1 with hashed := x }, (executeSequences seqs lits h q b).1.2),
        (executeSequences seqs lits h q b).2) := by
  induction seqs generalizing lits h q b with
  | nil =>
    simp only [executeSequences]
    split
    · rfl
    · split <;> rfl
  | cons s rest ih =>
    simp only [executeSequences]
    split
    · rfl
    · split
      · rfl
      · have hb1 : (if s.ll > 0 then ({ b with hashed := x } : DBuf).push (lits.take s.ll).toArray else { b with hashed := x })
            = { (if s.ll > 0 then b.push (lits.take s.ll).toArray else b) with hashed := x } := by
          split <;> rfl
        rw [hb1]
        generalize (if s.ll > 0 then b.push (lits.take s.ll).toArray else b) = b1
        cases hdo : doOffsetHistory s.ov s.ll h with
        | error f => rfl
        | ok r =>
          obtain ⟨actual, h'⟩ := r
          simp only
          split
          · rfl
          · by_cases hml : s.ml > 0
            · simp only [hml, if_true]
              rw [DBuf.repeat_hashed]
              cases hr : b1.repeat actual s.ml with
              | error e => rfl
              | ok b2 => exact ih _ _ _ _
            · simp only [hml, if_false]
              exact ih _ _ _ _

theorem Blk.run_hashed (x : Array Nat) (content : List Nat) (s : Blk.Scratch) (b : DBuf) :
    Blk.run content s { b with hashed := x } =
      (({ (Blk.run content s b).1.1 with hashed := x }, (Blk.run content s b).1.2), (Blk.run content s b).2) := by
  rw [Blk.run_eq, Blk.run_eq]
  cases Blk.stage content s with
  | stop s' lits o => rfl
  | push s' lits => rfl
  | exec s' lits seqs => simp only [executeSequences_hashed]

/-- the refinement contract of the faithful decoder, from obligation 2 -/
@[reducible] def refinesSpecFaithful (Coupled : Spec.Entropy → Blk.Scratch → Prop) (h : RefinesObligation Coupled) :
    RefinesSpec Blk.Scratch where
  coupled := fun s e => Coupled e s
  coupled_fresh := h.fresh
  refines := by
    intro bytes s e e' b out' hb hc htot hs
    obtain ⟨s', b', lits, seqs, hrun, hc', hh, hout, hd, hw, hco, -⟩ :=
      h.block b.window b.dict bytes e e' b.content out' s { b with hashed := #[] } hb hc rfl rfl (by simp)
        (by simpa [CounterOk] using htot) (by simpa [Retained] using Nat.min_le_right _ _) hs
    have hrun0 : Blk.run bytes s { b with hashed := #[] } = ((b', s'), .ok ()) := by
      unfold Blk.run; rw [hrun]; rfl
    have hb' := Blk.run_hashed b.hashed bytes s { b with hashed := #[] }
    rw [hrun0] at hb'
    refine ⟨{ b' with hashed := b.hashed }, s', hb', ⟨?_, hd, hw, rfl, ?_⟩, hc'⟩
    · simpa using hout
    · have : b'.hashed = #[] := hh
      simpa [CounterOk, this] using hco
  offsets_le := by
    intro window dict bytes s e e' out out' hb hc hs hbig
    simp only [Spec.decodeCompressedBlock] at hs
    split at hs
    · cases hs
    · rename_i lits used huf hlit
      split at hs
      · cases hs
      · rename_i sq e1 hseq
        split at hs
        · cases hs
        · rename_i out2 h2 hexec
          intro o ho
          exact execSequences_offsets_le window dict sq lits e1.hist h2 out out2
            (decodeSequences_ov _ _ _ _ hseq) hexec hbig o (h.seqs bytes e e1 s lits used huf sq hb hc hlit hseq o ho)

end Zstd.Model

/-! ### both obligations hold (block-level proofs of Proofs/BlockNoFault, BlockRefines, BlkLitFull) -/

namespace Zstd.Model
open Zstd Zstd.Proofs.DictCopy Zstd.Proofs.Blk
open Zstd.Proofs.BitIO (Bytes)

/-- **obligation 1 holds** with `WF := Blk.WF` -/
theorem noFaultObligation_proved : NoFaultObligation Blk.WF where
  fresh := Blk.WF_new
  block := fun _ _ b hb hw =>
    have p := Blk.decompressBlock_spec hb hw b
    ⟨p.1, p.2.1, fun e he h1 h2 => ⟨((p.2.2 e he).1 h1), ((p.2.2 e he).2 h2)⟩⟩

/-- the ghost offsets of the faithful decoder, when its stages come out as the block-level refinement
says they do -/
theorem Blk.offsets_of_stages {bytes : List Nat} {s : Blk.Scratch} {sec : Hdr.LitSection} {hdrLen upper : Nat}
    {t' : Huf.DecTable} {lits : List Nat} {n : Nat} {modes : Option Nat} {shLen : Nat} {fse' : Blk.FseScratch}
    {sq : List Spec.Seq}
    (hp : Hdr.parseLitHeader Hdr.LitSection.new bytes = .ok (sec, hdrLen))
    (hreg : sec.regen = lits.length) (hu : Blk.upperLimit sec = .ok upper)
    (hle : upper ≤ (bytes.drop hdrLen).length)
    (hl : Huf.decodeLiterals { lsType := Blk.litTypeOf sec.ty, regeneratedSize := sec.regen, compressedSize := sec.comp,
                               numStreams := sec.streams } s.huf ((bytes.drop hdrLen).take upper) [] = (t', .ok (lits, upper)))
    (hh : parseSeqHeader ((bytes.drop hdrLen).drop upper) = .ok (n, modes, shLen)) (hn : n ≠ 0)
    (hd : Blk.decodeSequences n modes (((bytes.drop hdrLen).drop upper).drop shLen) s.fse = (fse', .ok sq)) :
    ∀ o ∈ Blk.offsets bytes s, o ∈ resolvedOffsets sq s.hist := by
  unfold Blk.offsets Blk.stage
  simp only [hp]
  by_cases hbig : sec.regen > Gen.maxBlockSize
  · rw [if_pos hbig]; intro o ho; cases ho
  · rw [if_neg hbig]
    have hl' := hl
    rw [hreg] at hl'
    simp only [hu, Blk.stageBody, if_neg (Nat.not_lt.mpr hle), hl', hreg, ne_eq, not_true_eq_false, if_false, hh, hn,
      not_false_eq_true, if_true, hd]
    intro o ho; exact ho

/-- a block without sequences has no offsets -/
theorem Blk.offsets_of_no_seqs {bytes : List Nat} {s : Blk.Scratch} {sec : Hdr.LitSection} {hdrLen upper : Nat}
    {t' : Huf.DecTable} {lits : List Nat} {modes : Option Nat} {shLen : Nat}
    (hp : Hdr.parseLitHeader Hdr.LitSection.new bytes = .ok (sec, hdrLen))
    (hreg : sec.regen = lits.length) (hu : Blk.upperLimit sec = .ok upper)
    (hle : upper ≤ (bytes.drop hdrLen).length)
    (hl : Huf.decodeLiterals { lsType := Blk.litTypeOf sec.ty, regeneratedSize := sec.regen, compressedSize := sec.comp,
                               numStreams := sec.streams } s.huf ((bytes.drop hdrLen).take upper) [] = (t', .ok (lits, upper)))
    (hh : parseSeqHeader ((bytes.drop hdrLen).drop upper) = .ok (0, modes, shLen)) :
    Blk.offsets bytes s = [] := by
  unfold Blk.offsets Blk.stage
  simp only [hp]
  by_cases hbig : sec.regen > Gen.maxBlockSize
  · rw [if_pos hbig]
  · rw [if_neg hbig]
    have hl' := hl
    rw [hreg] at hl'
    simp only [hu, Blk.stageBody, if_neg (Nat.not_lt.mpr hle), hl', hreg, ne_eq, not_true_eq_false, if_false, hh]
    split <;> first | rfl | (rename_i heq; split at heq <;> cases heq)

/-- **obligation 2 holds** with `Coupled := Proofs.Blk.Coupled` -/
theorem refinesObligation_proved : RefinesObligation Coupled where
  fresh := coupled_fresh
  block := decompressBlock_refines_full_proved
  seqs := by
    intro bytes e e1 s lits used huf sq hb hc hlit hseq
    obtain ⟨sec, hdrLen, upper, t', hp, hreg, hu, hle, hused, hl, -⟩ :=
      decodeLiterals_refines_full_proved bytes e.huf huf lits used s.huf hb hc.huf hlit
    have hdrop : bytes.drop used = (bytes.drop hdrLen).drop upper := by rw [hused, List.drop_drop]
    have hb' : Bytes (bytes.drop used) := fun x hx => hb x (List.mem_of_mem_drop hx)
    have hfc : FseCoupled { e with huf := huf } s.fse := ⟨hc.fse.ll, hc.fse.of, hc.fse.ml⟩
    obtain ⟨n, modes, shLen, hh, h0, hn⟩ := decodeSequences_refines hb' hfc hseq
    rw [hdrop] at hh h0 hn
    by_cases hz : n = 0
    · subst hz
      rw [Blk.offsets_of_no_seqs hp hreg hu hle hl hh]
      intro o ho; cases ho
    · obtain ⟨fse', hd, -, -, hhist⟩ := hn hz
      have := Blk.offsets_of_stages hp hreg hu hle hl hh hz hd
      rw [hc.hist] at this
      rw [hhist]
      exact this

/-- **the faithful block decoder never faults on a well-formed scratch** — `NoFaultContract` for
instance B, no hypotheses -/
instance instNoFaultFaithful : NoFaultContract Blk.Scratch := noFaultFaithful Blk.WF noFaultObligation_proved

/-- **the faithful block decoder refines the Spec** — `RefinesSpec` for instance B, no hypotheses -/
instance instRefinesSpecFaithful : RefinesSpec Blk.Scratch := refinesSpecFaithful Coupled refinesObligation_proved

end Zstd.Model
