import Zstd.Proofs.RingExtra
/-
C04, dead code: `extend_from_within_unchecked_branchless` + `copy_with_checks`
(`#[allow(dead_code)]`, unreferenced).  Complete characterisation under the `SAFETY` requirements:
it either refines the queue, or — exactly when the copy would reach the end of the allocation's first
free section — trips its own (over-strict, `>` instead of `>=`) `debug_assert!`.
-/
namespace Zstd.Model
open Zstd RingBuffer

/-- discharge a `debug_assert!` condition: trivial after simplification, or linear arithmetic -/
macro "chk0" : tactic => `(tactic| first | exact trivial | omega)
/-- … or a propositional combination of such facts -/
macro "chk" : tactic => `(tactic| first | exact trivial | omega | (simp; omega))

theorem copyIf_ok {site : String} {m : Mem} {src dst n : Nat}
    (hsrc : ∀ i, i < n → (m.cell (src + i)).isSome) (hdst : dst + n ≤ m.size) :
    ∃ m', (if n ≠ 0 then copyExact site m src dst n else pure m) = .ok m' ∧ Copied m m' src dst n := by
  by_cases h0 : n = 0
  · subst h0
    exact ⟨m, by simp [pure_eq_ok], rfl, fun j => by simp; omega⟩
  · simp only [ne_eq, h0, not_false_eq_true, ↓reduceIte]
    unfold copyExact
    rw [Mem.readN_ok hsrc, ok_bind]
    obtain ⟨m', h1, hs, hc⟩ := Mem.writeL_ok (site := site) (l := m.vals src n) (m := m) (off := dst)
      (by rw [Mem.vals_length]; exact hdst)
    refine ⟨m', h1, hs, ?_⟩
    intro j
    rw [hc j, Mem.vals_length]
    split
    · rename_i hj
      rw [Mem.getD_vals (by omega)]
      exact (Mem.cell_eq_some_val (hsrc (j - dst) (by omega))).symm
    · rfl

theorem copyIf_zero {site : String} {m : Mem} {src dst : Nat} :
    (if (0 : Nat) ≠ 0 then copyExact site m src dst 0 else pure m) = .ok m := by simp [pure_eq_ok]

namespace RingBuffer

variable {r : RingBuffer}

/-- the branchless variant under the `SAFETY` requirements, when the copy stays strictly before the end
of the allocation's first free section: no fault, refines the queue -/
theorem efwub_ok (hI : r.Inv) (hc : 0 < r.cap) {start len : Nat}
    (h1 : start + len ≤ r.len) (h2 : len ≤ r.free)
    (hend : ¬ (r.head ≤ r.tail ∧ r.cap - r.tail ≤ len)) :
    ∃ r', r.extendFromWithinUncheckedBranchless start len = .ok r' ∧ r'.Inv ∧
      r'.abs = Queue.copyWithin r.abs start len := by
  have hh := hI.head_lt hc; have ht := hI.tail_lt hc
  have hlc := len_cases r; have hfc := free_cases r
  have hsz := hI.alloc
  unfold extendFromWithinUncheckedBranchless
  rw [hI.dataSliceLengths_eq, ok_bind]
  by_cases hw : r.tail ≥ r.head
  · -- not wrapped: one source piece, and (by `hend`) one destination piece
    simp only [hw, ↓reduceIte]
    have e1 : min (r.tail - r.head) start = start := by omega
    have e2 : min (r.tail - r.head) (start + len) = start + len := by omega
    simp only [e1, e2, Nat.add_zero]
    simp (disch := chk0) only [check_ok, usub_ok, ok_bind]
    have e3 : start + len - start = len := by omega
    have e4 : start - (r.tail - r.head) = 0 := by omega
    simp only [e3, e4, Nat.sub_self, Nat.add_zero]
    rw [hI.freeSliceLengths_eq, ok_bind]
    have hnw : ¬ r.tail < r.head := by omega
    simp only [hnw, ↓reduceIte]
    have e5 : min len (r.cap - r.tail) = len := by omega
    simp (disch := chk) only [e5, Nat.sub_self, Nat.min_zero, Nat.add_zero, check_ok, ok_bind]
    unfold copyWithChecks
    obtain ⟨m1, hm1, cp1⟩ := copyIf_ok (site := "ringbuffer.rs:copy_with_checks:m1->f1") (m := r.mem)
      (src := r.head + start) (dst := r.tail) (n := len)
      (fun i hi => by apply hI.init; rw [occupied_iff]; omega) (by omega)
    rw [hm1, ok_bind, copyIf_zero, ok_bind, copyIf_zero, ok_bind, copyIf_zero, ok_bind,
      umod_ok hc, ok_bind, pure_eq_ok]
    refine ⟨_, rfl, ?_⟩
    have hW : WithinMem r { r with mem := m1 } start len := by
      refine ⟨rfl, rfl, cp1.1, ?_, ?_⟩
      · intro j hj
        rw [occupied_iff] at hj
        show m1.cell j = _
        rw [cp1.outside (by omega)]
      · intro t ht'
        have hpc := phys_cases r (start + t)
        have hlt : r.tail + t < r.cap := by omega
        simp only [hlt, ↓reduceIte]
        show m1.cell _ = _
        rw [cp1.inside (by omega)]
        congr 1; omega
    have := within_finish hI hc h1 h2 hW
    exact ⟨this.1, this.2.1⟩
  · -- wrapped: possibly two source pieces, one destination section `[tail, head)`
    simp only [hw, ↓reduceIte]
    have hws : r.tail < r.head := by omega
    have hlen : r.len = r.cap - r.head + r.tail := by omega
    have hfree : r.free = r.head - r.tail - 1 := by omega
    clear hlc hfc
    simp (disch := chk0) only [check_ok, usub_ok, ok_bind]
    rw [hI.freeSliceLengths_eq, ok_bind]
    simp only [hws, ↓reduceIte]
    -- name the pieces, each with a linear characterisation (keeps `omega` away from nested `min`/`-`)
    generalize hs1 : min (r.cap - r.head) start = startInS1
    generalize he1 : min (r.cap - r.head) (start + len) = endInS1
    have hse : startInS1 ≤ endInS1 := by omega
    generalize hm1 : endInS1 - startInS1 = m1Len
    have hm1' : m1Len + startInS1 = endInS1 := by omega
    generalize hs2 : start - (r.cap - r.head) = s2off
    generalize hm2 : len - m1Len = m2Len
    have hm2' : m2Len + m1Len = len := by omega
    have e0 : s2off + m2Len - s2off = m2Len := by omega
    simp only [e0]
    generalize hf1 : r.head - r.tail = f1
    have hf1' : f1 + r.tail = r.head := by omega
    have ea : min m1Len f1 = m1Len := by omega
    simp only [ea, Nat.sub_self, Nat.add_zero, Nat.zero_add]
    generalize hg : f1 - m1Len = g
    have hg' : g + m1Len = f1 := by omega
    have eb : min g m2Len = m2Len := by omega
    simp only [eb, Nat.sub_self]
    simp (disch := chk) only [check_ok, ok_bind]
    -- where the two source pieces lie
    have hsrcA : startInS1 + m1Len ≤ r.cap - r.head := by omega
    have hsrcB : s2off + m2Len ≤ r.tail := by omega
    have hA : 0 < m1Len → startInS1 = start := by omega
    have hB : 0 < m2Len → s2off + (r.cap - r.head) = start + m1Len := by omega
    clear hs1 he1 hm1 hs2 hm2 hf1 hg ea eb e0
    unfold copyWithChecks
    obtain ⟨m1, hcm1, cp1⟩ := copyIf_ok (site := "ringbuffer.rs:copy_with_checks:m1->f1") (m := r.mem)
      (src := r.head + startInS1) (dst := r.tail) (n := m1Len)
      (fun i hi => by apply hI.init; rw [occupied_iff]; omega) (by omega)
    rw [hcm1, ok_bind]
    have hz1 := cp1.1
    obtain ⟨m2, hcm2, cp2⟩ := copyIf_ok (site := "ringbuffer.rs:copy_with_checks:m2->f1") (m := m1)
      (src := s2off) (dst := r.tail + m1Len) (n := m2Len)
      (fun i hi => by
        rw [cp1.outside (by omega)]
        apply hI.init; rw [occupied_iff]; omega) (by omega)
    rw [hcm2, ok_bind, copyIf_zero, ok_bind, copyIf_zero, ok_bind, umod_ok hc, ok_bind, pure_eq_ok]
    have hz2 := cp2.1
    refine ⟨_, rfl, ?_⟩
    have hW : WithinMem r { r with mem := m2 } start len := by
      refine ⟨rfl, rfl, by show m2.size = _; omega, ?_, ?_⟩
      · intro j hj
        rw [occupied_iff] at hj
        show m2.cell j = _
        rw [cp2.outside (by omega), cp1.outside (by omega)]
      · intro t ht'
        have hpc := phys_cases r (start + t)
        have hlt : r.tail + t < r.cap := by omega
        simp only [hlt, ↓reduceIte]
        show m2.cell _ = _
        by_cases hts : t < m1Len
        · rw [cp2.outside (by omega), cp1.inside (by omega)]
          congr 1; omega
        · rw [cp2.inside (by omega), cp1.outside (by omega)]
          congr 1; omega
    have := within_finish hI hc h1 h2 hW
    exact ⟨this.1, this.2.1⟩

/-- … and exactly in the remaining case — the copy reaches the end of the allocation's first free
section — the variant trips its own `debug_assert!(buf + cap > f1_ptr + (m1_in_f1 + m2_in_f1))`: the
comparison is strict where `>=` is meant.  So with debug assertions on, the branches that write into
the second free section can never run. -/
theorem efwub_overstrict_assert (hI : r.Inv) (hc : 0 < r.cap) {start len : Nat}
    (h1 : start + len ≤ r.len) (h2 : len ≤ r.free)
    (hend : r.head ≤ r.tail ∧ r.cap - r.tail ≤ len) :
    r.extendFromWithinUncheckedBranchless start len =
      .error (.assert ("ringbuffer.rs:extend_from_within_unchecked_branchless:" ++ "debug_assert(buf+cap>f1_ptr+..)")) := by
  have hh := hI.head_lt hc; have ht := hI.tail_lt hc
  have hlc := len_cases r; have hfc := free_cases r
  unfold extendFromWithinUncheckedBranchless
  rw [hI.dataSliceLengths_eq, ok_bind]
  have hw : r.tail ≥ r.head := hend.1
  simp only [hw, ↓reduceIte]
  have e1 : min (r.tail - r.head) start = start := by omega
  have e2 : min (r.tail - r.head) (start + len) = start + len := by omega
  simp only [e1, e2, Nat.add_zero]
  simp (disch := chk0) only [check_ok, usub_ok, ok_bind]
  have e3 : start + len - start = len := by omega
  have e4 : start - (r.tail - r.head) = 0 := by omega
  simp only [e3, e4, Nat.sub_self, Nat.add_zero]
  rw [hI.freeSliceLengths_eq, ok_bind]
  have hnw : ¬ r.tail < r.head := by omega
  simp only [hnw, ↓reduceIte]
  have e5 : min len (r.cap - r.tail) = r.cap - r.tail := by omega
  simp only [e5, Nat.sub_self, Nat.min_zero, Nat.add_zero]
  simp (disch := chk0) only [check_ok, ok_bind]
  rw [check_err (by omega), error_bind]

end RingBuffer

end Zstd.Model
