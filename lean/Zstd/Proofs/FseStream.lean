import Zstd.Model.Fse
import Zstd.Proofs.BitIO
/-
Stream round trips of the FSE coders, proved from an abstract coupling of an encoder table with a
decoder table (`Coupled`).  `Zstd/Proofs/FseEncTable.lean` shows that the tables the two builders
produce from one valid distribution are coupled; here only the coupling is used.
-/
namespace Zstd.Proofs.FseStream
open Zstd Zstd.Spec Zstd.Model.Fse Zstd.Model.BitIO Zstd.Proofs.BitIO

/-- decoder entry that corresponds to an encoder state of symbol `s` -/
def entryOf (s : Nat) (st : EState) : DEntry := { baseLine := st.baseline, numBits := st.numBits, symbol := s }

/-- `st` is a state of symbol `s` and the decoder table has the same entry at `st.index` -/
def Good (dt : DTable) (al s : Nat) (st : EState) : Prop :=
  st.index < 2 ^ al ∧ dt.decode[st.index]? = some (entryOf s st) ∧ st.numBits ≤ al

/-- what the stream coders need from a pair (encoder table, decoder table) over the symbols `usable` -/
structure Coupled (et : ETable) (dt : DTable) (al : Nat) (usable : Nat → Prop) : Prop where
  al_pos : 1 ≤ al
  al_le : al ≤ 31
  encLog : et.accLog = .ok al
  decLog : dt.accuracyLog = al
  start : ∀ s, usable s → ∃ st, et.startState s = .ok st ∧ Good dt al s st
  next : ∀ s idx, usable s → idx < 2 ^ al →
    ∃ st, et.nextState s idx = .ok st ∧ st.baseline ≤ idx ∧ idx < st.baseline + 2 ^ st.numBits ∧ Good dt al s st

variable {et : ETable} {dt : DTable} {al : Nat} {usable : Nat → Prop}

/-! ### one decoder step reads back one encoder step -/

theorem update_reads {src : Array Nat} {r : BitReaderRev} {pre post : List Bool}
    {s c : Nat} {st nx : EState} (hal : al ≤ 31)
    (hgs : Good dt al c st) (hgn : Good dt al s nx)
    (h1 : nx.baseline ≤ st.index) (h2 : st.index < nx.baseline + 2 ^ nx.numBits)
    (hbits : bitsLE src.toList = pre ++ bitsOfLE nx.numBits (st.index - nx.baseline) ++ post)
    (hr : RevInv src r post.length) :
    ∃ r', (Decoder.mk (entryOf s nx)).updateState dt r = .ok (Decoder.mk (entryOf c st), r') ∧
      RevInv src r' (post.length + nx.numBits) := by
  have hnb : nx.numBits ≤ 56 := by have := hgn.2.2; omega
  obtain ⟨r', hget, hinv⟩ := revReader_reads_field (v := st.index - nx.baseline) hbits (by omega) hnb hr
  refine ⟨r', ?_, hinv⟩
  have hlt : st.index < 2 ^ 32 := by
    have h := hgs.1
    have : 2 ^ al ≤ 2 ^ 31 := Nat.pow_le_pow_right (by omega) hal
    omega
  have hidx : nx.baseline + (st.index - nx.baseline) = st.index := by omega
  have hnot : ¬ st.index ≥ 2 ^ 32 := by omega
  simp only [Decoder.updateState, entryOf, hget, hidx, if_neg hnot, hgs.2.1]

/-! ### the encoder loop, and the decoder loop that undoes it -/

/-- symbol of the state after the loop -/
def lastSym (xs : List Nat) (c : Nat) : Nat := xs.getLast?.getD c

theorem enc_dec_loop (hc : Coupled et dt al usable) :
    ∀ (xs : List Nat) (c : Nat) (st : EState) (w : BitWriter) (L : List Bool),
      WInv w L → Good dt al c st → (∀ x ∈ xs, usable x) →
      ∃ w' st' F, encLoop et xs w st = .ok (w', st') ∧ WInv w' (L ++ F) ∧ Good dt al (lastSym xs c) st' ∧
        ∀ (src : Array Nat) (r : BitReaderRev) (pre post : List Bool) (m : Nat) (acc : List Nat),
          bitsLE src.toList = pre ++ F ++ post → RevInv src r post.length → 1 ≤ m →
          ∃ r', decodeLoop dt (xs.length + m) (Decoder.mk (entryOf (lastSym xs c) st')) r acc
                  = decodeLoop dt m (Decoder.mk (entryOf c st)) r' (xs ++ acc) ∧
                RevInv src r' (post.length + F.length) := by
  intro xs
  induction xs with
  | nil =>
    intro c st w L hw hg _
    refine ⟨w, st, [], rfl, by simpa using hw, by simpa [lastSym] using hg, ?_⟩
    intro src r pre post m acc _ hr _
    exact ⟨r, by simp [lastSym], by simpa using hr⟩
  | cons x xs ih =>
    intro c st w L hw hg hu
    have hux : usable x := hu x (List.mem_cons_self ..)
    obtain ⟨nx, hnx, hb1, hb2, hgn⟩ := hc.next x st.index hux hg.1
    have hnb : nx.numBits ≤ 63 := by have := hgn.2.2; have := hc.al_le; omega
    obtain ⟨w1, hw1, hinv1⟩ := bitWriter_refines (v := st.index - nx.baseline) hw (by omega) hnb
    obtain ⟨w', st', F', henc, hw', hg', hdec⟩ :=
      ih x nx w1 (L ++ bitsOfLE nx.numBits (st.index - nx.baseline)) hinv1 hgn
        (fun y hy => hu y (List.mem_cons_of_mem _ hy))
    have hls : lastSym (x :: xs) c = lastSym xs x := by
      unfold lastSym
      cases xs with
      | nil => rfl
      | cons y ys =>
        cases h : (y :: ys).getLast? with
        | none => simp at h
        | some z => simp [List.getLast?_cons_cons, h]
    refine ⟨w', st', bitsOfLE nx.numBits (st.index - nx.baseline) ++ F', ?_, ?_, ?_, ?_⟩
    · simp only [encLoop, encStep, hnx, if_neg (show ¬ st.index < nx.baseline by omega), hw1, henc]
    · simpa [List.append_assoc] using hw'
    · rw [hls]; exact hg'
    · intro src r pre post m acc hbits hr hm
      obtain ⟨r1, hd1, hr1⟩ := hdec src r (pre ++ bitsOfLE nx.numBits (st.index - nx.baseline)) post (m + 1) acc
        (by simpa [List.append_assoc] using hbits) hr (by omega)
      obtain ⟨r2, hup, hr2⟩ := update_reads (dt := dt) (s := x) (c := c) hc.al_le hg hgn hb1 hb2
        (pre := pre) (post := F' ++ post) (src := src) (r := r1)
        (by simpa [List.append_assoc] using hbits)
        (by simpa [List.length_append, Nat.add_comm] using hr1)
      refine ⟨r2, ?_, ?_⟩
      · rw [hls, show (x :: xs).length + m = xs.length + (m + 1) by simp only [List.length_cons]; omega, hd1]
        have hm0 : m ≠ 0 := by omega
        simp only [decodeLoop, Decoder.decodeSymbol, entryOf, if_neg hm0]
        simp only [entryOf] at hup
        rw [hup]
        simp
      · simpa [List.length_append, Nat.add_assoc, Nat.add_comm, Nat.add_left_comm] using hr2

/-! ### skipping the end mark -/

theorem bitsOfLE_one_zero : bitsOfLE 1 0 = [false] := by decide
theorem bitsOfLE_one_one : bitsOfLE 1 1 = [true] := by decide

theorem skip_zeros {src : Array Nat} (P : List Bool) :
    ∀ (j fuel skipped : Nat) (r : BitReaderRev) (post : List Bool),
      bitsLE src.toList = P ++ [true] ++ List.replicate j false ++ post →
      RevInv src r post.length → skipped + j + 1 ≤ 8 → j + 1 ≤ fuel →
      ∃ r', Model.Fse.skipPadding fuel skipped r = .ok (some r') ∧ RevInv src r' (post.length + j + 1) := by
  intro j
  induction j with
  | zero =>
    intro fuel skipped r post hbits hr hs hf
    obtain ⟨f, rfl⟩ : ∃ f, fuel = f + 1 := ⟨fuel - 1, by omega⟩
    obtain ⟨r', hget, hinv⟩ := revReader_reads_field (out := src) (pre := P) (post := post) (n := 1) (v := 1)
      (by rw [bitsOfLE_one_one]; simpa using hbits) (by omega) (by omega) hr
    refine ⟨r', ?_, by simpa using hinv⟩
    simp only [Model.Fse.skipPadding, hget, true_or, if_true]
    rw [if_neg (by omega)]
  | succ j ih =>
    intro fuel skipped r post hbits hr hs hf
    obtain ⟨f, rfl⟩ : ∃ f, fuel = f + 1 := ⟨fuel - 1, by omega⟩
    obtain ⟨r1, hget, hinv⟩ := revReader_reads_field (out := src) (pre := P ++ [true] ++ List.replicate j false)
      (post := post) (n := 1) (v := 0)
      (by rw [bitsOfLE_one_zero, hbits, List.replicate_succ']; simp [List.append_assoc]) (by omega) (by omega) hr
    obtain ⟨r', hsk, hinv'⟩ := ih f (skipped + 1) r1 ([false] ++ post)
      (by rw [hbits, List.replicate_succ']; simp [List.append_assoc])
      (by simpa [Nat.add_comm] using hinv) (by omega) (by omega)
    refine ⟨r', ?_, ?_⟩
    · simp only [Model.Fse.skipPadding, hget]
      rw [if_neg (by omega)]
      exact hsk
    · simpa [List.length_append, Nat.add_assoc, Nat.add_comm, Nat.add_left_comm] using hinv'

theorem bitsOfLE_mark (m : Nat) (hm : 1 ≤ m) : bitsOfLE m 1 = [true] ++ List.replicate (m - 1) false := by
  apply List.ext_getElem
  · simp; omega
  · intro i h1 h2
    rw [getElem_bitsOfLE]
    cases i with
    | zero => simp
    | succ i =>
      simp only [List.cons_append, List.nil_append, List.getElem_cons_succ, List.getElem_replicate]
      simp [Nat.testBit_succ]

/-- the end mark: `1` followed by zero padding up to the byte boundary (a whole byte if already aligned) -/
theorem writeEndMark_ok {w : BitWriter} {L : List Bool} (hw : WInv w L) :
    ∃ w' m, writeEndMark w = .ok w' ∧ 1 ≤ m ∧ m ≤ 8 ∧ WInv w' (L ++ bitsOfLE m 1) ∧ (L.length + m) % 8 = 0 := by
  unfold writeEndMark
  rw [WInv_misaligned hw]
  by_cases h : (8 - L.length % 8) % 8 = 0
  · rw [if_pos h]
    obtain ⟨w', hw', hi⟩ := bitWriter_refines (v := 1) (n := 8) hw (by omega) (by omega)
    exact ⟨w', 8, hw', by omega, by omega, hi, by omega⟩
  · rw [if_neg h]
    have hm1 : 1 ≤ (8 - L.length % 8) % 8 := by omega
    obtain ⟨w', hw', hi⟩ := bitWriter_refines (v := 1) (n := (8 - L.length % 8) % 8) hw
      (by
        have : 2 ^ 1 ≤ 2 ^ ((8 - L.length % 8) % 8) := Nat.pow_le_pow_right (by omega) hm1
        omega) (by omega)
    exact ⟨w', _, hw', hm1, by omega, hi, by omega⟩

theorem skipEndMark_ok {src : Array Nat} {P : List Bool} {m : Nat} (hm1 : 1 ≤ m) (hm8 : m ≤ 8)
    (hb : Bytes src.toList) (hbits : bitsLE src.toList = P ++ bitsOfLE m 1) :
    ∃ r', skipEndMark (BitReaderRev.new src) = .ok (some r') ∧ RevInv src r' m := by
  obtain ⟨r', h1, h2⟩ := skip_zeros (src := src) P (m - 1) 9 0 (BitReaderRev.new src) ([] : List Bool)
    (by rw [hbits, bitsOfLE_mark m hm1]; simp [List.append_assoc])
    (by simpa using RevInv_new hb) (by omega) (by omega)
  refine ⟨r', h1, ?_⟩
  have : ([] : List Bool).length + (m - 1) + 1 = m := by simp; omega
  rw [← this]; exact h2

/-! ### single-state stream -/

/-- **`encode_decode_single`, stream part.**  For coupled tables, every non-empty symbol string over usable
symbols: `FSEEncoder::encode`'s stream (written after any byte-aligned prefix `L`, e.g. the table
description) is accepted by the single-state decode loop, which returns the string and has consumed
exactly all bits (`bits_remaining = 0`). -/
theorem encode_decode_stream (hc : Coupled et dt al usable) (data : List Nat) (hne : data ≠ [])
    (hu : ∀ x ∈ data, usable x) {w : BitWriter} {L : List Bool} (hw : WInv w L) :
    ∃ w' S, encodeStream et w data = .ok w' ∧ WInv w' (L ++ S) ∧ (L.length + S.length) % 8 = 0 ∧
      ∀ (src : Array Nat), Bytes src.toList → bitsLE src.toList = S →
        ∃ br br', skipEndMark (BitReaderRev.new src) = .ok (some br) ∧
          decodeStream dt data.length br = .ok (data, br') ∧ br'.bitsRemaining = 0 := by
  obtain ⟨ini, c, rfl⟩ : ∃ ini c, data = ini ++ [c] := ⟨data.dropLast, data.getLast hne, (List.dropLast_concat_getLast hne).symm⟩
  have huc : usable c := hu c (by simp)
  obtain ⟨st0, hst0, hg0⟩ := hc.start c huc
  obtain ⟨w1, st1, F, henc, hw1, hg1, hdec⟩ := enc_dec_loop hc ini.reverse c st0 w L hw hg0
    (fun x hx => hu x (by simp at hx ⊢; exact Or.inl hx))
  have hal63 : al ≤ 63 := by have := hc.al_le; omega
  obtain ⟨w2, hw2, hinv2⟩ := bitWriter_refines (v := st1.index) (n := al) hw1 hg1.1 hal63
  obtain ⟨w3, m, hw3, hm1, hm8, hinv3, hal3⟩ := writeEndMark_ok hinv2
  refine ⟨w3, F ++ bitsOfLE al st1.index ++ bitsOfLE m 1, ?_, by simpa [List.append_assoc] using hinv3, ?_, ?_⟩
  · simp only [encodeStream, List.getLast?_append, List.getLast?_singleton, Option.some_or, hst0, hc.encLog,
      List.dropLast_concat, henc, hw2, hw3]
  · simp only [List.length_append, length_bitsOfLE] at hal3 ⊢; omega
  · intro src hb hbits
    obtain ⟨br, hskip, hr0⟩ := skipEndMark_ok (P := F ++ bitsOfLE al st1.index) hm1 hm8 hb
      (by rw [hbits])
    -- init_state reads the final state index
    have hal56 : al ≤ 56 := by have := hc.al_le; omega
    obtain ⟨br1, hget, hr1⟩ := revReader_reads_field (out := src) (pre := F) (post := bitsOfLE m 1)
      (n := al) (v := st1.index) (by rw [hbits]) hg1.1 hal56 (by simpa using hr0)
    obtain ⟨br2, hd, hr2⟩ := hdec src br1 [] (bitsOfLE al st1.index ++ bitsOfLE m 1) 1 []
      (by rw [hbits]; simp [List.append_assoc])
      (by simpa [List.length_append, Nat.add_comm] using hr1) (by omega)
    refine ⟨br, br2, hskip, ?_, ?_⟩
    · have hal0 : ¬ al = 0 := by have := hc.al_pos; omega
      simp only [decodeStream, Decoder.initState, hc.decLog, if_neg hal0, hget, hg1.2.1]
      have hlen : (ini ++ [c]).length = ini.reverse.length + 1 := by simp
      rw [hlen, hd]
      simp [decodeLoop, Decoder.decodeSymbol, entryOf]
    · have := RevInv_bitsRemaining hr2
      have hsz : 8 * src.size = F.length + al + m := by
        have := congrArg List.length hbits
        simp only [length_bitsLE, List.length_append, length_bitsOfLE, Array.length_toList] at this
        omega
      simp only [List.length_append, length_bitsOfLE] at this
      omega

end Zstd.Proofs.FseStream
