import Zstd.Model.Fse
import Zstd.Spec.Fse
import Zstd.Proofs.FseStream
/-
Spec-level coupling of an ENCODER table of the model with a DECODING table of the Spec
(`Spec.Fse.Table`), the interface between
  * `Zstd/Proofs/SeqTables.lean` (the tables `build_table_from_data` builds and the descriptions
    `write_table` writes are read back by `Spec.Fse.readDescription`/`buildTable` to a coupled table), and
  * `Zstd/Proofs/SeqStream.lean` (the three-state sequence bitstream of `encode_sequences` is decoded by
    `Spec.decodeSeqLoop` for any three coupled table pairs).
Same shape as `Proofs.FseStream.Coupled`, with the Spec's table in place of the model's decoder table.
-/
namespace Zstd.Proofs.SeqCoupled
open Zstd Zstd.Model.Fse

/-- Spec entry that corresponds to an encoder state of symbol `s` -/
def sEntryOf (s : Nat) (st : EState) : Spec.Fse.Entry :=
  { symbol := s, nbBits := st.numBits, baseline := st.baseline }

/-- `st` is a state of symbol `s` and the Spec table has the same entry at `st.index` -/
def SGood (T : Spec.Fse.Table) (al s : Nat) (st : EState) : Prop :=
  st.index < 2 ^ al ∧ T.entries[st.index]? = some (sEntryOf s st) ∧ st.numBits ≤ al

/-- what the sequence coder needs from a pair (encoder table, Spec decoding table) over the symbols `usable` -/
structure SCoupled (et : ETable) (T : Spec.Fse.Table) (al : Nat) (usable : Nat → Prop) : Prop where
  al_pos : 1 ≤ al
  al_le : al ≤ 9
  encLog : et.accLog = .ok al
  specLog : T.accLog = al
  start : ∀ s, usable s → ∃ st, et.startState s = .ok st ∧ SGood T al s st
  next : ∀ s idx, usable s → idx < 2 ^ al →
    ∃ st, et.nextState s idx = .ok st ∧ st.baseline ≤ idx ∧ idx < st.baseline + 2 ^ st.numBits ∧ SGood T al s st

end Zstd.Proofs.SeqCoupled
