import Zstd.Proofs.FrameDecoderOps
/-
Helper lemmas for schedule independence (C06): what a block appends does not depend on bytes the
caller has already drained, as long as offsets stay inside the retained window.
-/
set_option linter.unusedSectionVars false
namespace Zstd.Model
open Zstd

variable {σ : Type} [BlockDec σ] [BlockContract σ]

/-- the same buffer with `d` (bytes already drained by the caller) still in front -/
def DBuf.prepend (d : Array Nat) (b : DBuf) : DBuf := { b with content := d ++ b.content }

theorem DBuf.prepend_push (d : Array Nat) (b : DBuf) (x : Array Nat) :
    (b.prepend d).push x = (b.push x).prepend d := by
  simp [DBuf.prepend, DBuf.push, Array.append_assoc]

theorem DBuf.prepend_repeat (d : Array Nat) (b : DBuf) (off ml : Nat) (h : off ≤ b.content.size) :
    (b.prepend d).repeat off ml = .ok (DBuf.prepend d { b with content := copyWithin ml off b.content, totalOut := b.totalOut + ml }) ∧
    b.repeat off ml = .ok { b with content := copyWithin ml off b.content, totalOut := b.totalOut + ml } := by
  have := DBuf.repeat_drop b d b.content off ml h
  exact ⟨this.1, by simpa using this.2⟩

/-- `block_effect_local` for sequence execution: if every resolved offset is at most `W` and at least
`W` bytes are retained, then executing the block on the retained bytes alone and on the buffer with
the drained bytes `d` still in front appends the same bytes, leaves the same offset history and
counter, and ends in the same outcome.  The dictionary and `total_output_counter` are never consulted
(they only matter for offsets reaching beyond the buffer). -/
theorem executeSequences_drop (W : Nat) (d : Array Nat) (seqs : List Spec.Seq) (lits : List Nat)
    (h : Nat × Nat × Nat) (q : Nat) (b : DBuf)
    (hW : W ≤ b.content.size) (hoff : ∀ o ∈ resolvedOffsets seqs h, o ≤ W) :
    executeSequences seqs lits h q (b.prepend d) =
      ((((executeSequences seqs lits h q b).1.1).prepend d, (executeSequences seqs lits h q b).1.2),
        (executeSequences seqs lits h q b).2) := by
  induction seqs generalizing lits h q b with
  | nil =>
    simp only [executeSequences]
    split
    · rfl
    · split
      · rfl
      · simp only [DBuf.prepend_push]
  | cons s rest ih =>
    simp only [executeSequences]
    split
    · rfl
    · split
      · rfl
      · have hb1 : (if s.ll > 0 then (b.prepend d).push (lits.take s.ll).toArray else b.prepend d)
            = (if s.ll > 0 then b.push (lits.take s.ll).toArray else b).prepend d := by
          split
          · exact DBuf.prepend_push _ _ _
          · rfl
        rw [hb1]
        generalize hb1' : (if s.ll > 0 then b.push (lits.take s.ll).toArray else b) = b1
        have hW1 : W ≤ b1.content.size := by
          rw [← hb1']; split
          · simp only [DBuf.push, Array.size_append]; omega
          · exact hW
        cases hdo : doOffsetHistory s.ov s.ll h with
        | error f => rfl
        | ok r =>
          obtain ⟨actual, h'⟩ := r
          simp only
          have hoff' : actual ≤ W ∧ ∀ o ∈ resolvedOffsets rest h', o ≤ W := by
            simp only [resolvedOffsets, hdo] at hoff
            exact ⟨hoff actual (List.mem_cons_self), fun o ho => hoff o (List.mem_cons_of_mem _ ho)⟩
          split
          · rfl
          · by_cases hml : s.ml > 0
            · simp only [hml, if_true]
              obtain ⟨e1, e2⟩ := DBuf.prepend_repeat d b1 actual s.ml (by omega)
              rw [e1, e2]
              exact ih _ _ _ _ (by simp only [copyWithin_size]; omega) hoff'.2
            · simp only [hml, if_false]
              exact ih _ _ _ _ hW1 hoff'.2



/-- drains on a frame whose last block is not in yet keep the window: at least `window_size` bytes
(or everything there was) stay buffered -/
theorem applyDrain_retains (d : Decoder σ) (op : DrainOp) (h : d.blocksDone = false) :
    min d.window d.content.size ≤ (applyDrain d op).1.content.size ∧
    (applyDrain d op).1.window = d.window ∧ (applyDrain d op).1.blocksDone = false := by
  cases hst : d.state with
  | none => simp [Decoder.blocksDone, hst] at h
  | some st =>
    have hf : st.finished = false := by simpa [Decoder.blocksDone, hst] using h
    have hnf : d.isFinished = false := by
      simp only [Decoder.isFinished, hst, hf]; split <;> simp
    have hcd : st.buf.canDrainToWindow.getD 0 = st.buf.content.size - st.buf.window := by
      simp only [DBuf.canDrainToWindow]; split <;> simp <;> omega
    cases op with
    | collect =>
      simp only [applyDrain, Decoder.collect, hst, hnf, Bool.false_eq_true, if_false, Decoder.window, Decoder.content,
        Decoder.blocksDone]
      simp only [DBuf.canDrainToWindow]
      by_cases hgt : st.buf.content.size > st.buf.window
      · simp only [hgt, if_true, DBuf.take_content_size, DBuf.take_window, hf, and_true]; omega
      · simp only [hgt, if_false, hst, hf, and_true]; omega
    | read n =>
      simp only [applyDrain, Decoder.read, hst, hf, Bool.false_eq_true, if_false, hcd, Decoder.window, Decoder.content,
        Decoder.blocksDone, DBuf.take_content_size, DBuf.take_window, and_true]
      omega
    | toWriter seg1 sc =>
      simp only [applyDrain, Decoder.collectToWriter, hst, hnf, Bool.false_eq_true, if_false, hcd, Decoder.window,
        Decoder.content, Decoder.blocksDone, hf]
      have := DBuf.drainToSink_take st.buf (st.buf.content.size - st.buf.window) seg1 sc
      rw [this.1]
      simp only [DBuf.take_content_size, DBuf.take_window, and_true]
      omega

/-- `decode_from_to_accounting`: the reported count never exceeds the source given, the bytes written
never exceed the target, and the count is exactly what `bytes_read_from_source()` advanced by (no
underflow in `bytes_read_at_end - bytes_read_at_start`) — for every state, incl. the call that finds
only the checksum outstanding (F2's branch) and the call that has to `init` first -/
theorem Decoder.decodeFromTo_accounting (d d' : Decoder σ) (s : Src) (n r : Nat) (out : Array Nat)
    (h : d.decodeFromTo s n = (d', .ok (r, out))) :
    r ≤ s.length ∧ out.size ≤ n ∧ d'.bytesRead = d.bytesRead + r := by
  cases hst : d.state with
  | some st =>
    rw [Decoder.decodeFromTo_some d st s n hst] at h
    split at h
    · simp only [Prod.mk.injEq, Out.ok.injEq] at h
      obtain ⟨rfl, rfl, rfl⟩ := h
      obtain ⟨k, hk1, hk2, hr⟩ := Decoder.read_state d st n hst
      rw [hr]
      exact ⟨Nat.zero_le _, by rw [DBuf.take_fst_size]; omega, by simp [Decoder.bytesRead, hst]⟩
    · obtain ⟨dl, -, hm⟩ := fromToCore_spec d st s st.bytesRead n hst (Nat.le_refl _) (fun _ => rfl)
      rw [h] at hm
      simp only at hm
      exact ⟨by omega, hm.2.1, by simp only [Decoder.bytesRead, hst] at hm ⊢; exact hm.2.2.1⟩
  | none =>
    rw [Decoder.decodeFromTo_none d s n hst] at h
    cases hr : resetCore d.dicts d.maxWindow s with
    | keep e => rw [hr] at h; cases h
    | replace st o =>
      rw [hr] at h
      have hrc := resetCore_replace _ _ _ _ _ hr
      cases o with
      | err e => cases h
      | fault f => cases h
      | ok s1 =>
        simp only at h
        obtain ⟨dl, -, hm⟩ := fromToCore_spec { d with state := some st } st s1 0 n rfl (Nat.zero_le _)
          (fun hf => by rw [hrc.1] at hf; cases hf)
        rw [h] at hm
        simp only at hm
        have hs1 := hrc.2.2.2.2.2.2.2.2.1 s1 rfl
        have hl : s1.length = s.length - st.bytesRead := by rw [hs1, List.length_drop]
        have := hrc.2.2.2.2.2.2.2.1
        refine ⟨by omega, hm.2.1, ?_⟩
        simp only [Decoder.bytesRead, hst] at hm ⊢
        omega



/-! ### fuel and consumption of the outer loops -/

/-- a successful `decode_blocks` call consumed at least one block header -/
theorem Decoder.decodeBlocks_ok_consumes (d d' : Decoder σ) (s rest : Src) (strat : Strategy) (fin : Bool)
    (h : d.decodeBlocks s strat = (d', .ok (rest, fin))) :
    rest.length + 3 ≤ s.length ∧ ∃ n, n ≤ s.length ∧ rest = s.drop n ∧ d'.bytesRead = d.bytesRead + n := by
  cases hst : d.state with
  | none => simp [Decoder.decodeBlocks, hst] at h
  | some st =>
    rw [Decoder.decodeBlocks_some d st s strat hst] at h
    cases hl : decodeBlocksLoop strat st.buf.content.size st.blockCounter (s.length + 1) st s with
    | mk st' o =>
      rw [hl] at h
      cases o with
      | err e => cases h
      | fault f => cases h
      | ok r =>
        simp only [Prod.mk.injEq, Out.ok.injEq] at h
        obtain ⟨rfl, rfl, rfl⟩ := h
        obtain ⟨n, h1, h2, h3⟩ := decodeBlocksLoop_ok _ _ _ _ _ _ _ _ hl
        refine ⟨?_, n, h1, h2, by simp [Decoder.bytesRead, hst, h3]⟩
        rw [decodeBlocksLoop_succ] at hl
        split at hl
        · cases hl
        · cases hl
        · rename_i st1 bh s1 heq
          obtain ⟨hlen, hs1, -, -, hbr, -⟩ := decodeOneBlock_ok _ _ _ _ _ heq
          have hb := (decodeOneBlock_step st s).bytesRead_le
          rw [heq] at hb
          -- the byte counter says how much was consumed: at least this block
          have hst' := (decodeBlocksLoop_step strat st.buf.content.size st.blockCounter (s.length + 1) st s)
          have : st.bytesRead + (3 + bh.contentSize) ≤ st'.bytesRead := by
            split at hl
            · split at hl
              · split at hl
                · cases hl
                · cases hl; simp only; omega
              · cases hl; simp only; omega
            · split at hl
              · cases hl; omega
              · have := (decodeBlocksLoop_step strat st.buf.content.size st.blockCounter s.length st1 s1).bytesRead_le
                rw [hl] at this
                simp only at this
                omega
          rw [h2, List.length_drop]
          omega

theorem streamingFill_fuel (f1 f2 : Nat) (d : Decoder σ) (s : Src) (n : Nat) (h1 : s.length < f1) (h2 : s.length < f2) :
    streamingFill f1 d s n = streamingFill f2 d s n := by
  induction f1 generalizing f2 d s with
  | zero => omega
  | succ f1 ih =>
    obtain ⟨f2, rfl⟩ : ∃ f, f2 = f + 1 := ⟨f2 - 1, by omega⟩
    rw [streamingFill, streamingFill]
    split
    · split
      · rfl
      · rfl
      · rename_i d1 s1 fin heq
        have := (Decoder.decodeBlocks_ok_consumes _ _ _ _ _ _ heq).1
        exact ih _ _ _ (by omega) (by omega)
    · rfl

theorem decodeAllFrame_fuel (f1 f2 : Nat) (d : Decoder σ) (s : Src) (room : Nat) (out : Array Nat)
    (h1 : s.length < f1) (h2 : s.length < f2) :
    decodeAllFrame f1 d s room out = decodeAllFrame f2 d s room out := by
  induction f1 generalizing f2 d s room out with
  | zero => omega
  | succ f1 ih =>
    obtain ⟨f2, rfl⟩ : ∃ f, f2 = f + 1 := ⟨f2 - 1, by omega⟩
    rw [decodeAllFrame, decodeAllFrame]
    split
    · rfl
    · rfl
    · rename_i d1 s1 fin heq
      have := (Decoder.decodeBlocks_ok_consumes _ _ _ _ _ _ heq).1
      simp only
      split
      · rfl
      · split
        · rfl
        · exact ih _ _ _ _ _ (by omega) (by omega)

/-- the source `decode_all`'s per-frame loop hands back is a suffix of the one it was given -/
theorem decodeAllFrame_ok_len (fuel : Nat) (d d' : Decoder σ) (s s' : Src) (room room' : Nat) (out out' : Array Nat)
    (h : decodeAllFrame fuel d s room out = (d', .ok (s', room', out'))) : ∃ n, s' = s.drop n := by
  induction fuel generalizing d s room out with
  | zero =>
    simp only [decodeAllFrame, Prod.mk.injEq, Out.ok.injEq] at h
    exact ⟨0, by simp [h.2.1]⟩
  | succ fuel ih =>
    rw [decodeAllFrame] at h
    split at h
    · cases h
    · cases h
    · rename_i d1 s1 fin heq
      obtain ⟨-, n, -, hn, -⟩ := Decoder.decodeBlocks_ok_consumes _ _ _ _ _ _ heq
      simp only at h
      split at h
      · cases h
      · split at h
        · simp only [Prod.mk.injEq, Out.ok.injEq] at h
          exact ⟨n, by rw [← h.2.1, hn]⟩
        · obtain ⟨m, hm⟩ := ih _ _ _ _ h
          exact ⟨n + m, by rw [hm, hn, List.drop_drop]⟩


theorem readFrameHeader_skip (s : Src) (m len : Nat) (h : readFrameHeader s = .error (.skipFrame m len)) :
    8 ≤ s.length ∧ len = leNat ((s.drop 4).take 4) ∧ Gen.skipMagicLo ≤ leNat (s.take 4) ∧ leNat (s.take 4) ≤ Gen.skipMagicHi := by
  simp only [readFrameHeader] at h
  split at h
  · cases h
  · rename_i mg s1 h4
    rw [readExact_eq_some] at h4
    obtain ⟨hl4, rfl, rfl⟩ := h4
    split at h
    · rename_i hm
      split at h
      · cases h
      · rename_i l s2 hl
        rw [readExact_eq_some, List.length_drop] at hl
        obtain ⟨hl8, rfl, -⟩ := hl
        simp only [Except.error.injEq, DErr.skipFrame.injEq] at h
        exact ⟨by omega, h.2.symm, hm.1, hm.2⟩
    · split at h
      · cases h
      · repeat' split at h
        all_goals cases h

theorem FHeader.windowSize_not_skip (hd : FHeader) (m len : Nat) : hd.windowSize ≠ .error (.skipFrame m len) := by
  simp only [FHeader.windowSize]
  repeat' split
  all_goals simp

theorem Decoder.reset_skip (d d1 : Decoder σ) (s : Src) (m len : Nat) (h : d.reset s = (d1, .err (.skipFrame m len))) :
    8 ≤ s.length ∧ d1 = d ∧ len = leNat ((s.drop 4).take 4) := by
  simp only [Decoder.reset, resetCore] at h
  split at h
  · rename_i e hk
    simp only [Prod.mk.injEq, Out.err.injEq] at h
    obtain ⟨rfl, rfl⟩ := h
    split at hk
    · rename_i e' hr
      cases hk
      have := readFrameHeader_skip s m len hr
      exact ⟨this.1, rfl, this.2.1⟩
    · split at hk
      · rename_i e' hw
        cases hk
        exact absurd hw (FHeader.windowSize_not_skip _ _ _)
      · split at hk
        · cases hk
        · simp only [applyDictChoice] at hk
          repeat' split at hk
          all_goals cases hk
  · rename_i st o hk
    simp only [Prod.mk.injEq] at h
    obtain ⟨-, rfl⟩ := h
    split at hk
    · cases hk
    · split at hk
      · cases hk
      · split at hk
        · cases hk
        · simp only [applyDictChoice] at hk
          repeat' split at hk
          all_goals cases hk



/-- one unfolding of `decode_all`'s outer loop -/
theorem decodeAllLoop_succ (fuel : Nat) (d : Decoder σ) (s : Src) (room : Nat) (out : Array Nat) (hne : s ≠ []) :
    decodeAllLoop (fuel + 1) d s room out =
      match d.reset s with
      | (d1, .err (.skipFrame _ len)) =>
        if (s.drop 8).length < len then (d1, .err .failedToSkipFrame)
        else decodeAllLoop fuel d1 ((s.drop 8).drop len) room out
      | (d1, .err e) => (d1, .err e)
      | (d1, .fault f) => (d1, .fault f)
      | (d1, .ok s1) =>
        match decodeAllFrame (s1.length + 2) d1 s1 room out with
        | (d2, .err e) => (d2, .err e)
        | (d2, .fault f) => (d2, .fault f)
        | (d2, .ok (s2, room', out')) => decodeAllLoop fuel d2 s2 room' out' := by
  rw [decodeAllLoop]
  have : s.isEmpty = false := by cases s <;> simp_all
  simp only [this, Bool.false_eq_true, if_false]
  rfl

theorem decodeAllLoop_fuel (f1 f2 : Nat) (d : Decoder σ) (s : Src) (room : Nat) (out : Array Nat)
    (h1 : s.length < f1) (h2 : s.length < f2) :
    decodeAllLoop f1 d s room out = decodeAllLoop f2 d s room out := by
  induction f1 generalizing f2 d s room out with
  | zero => omega
  | succ f1 ih =>
    obtain ⟨f2, rfl⟩ : ∃ f, f2 = f + 1 := ⟨f2 - 1, by omega⟩
    by_cases hne : s = []
    · subst hne; simp [decodeAllLoop]
    · rw [decodeAllLoop_succ _ _ _ _ _ hne, decodeAllLoop_succ _ _ _ _ _ hne]
      split
      · rename_i d1 m len heq
        have := (Decoder.reset_skip _ _ _ _ _ heq).1
        split
        · rfl
        · exact ih _ _ _ _ _ (by simp only [List.length_drop]; omega) (by simp only [List.length_drop]; omega)
      · rfl
      · rfl
      · rename_i d1 s1 heq
        have hs1 : s1.length + 5 ≤ s.length := by
          rcases Decoder.reset_cases d s with ⟨e, he⟩ | ⟨st, o, he, hr⟩
          · rw [he] at heq; cases heq
          · rw [he] at heq
            simp only [Prod.mk.injEq] at heq
            obtain ⟨-, rfl⟩ := heq
            have hrc := resetCore_replace _ _ _ _ _ hr
            have := hrc.2.2.2.2.2.2.2.2.1 s1 rfl
            rw [this, List.length_drop]
            have := hrc.2.2.2.2.2.2.1
            have := hrc.2.2.2.2.2.2.2.1
            omega
        split
        · rfl
        · rfl
        · rename_i d2 s2 room' out' hfr
          obtain ⟨n, hn⟩ := decodeAllFrame_ok_len _ _ _ _ _ _ _ _ _ hfr
          have : s2.length ≤ s1.length := by rw [hn, List.length_drop]; omega
          exact ih _ _ _ _ _ (by omega) (by omega)

/-- what a successful per-frame loop of `decode_all` guarantees: the frame is finished and completely
drained into the target (no silent truncation), within the room given (no out-of-bounds write) -/
theorem decodeAllFrame_ok (fuel : Nat) (d d' : Decoder σ) (s s' : Src) (room room' : Nat) (out out' : Array Nat)
    (hf : s.length < fuel)
    (h : decodeAllFrame fuel d s room out = (d', .ok (s', room', out'))) :
    d'.isFinished = true ∧ d'.canCollect = 0 ∧
    ∃ x, out' = out ++ x ∧ x.size ≤ room ∧ room' = room - x.size ∧ DStep d d' x := by
  induction fuel generalizing d s room out with
  | zero => omega
  | succ fuel ih =>
    rw [decodeAllFrame] at h
    split at h
    · cases h
    · cases h
    · rename_i d1 s1 fin heq
      have hc := (Decoder.decodeBlocks_ok_consumes _ _ _ _ _ _ heq).1
      have hd1 := Decoder.decodeBlocks_dstep d s (.uptoBytes (1024 * 1024))
      rw [heq] at hd1
      simp only at hd1 h
      have hrd := Decoder.read_dstep d1 room
      have hsz : (d1.read room).2.size ≤ room := by
        cases hst : d1.state with
        | none => simp [Decoder.read, hst]
        | some st =>
          obtain ⟨k, hk, -, hr⟩ := Decoder.read_state d1 st room hst
          rw [hr, DBuf.take_fst_size]; omega
      split at h
      · cases h
      · rename_i hcc
        split at h
        · rename_i hfin
          simp only [Prod.mk.injEq, Out.ok.injEq] at h
          obtain ⟨rfl, rfl, rfl, rfl⟩ := h
          refine ⟨hfin, by simpa using hcc, _, rfl, hsz, rfl, ?_⟩
          simpa using hd1.trans hrd
        · obtain ⟨h1, h2, x, hx1, hx2, hx3, hx4⟩ := ih _ _ _ _ (by omega) h
          refine ⟨h1, h2, (d1.read room).2 ++ x, by rw [hx1, Array.append_assoc], ?_, ?_, ?_⟩
          · rw [Array.size_append]; omega
          · rw [hx3, Array.size_append]; omega
          · simpa using (hd1.trans hrd).trans hx4



/-- `decode_all` writes at most `room` bytes (`output.len()`): no out-of-bounds write, and every frame it
reports done was finished and drained completely -/
theorem decodeAllLoop_ok (fuel : Nat) (d d' : Decoder σ) (s : Src) (room : Nat) (out out' : Array Nat)
    (h : decodeAllLoop fuel d s room out = (d', .ok out')) : ∃ x, out' = out ++ x ∧ x.size ≤ room := by
  induction fuel generalizing d s room out with
  | zero =>
    simp only [decodeAllLoop, Prod.mk.injEq, Out.ok.injEq] at h
    exact ⟨#[], by simp [h.2], Nat.zero_le _⟩
  | succ fuel ih =>
    by_cases hne : s = []
    · subst hne
      simp only [decodeAllLoop, List.isEmpty_nil, if_true, Prod.mk.injEq, Out.ok.injEq] at h
      exact ⟨#[], by simp [h.2], Nat.zero_le _⟩
    · rw [decodeAllLoop_succ _ _ _ _ _ hne] at h
      split at h
      · split at h
        · cases h
        · exact ih _ _ _ _ h
      · cases h
      · cases h
      · rename_i d1 s1 heq
        split at h
        · cases h
        · cases h
        · rename_i d2 s2 room' out2 hfr
          obtain ⟨-, -, x, hx1, hx2, hx3, -⟩ := decodeAllFrame_ok _ _ _ _ _ _ _ _ _ (by omega) hfr
          obtain ⟨y, hy1, hy2⟩ := ih _ _ _ _ h
          exact ⟨x ++ y, by rw [hy1, hx1, Array.append_assoc], by rw [Array.size_append]; omega⟩

/-- a skippable frame header at the front of the source makes `reset` report `SkipFrame` -/
theorem Decoder.reset_skippable (d : Decoder σ) (s : Src) (h8 : 8 ≤ s.length)
    (hm : Gen.skipMagicLo ≤ leNat (s.take 4) ∧ leNat (s.take 4) ≤ Gen.skipMagicHi) :
    d.reset s = (d, .err (.skipFrame (leNat (s.take 4)) (leNat ((s.drop 4).take 4)))) := by
  have e1 : readExact 4 s = some (s.take 4, s.drop 4) := by rw [readExact_eq_some]; exact ⟨by omega, rfl, rfl⟩
  have e2 : readExact 4 (s.drop 4) = some ((s.drop 4).take 4, (s.drop 4).drop 4) := by
    rw [readExact_eq_some, List.length_drop]; exact ⟨by omega, rfl, rfl⟩
  simp only [Decoder.reset, resetCore, readFrameHeader, e1, e2, hm, and_self, if_true]

/-- `truncated_skippable`: a skippable frame whose declared length exceeds what is left is an error -/
theorem decodeAllLoop_truncated_skippable (fuel : Nat) (d : Decoder σ) (s : Src) (room : Nat) (out : Array Nat)
    (h8 : 8 ≤ s.length) (hm : Gen.skipMagicLo ≤ leNat (s.take 4) ∧ leNat (s.take 4) ≤ Gen.skipMagicHi)
    (hlen : s.length - 8 < leNat ((s.drop 4).take 4)) :
    decodeAllLoop (fuel + 1) d s room out = (d, .err .failedToSkipFrame) := by
  have hne : s ≠ [] := by intro h; subst h; simp at h8
  rw [decodeAllLoop_succ _ _ _ _ _ hne, Decoder.reset_skippable d s h8 hm]
  simp only [List.length_drop]
  rw [if_pos hlen]

/-- a complete skippable frame is skipped: exactly `8 + len` bytes, nothing written, decoder untouched -/
theorem decodeAllLoop_skip (fuel : Nat) (d : Decoder σ) (s : Src) (room : Nat) (out : Array Nat)
    (h8 : 8 ≤ s.length) (hm : Gen.skipMagicLo ≤ leNat (s.take 4) ∧ leNat (s.take 4) ≤ Gen.skipMagicHi)
    (hlen : leNat ((s.drop 4).take 4) ≤ s.length - 8) :
    decodeAllLoop (fuel + 1) d s room out = decodeAllLoop fuel d (s.drop (8 + leNat ((s.drop 4).take 4))) room out := by
  have hne : s ≠ [] := by intro h; subst h; simp at h8
  rw [decodeAllLoop_succ _ _ _ _ _ hne, Decoder.reset_skippable d s h8 hm]
  simp only [List.length_drop]
  rw [if_neg (by omega), List.drop_drop]

/-- `trailing_garbage`: whatever follows the last frame must itself start a frame or a skippable frame;
anything `reset` rejects makes the whole call fail with that error -/
theorem decodeAllLoop_garbage (fuel : Nat) (d d1 : Decoder σ) (s : Src) (room : Nat) (out : Array Nat) (e : DErr)
    (hne : s ≠ []) (hr : d.reset s = (d1, .err e)) (hns : ∀ m l, e ≠ .skipFrame m l) :
    decodeAllLoop (fuel + 1) d s room out = (d1, .err e) := by
  rw [decodeAllLoop_succ _ _ _ _ _ hne, hr]
  split
  · rename_i heq; simp only [Prod.mk.injEq, Out.err.injEq] at heq; exact absurd heq.2 (hns _ _)
  · rename_i heq; simp only [Prod.mk.injEq, Out.err.injEq] at heq; rw [heq.1, heq.2]
  · rename_i heq; cases heq
  · rename_i heq; cases heq

/-- fewer than 4 trailing bytes, or 4 bytes that are neither magic number: `reset` fails -/
theorem Decoder.reset_garbage (d : Decoder σ) (s : Src)
    (h : s.length < 4 ∨ (leNat (s.take 4) ≠ Gen.magicNum ∧ ¬ (Gen.skipMagicLo ≤ leNat (s.take 4) ∧ leNat (s.take 4) ≤ Gen.skipMagicHi))) :
    d.reset s = (d, .err (if s.length < 4 then .magicRead else .badMagic (leNat (s.take 4)))) := by
  by_cases h4 : s.length < 4
  · have e1 : readExact 4 s = none := by rw [readExact_eq_none]; exact h4
    simp only [Decoder.reset, resetCore, readFrameHeader, e1, h4, if_true]
  · have e1 : readExact 4 s = some (s.take 4, s.drop 4) := by rw [readExact_eq_some]; exact ⟨by omega, rfl, rfl⟩
    rcases h with h | ⟨hm, hs⟩
    · omega
    · simp only [Decoder.reset, resetCore, readFrameHeader, e1, hs, h4, if_false, hm, ne_eq, not_false_eq_true, if_true]


end Zstd.Model
